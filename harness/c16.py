"""C16 — the graphqlschema strategy reproduces the schema.

Tie (DESIGN.md §3 C16):
  * correspondence `gen`   Lean `SchemaGen.gen S tm sv` (driver op "gen")  ==  the constructor IR of the module the REAL
                           generator emits for the same schema: (a) `generate_schema_module(...)` itself, (b) the file
                           written by `generate_graphql_schema_python_file` / `main.graphql_schema` (after autoflake,
                           isort, black) whose import lists must equal the model's pruned imports;
  * correspondence `eval`  Lean `PySchemaEval.evalSchemaModule` (driver op "eval") on the IR of a module text  ==  what
                           CPython + graphql-core make of that text (`exec` in a forked child: serialised schema or
                           exception class), on the really emitted files and on perturbed variants of them;
  * correspondence `dispatch`  Lean `SchemaGen.dispatch`  ==  `GraphQLSchemaSettings(target_file_path=…)` accepting /
                           rejecting + `target_file_format`, AND what `main.graphql_schema` really does with the path:
                           which of the two generators it calls, with which variable names (generators stubbed in a
                           forked child);
  * correspondence `repr`  Lean `PyRepr.pyRepr v` (driver op "repr")  ==  the text `ast.unparse` writes for every
                           `ast.Constant` of the module AST the real generator returned (value read off the node), and
                           `repr(c)` of random constants;
  * correspondence `read`  Lean `PyLiteral.readCExpr text` (driver op "read")  ==  what CPython makes of the text of every
                           constant position (keyword values, dict keys) of the `ast.unparse` text and of the written
                           file after black; random constants through repr and black; texts outside the modelled
                           sub-language must be declined (`C16.literal_roundtrip` is the theorem between the two);
  * correspondence `order` Lean `GqlCollect.typeMapOrder S`  ==  `list(schema.type_map)` (all keys, graphql-core's own types
                           included) of the source schema and of the schema the generated module defines;
  * the trigger predicates (Lean `trigOneOf`, `trigShadow`, `wf`) agree with their Python twins;
  * oracle (independent of the model): exec the really generated file, take the configured schema variable, compare
    `print_schema` AND a structural walk with the source; `.graphql/.gql` target: file text == print_schema(source) and
    `build_schema(text)` equals the source; sources: SDL (`main.graphql_schema` end to end), full introspection, and the
    remote path (`get_graphql_schema_from_url` with a stubbed `httpx.post`).
"""
from __future__ import annotations

import ast
import contextlib
import io
import json
import os
import random
from pathlib import Path
from typing import Any, Dict, List, Optional, Tuple

from . import c16_gen, c16_ir, common, engine
from .common import Ctx, Failure, LeanStatus, Mismatch, Result

REL = "ariadne_codegen/graphql_schema_generators/"

# Python twin of Lean `SchemaWF.shadowSensitive` (agreement is checked through the driver on every case)
SHADOW_SENSITIVE = ["DirectiveLocation", "GraphQLArgument", "GraphQLDirective", "GraphQLField", "GraphQLInputField",
                    "GraphQLList", "GraphQLNonNull", "GraphQLSchema", "GraphQLID",
                    "GraphQLInt", "GraphQLFloat", "GraphQLString", "GraphQLBoolean", "Undefined", "cast", "List"]
# imported names that the module only needs before the type-map variable is bound (or merely needs to be bound)
SHADOW_HARMLESS = ["GraphQLScalarType", "GraphQLEnumType", "GraphQLUnionType", "GraphQLInputObjectType", "GraphQLEnumValue",
                   "GraphQLNamedType", "TypeMap", "GraphQLObjectType", "GraphQLInterfaceType"]
PLAIN_NAMES = ["type_map", "schema", "tm", "sv", "_", "__", "match", "case", "type", "é", "TYPES", "my_schema_2", "print", "dict",
               "__name__", "self", "lambda_", "graphql", "typing"]


def fingerprint_items() -> List[Tuple[str, Optional[str]]]:
    items: List[Tuple[str, Optional[str]]] = []
    for f, quals in {
        "schema.py": ["generate_graphql_schema_graphql_file", "generate_graphql_schema_python_file", "generate_schema_module",
                      "generate_type_map", "generate_schema"],
        "named_types.py": ["generate_named_type", "generate_scalar_type", "generate_object_type", "generate_interface_type",
                           "generate_union_type", "generate_enum_type", "generate_input_object_type"],
        "fields.py": ["generate_field_map", "generate_field", "generate_field_type", "generate_args", "generate_arg",
                      "generate_enum_values", "generate_enum_value", "generate_input_field_map", "generate_input_field"],
        "directives.py": ["generate_directive", "generate_directive_locations", "generate_directive_location"],
        "utils.py": ["get_named_type", "get_optional_named_type", "get_list_of_named_types"],
        "constants.py": [None],
    }.items():
        for q in quals:
            items.append((REL + f, q))
    items += [("ariadne_codegen/main.py", "graphql_schema"), ("ariadne_codegen/settings.py", "GraphQLSchemaSettings"),
              ("ariadne_codegen/settings.py", "assert_string_is_valid_schema_target_filename"),
              ("ariadne_codegen/utils.py", "ast_to_str"), ("ariadne_codegen/codegen.py", "generate_constant")]
    return items


# --------------------------------------------------------------------------------------------
# child side: one case against the REAL code
# --------------------------------------------------------------------------------------------


def _load_source(sdl: str, source: str) -> Any:
    """the schema object the generator is given, per source kind (mirrors ariadne_codegen.schema)"""
    from graphql import build_ast_schema, build_client_schema, introspection_from_schema, parse

    local = build_ast_schema(parse(sdl), assume_valid=True)  # == get_graphql_schema_from_path
    if source == "sdl":
        return local
    if source == "introspection-full":
        return build_client_schema(introspection_from_schema(local), assume_valid=True)
    raise ValueError(source)


def _stub_post(sdl: str) -> Any:
    """httpx.post replacement: answer the introspection query the real code sends with graphql-core"""
    import httpx
    from graphql import build_schema, graphql_sync

    served = build_schema(sdl)

    def post(url: str, json: Any = None, **kw: Any) -> Any:  # noqa: A002
        res = graphql_sync(served, json["query"])
        body: Dict[str, Any] = {"data": res.data}
        if res.errors:
            body["errors"] = [e.formatted for e in res.errors]
        return httpx.Response(200, json=body, request=httpx.Request("POST", url))

    return post


def _exec_text(text: str, sv: str, tm: str) -> Dict[str, Any]:
    """exec a module text in a fresh name space; serialise what the schema variable holds"""
    from graphql import GraphQLSchema

    ns: Dict[str, Any] = {"__name__": "generated_schema"}
    try:
        exec(compile(text, "generated_schema.py", "exec", dont_inherit=True), ns)  # do not inherit this file's `from __future__ import annotations`
    except BaseException as e:  # noqa: BLE001
        return {"status": "raises", "exc": type(e).__name__, "msg": str(e)[:300]}
    val = ns.get(sv, None) if sv in ns else None
    if sv not in ns:
        return {"status": "no-variable", "exc": "KeyError"}
    if not isinstance(val, GraphQLSchema):
        return {"status": "not-a-schema", "exc": "TypeError", "type": type(val).__name__}
    out: Dict[str, Any] = {"status": "ok", "schema": val, "tm_type": type(ns.get(tm)).__name__ if tm in ns else None}
    return out


def _print(schema: Any) -> Tuple[Optional[str], Optional[str]]:
    from graphql import print_schema

    try:
        return print_schema(schema), None
    except Exception as e:  # noqa: BLE001  (e.g. a custom-scalar default that is a list/dict cannot be printed)
        return None, type(e).__name__


def _compare_schemas(src: Any, gen: Any) -> Dict[str, Any]:
    """the oracle's judgement on two schema objects (independent of the Lean model)"""
    out: Dict[str, Any] = {}
    a, ea = _print(src)
    b, eb = _print(gen)
    out["src_printable"] = a is not None
    out["sdl_equal"] = (a == b) if a is not None else (eb == ea)
    if a is not None and b is not None and a != b:
        import difflib

        out["sdl_diff"] = "\n".join(list(difflib.unified_diff(a.splitlines(), b.splitlines(), lineterm="", n=0))[:12])
        out["sdl_equal_modulo_oneof"] = a.replace(" @oneOf", "") == b
    try:
        sa, sb = c16_ir.schema_to_ir(src), c16_ir.schema_to_ir(gen)
    except c16_ir.Unrecognised as e:
        out["structure_equal"] = False
        out["structure_diff"] = "unserialisable: %s" % e
        return out
    out["structure_equal"] = sa == sb
    if sa != sb:
        out["structure_diff"] = _first_diff(sa, sb)
        sa2 = json.loads(json.dumps(sa))
        for t in sa2["types"]:
            if t["kind"] == "input":
                t["oneOf"] = False
        out["structure_equal_modulo_oneof"] = sa2 == sb
    # graphql-core places the five specified scalars wherever its type collection first meets them; only the order of the
    # user's types is observable (print_schema does not print the built-ins)
    out["type_map_order_equal"] = [k for k, t in src.type_map.items() if not c16_ir.is_builtin(t)] == \
        [k for k, t in gen.type_map.items() if not c16_ir.is_builtin(t)]
    out["directive_order_equal"] = [d.name for d in src.directives] == [d.name for d in gen.directives]
    out["gen_ir"] = sb
    return out


def _first_diff(a: Any, b: Any, path: str = "") -> str:
    if type(a) is not type(b):
        return "%s: %r vs %r" % (path, a, b)
    if isinstance(a, dict):
        for k in a:
            if k not in b:
                return "%s.%s missing" % (path, k)
            if a[k] != b[k]:
                return _first_diff(a[k], b[k], path + "." + str(k))
        return "%s: extra keys %r" % (path, [k for k in b if k not in a])
    if isinstance(a, list):
        if len(a) != len(b):
            return "%s: length %d vs %d" % (path, len(a), len(b))
        for i, (x, y) in enumerate(zip(a, b)):
            if x != y:
                return _first_diff(x, y, "%s[%d]" % (path, i))
    return "%s: %r vs %r" % (path, a, b)


@engine.with_scratch
def run_case(root: Path, case: Dict[str, Any]) -> Dict[str, Any]:
    """case = {"sdl", "source": sdl|introspection-full|remote, "tm", "sv", "via": direct|main, "file": name}"""
    from graphql import build_schema, print_schema

    sdl, source, tm, sv = case["sdl"], case["source"], case["tm"], case["sv"]
    fname = case.get("file", "schema_out.py")
    target = root / fname
    out: Dict[str, Any] = {}
    is_py = Path(fname).suffix[1:].lower() == "py"
    # the source schema
    try:
        if source == "remote":
            import httpx

            from ariadne_codegen import schema as ac_schema

            httpx.post = _stub_post(sdl)  # forked child: the patch dies with the process
            src = ac_schema.get_graphql_schema_from_url("http://verif.test/graphql")
        else:
            src = _load_source(sdl, source)
        out["src_ir"] = c16_ir.schema_to_ir(src)
        out["src_order"] = list(src.type_map)  # every key, graphql-core's own types included
        if source != "sdl":
            # build_client_schema hands GraphQLSchema the types of the introspection result, i.e. the served schema's
            # type_map order, built-in types included (those that the client schema still has)
            served = build_schema(sdl) if source == "remote" else _load_source(sdl, "sdl")
            out["types_arg"] = [k for k in served.type_map if k in src.type_map]
    except (AttributeError, ImportError) as e:
        return {"observer_error": "source: %r" % e}
    except Exception as e:  # noqa: BLE001  (graphql-core cannot introspect a schema whose default value it cannot print)
        return {"source_unavailable": type(e).__name__}
    # (a) the module AST as generate_schema_module returns it
    try:
        from ariadne_codegen.graphql_schema_generators.schema import (generate_graphql_schema_graphql_file,
                                                                      generate_graphql_schema_python_file, generate_schema_module)
    except (AttributeError, ImportError) as e:
        return {"observer_error": "import: %r" % e}
    if is_py:
        try:
            mod = generate_schema_module(src, type_map_name=tm, schema_variable_name=sv)
            unparsed = ast.unparse(ast.fix_missing_locations(mod))
            out["ast_ir"] = c16_ir.text_to_ir(unparsed)
            out["constants"] = c16_ir.module_constants(mod)          # (value object of the node, text ast.unparse writes for it)
            out["literals"] = c16_ir.literal_segments(unparsed)      # (text of a constant position, what CPython makes of it)
        except (AttributeError, TypeError) as e:
            out["ast_ir"] = {"unrecognised": "observer: %r" % e}
        except Exception as e:  # noqa: BLE001
            out["ast_ir"] = {"unrecognised": "generator raised %s" % type(e).__name__}
    if not is_py and _print(src)[0] is None:
        # graphql-core itself cannot print this source (list/dict default of a custom scalar): no SDL exists to compare with
        return {"source_unavailable": "unprintable-for-sdl-target", "src_ir": out["src_ir"]}
    # (b) the written file
    try:
        if case.get("via") == "main":
            from ariadne_codegen import main as ac_main

            cfg: Dict[str, Any] = {"target_file_path": str(target), "schema_variable_name": sv, "type_map_variable_name": tm}
            if source == "remote":
                cfg["remote_schema_url"] = "http://verif.test/graphql"
            else:
                sp = root / "in_schema.graphql"
                sp.write_text(sdl, encoding="utf-8")
                cfg["schema_path"] = str(sp)
            with contextlib.redirect_stdout(io.StringIO()):
                ac_main.graphql_schema({"tool": {"ariadne-codegen": cfg}})
        elif is_py:
            generate_graphql_schema_python_file(src, str(target), tm, sv)
        else:
            generate_graphql_schema_graphql_file(src, str(target))
    except Exception as e:  # noqa: BLE001
        out["generation"] = {"status": "raises", "exc": type(e).__name__, "msg": str(e)[:300]}
        return out
    if not target.exists():
        out["generation"] = {"status": "no-file"}
        return out
    raw = target.read_bytes()
    try:
        text = raw.decode("utf-8")
    except UnicodeDecodeError as e:
        out["generation"] = {"status": "not-utf8", "msg": str(e)}
        return out
    out["generation"] = {"status": "ok", "bytes": len(raw)}
    if not is_py:
        want, _ = _print(src)
        out["sdl_target"] = {"text_equal": text == want, "src_printable": want is not None}
        try:
            back = build_schema(text, assume_valid=True)
            out["sdl_target"]["compare"] = {k: v for k, v in _compare_schemas(src, back).items() if k != "gen_ir"}
            law = build_schema(want, assume_valid=True) if want is not None else None
            out["sdl_target"]["law_holds"] = law is not None and c16_ir.schema_to_ir(law) == out["src_ir"]
        except Exception as e:  # noqa: BLE001
            out["sdl_target"]["parse_error"] = "%s: %s" % (type(e).__name__, str(e)[:200])
        out["looks_like_python"] = text.lstrip().startswith("from ")
        return out
    out["file_ir"] = c16_ir.text_to_ir(text)
    known = {seg for seg, _ in out.get("literals", [])}
    out["literals"] = out.get("literals", []) + [x for x in c16_ir.literal_segments(text) if x[0] not in known]  # after black
    ex = _exec_text(text, sv, tm)
    if ex["status"] == "ok":
        cmp_ = _compare_schemas(src, ex["schema"])
        out["exec"] = {"status": "ok", "tm_type": ex["tm_type"], "gen_order": list(ex["schema"].type_map), **cmp_}
    else:
        out["exec"] = ex
    return out


@engine.with_scratch
def exec_text_case(root: Path, text: str, sv: str, tm: str) -> Dict[str, Any]:
    """eval-validation: what CPython + graphql-core make of a module text"""
    ex = _exec_text(text, sv, tm)
    if ex["status"] == "ok":
        try:
            return {"ok": c16_ir.schema_to_ir(ex["schema"])}
        except c16_ir.Unrecognised as e:
            return {"unserialisable": str(e)}
    return {"err": ex["exc"]}


# --------------------------------------------------------------------------------------------
# driver (own runner: the model echoes arbitrary unicode, and `str.splitlines` would split inside
# JSON strings at U+2028 / U+0085 / ... which Lean's JSON printer does not escape)
# --------------------------------------------------------------------------------------------


def run_driver(lines: List[Dict[str, Any]], chunk: int = 2000) -> List[Any]:
    import subprocess

    exe = common.LEAN / ".lake/build/bin" / common.driver_name("C16")
    if not exe.exists():
        raise common.Infra(f"driver {exe} not built")
    out: List[Any] = []
    for i in range(0, len(lines), chunk):
        part = lines[i: i + chunk]
        payload = "".join(json.dumps(l, separators=(",", ":")) + "\n" for l in part).encode("ascii")
        p = subprocess.run([str(exe)], input=payload, capture_output=True, timeout=1200)
        if p.returncode != 0:
            raise common.Infra(f"driver {exe.name} exited {p.returncode}: {p.stderr[-300:]!r}")
        got = [json.loads(l.decode("utf-8")) for l in p.stdout.split(b"\n") if l.strip()]
        if len(got) != len(part):
            raise common.Infra(f"driver {exe.name}: {len(part)} lines in, {len(got)} lines out")
        out += got
    for line, o in zip(lines, out):
        if isinstance(o, dict) and "driver_error" in o:
            raise common.Infra(f"driver {exe.name} rejected {json.dumps(line)[:200]}: {o['driver_error']}")
    return out


# --------------------------------------------------------------------------------------------
# case generation
# --------------------------------------------------------------------------------------------


def valid_sdl(sdl: str) -> Optional[str]:
    """None when graphql-core accepts the schema, else the reason (parent side: graphql-core only)"""
    from graphql import build_schema, validate_schema

    try:
        errs = validate_schema(build_schema(sdl))
    except Exception as e:  # noqa: BLE001
        return "build: %s" % type(e).__name__
    return errs[0].message[:80] if errs else None


def has_one_of(sdl: str) -> bool:
    return "@oneOf" in sdl


def pick_names(rng: random.Random, region: str) -> Tuple[str, str]:
    if region == "shadow":
        return rng.choice(SHADOW_SENSITIVE), rng.choice(PLAIN_NAMES[:4])
    r = rng.random()
    if r < 0.45:
        return "type_map", "schema"
    if r < 0.6:
        return rng.choice(SHADOW_HARMLESS), rng.choice(PLAIN_NAMES)
    if r < 0.7:
        return rng.choice(PLAIN_NAMES), rng.choice(SHADOW_SENSITIVE + SHADOW_HARMLESS)  # shadowing by the *schema* variable is harmless
    if r < 0.78:
        n = rng.choice(PLAIN_NAMES)
        return n, n  # both names coincide: the module still works, the name ends up bound to the schema
    tm, sv = rng.sample(PLAIN_NAMES, 2)
    return tm, sv


def make_cases(ctx: Ctx, n_py: int, n_sdl: int, n_region: int, label: str = "cases") -> Tuple[List[Dict[str, Any]], Dict[str, int]]:
    rng = ctx.sub_rng(label)
    cases: List[Dict[str, Any]] = []
    stats: Dict[str, int] = {}
    attempts = 0
    want = n_py + n_sdl + n_region
    while len(cases) < want and attempts < want * 4:
        attempts += 1
        idx = len(cases)
        region = "none"
        if idx >= n_py + n_sdl:
            region = "oneOf" if (idx - n_py - n_sdl) % 2 == 0 else "shadow"
        sdl, feats = c16_gen.make_sdl(rng, one_of=0.6 if region == "oneOf" else 0.0, size=rng.choice([1, 2, 2, 3]),
                                      default_stress=region == "none" and rng.random() < 0.3)
        why = valid_sdl(sdl)
        if why is not None:
            stats["generator:invalid-schema-dropped"] = stats.get("generator:invalid-schema-dropped", 0) + 1
            continue
        if region == "oneOf" and not has_one_of(sdl):
            continue
        source = rng.choice(["sdl", "sdl", "introspection-full", "remote"])
        tm, sv = pick_names(rng, region)
        case: Dict[str, Any] = {"sdl": sdl, "source": source, "tm": tm, "sv": sv, "region": region, "features": feats}
        case["via"] = "main" if source in ("sdl", "remote") and rng.random() < 0.7 else "direct"
        if source == "introspection-full":
            case["via"] = "direct"
        if n_py <= idx < n_py + n_sdl:
            case["file"] = rng.choice(["out.graphql", "out.gql", "out.GQL", "x.py.graphql", "Out.GraphQL"])
        else:
            case["file"] = rng.choice(["schema_out.py"] * 6 + ["S.PY", "a.b.Py", "x.graphql.py"])
        cases.append(case)
    return cases, stats


# --------------------------------------------------------------------------------------------
# judging a case (parent side)
# --------------------------------------------------------------------------------------------


def case_input(case: Dict[str, Any]) -> Dict[str, Any]:
    return {k: case[k] for k in ("sdl", "source", "tm", "sv", "via", "file") if k in case}


def trigger_of(case: Dict[str, Any], cmp_: Optional[Dict[str, Any]]) -> Optional[str]:
    if case["tm"] in SHADOW_SENSITIVE:
        return "trigShadow"
    if has_one_of(case["sdl"]) and case["source"] != "remote":
        return "trigOneOf"
    return None


def oracle(case: Dict[str, Any], r: Dict[str, Any]) -> List[Failure]:
    """the property, judged on the real artefacts only"""
    inp = case_input(case)
    fails: List[Failure] = []
    shadow = case["tm"] in SHADOW_SENSITIVE
    g = r.get("generation")
    if g is None:
        return fails
    if g["status"] != "ok":
        fails.append(Failure("generation-" + g["status"], "trigShadow" if shadow else None, inp, json.dumps(g)[:300]))
        return fails
    if "sdl_target" in r:
        t = r["sdl_target"]
        if r.get("looks_like_python"):
            fails.append(Failure("wrong-target-format", None, inp, "a .graphql/.gql target received Python text"))
        if t["src_printable"] and not t["text_equal"]:
            fails.append(Failure("sdl-file-differs", None, inp, "file text != print_schema(source)"))
        if "parse_error" in t and t.get("law_holds"):
            fails.append(Failure("sdl-file-unparsable", None, inp, t["parse_error"]))
        c = t.get("compare")
        if c is not None and t.get("law_holds") and not (c["sdl_equal"] and c["structure_equal"]):
            fails.append(Failure("sdl-file-parses-to-different-schema", None, inp, c.get("structure_diff", c.get("sdl_diff", ""))[:300]))
        return fails
    if "unrecognised" not in r.get("file_ir", {}) and not str(r.get("file", "")):
        pass
    e = r["exec"]
    if e["status"] != "ok":
        fails.append(Failure("module-" + e["status"], "trigShadow" if shadow else None, inp, json.dumps({k: v for k, v in e.items() if k != "schema"})[:300]))
        return fails
    if e["sdl_equal"] and e["structure_equal"] and e["type_map_order_equal"] and e["directive_order_equal"]:
        return fails
    detail = (e.get("structure_diff") or "") + " | " + (e.get("sdl_diff") or "")
    if shadow:
        fails.append(Failure("schema-differs", "trigShadow", inp, detail[:400]))
    elif has_one_of(case["sdl"]) and e.get("structure_equal_modulo_oneof") and e.get("sdl_equal_modulo_oneof", True) \
            and e["type_map_order_equal"] and e["directive_order_equal"]:
        fails.append(Failure("is-one-of-lost", "trigOneOf", inp, detail[:400]))
    else:
        sig = "schema-differs" if not e["structure_equal"] else ("sdl-differs" if not e["sdl_equal"] else "order-differs")
        fails.append(Failure(sig, None, inp, detail[:400]))
    return fails


def text_tie(res: Result, inp: Any, what: Tuple[str, Any, Any], o: Dict[str, Any]) -> None:
    """Model/PyRepr.lean `pyRepr` == the text ast.unparse wrote for a constant of the real module AST;
    Spec/PyLiteral.lean `readCExpr` == what CPython makes of the text of a constant position of the real file"""
    kind, a, b = what
    res.evaluations += 1
    if kind == "repr":
        pv, text = a, b
        if not c16_ir.finite(pv):
            res.count("repr:non-finite(outside the claim)")
            if o.get("finite"):
                res.mismatches.append(Mismatch("finitePV", {"const": pv}, "non-finite", "finitePV = true"))
            return
        if o.get("text") != text or not o.get("finite"):
            res.mismatches.append(Mismatch("repr:ast.unparse(Constant)", dict(inp, const=pv), text[:300], json.dumps(o)[:300]))
        else:
            res.count("repr:agree")
    else:
        seg, want = a, b
        got = o.get("ok")
        if got is None:
            res.count("read:unmodelled")
            res.mismatches.append(Mismatch("read:literal text (outside the modelled sub-language)", dict(inp, text=seg[:300]), want, "none"))
        elif c16_ir.canon_cexpr(got) != c16_ir.canon_cexpr(want):
            res.mismatches.append(Mismatch("read:literal text", dict(inp, text=seg[:300]), want, got))
        else:
            res.count("read:agree")


def _imports_diff(a: List[Dict[str, Any]], b: List[Dict[str, Any]]) -> str:
    x = {(i["module"], n) for i in a for n in i["names"]}
    y = {(i["module"], n) for i in b for n in i["names"]}
    return "only in the file: %r; only in the model: %r" % (sorted(x - y), sorted(y - x))


def body_of(m: Dict[str, Any]) -> Dict[str, Any]:
    return {k: v for k, v in m.items() if k != "imports"}


def sort_types(ir: Dict[str, Any]) -> Dict[str, Any]:
    out = dict(ir)
    out["types"] = sorted(ir["types"], key=lambda t: t["name"])
    return out


def judge(ctx: Ctx, st: Optional[LeanStatus], cases: List[Dict[str, Any]], results: List[Tuple[str, Any]], res: Result) -> List[Dict[str, Any]]:
    """oracle on every case; correspondence when the driver is available. Returns the file IRs of clean cases."""
    use_model = st is not None and st.driver_ok
    lines: List[Dict[str, Any]] = []
    slots: List[Tuple[int, Any]] = []
    clean: List[Dict[str, Any]] = []
    seen_text: set = set()  # constants / literal texts already sent to the driver in this batch
    for i, (case, (status, r)) in enumerate(zip(cases, results)):
        inp = case_input(case)
        res.count("source:" + case["source"])
        res.count("via:" + case.get("via", "direct"))
        res.count("target:" + Path(case.get("file", "x.py")).suffix.lower())
        res.count("region:" + case.get("region", "none"))
        if case["tm"] == case["sv"]:
            res.count("names:coincide")
        elif case["tm"] in SHADOW_HARMLESS:
            res.count("names:tm-shadows-harmless-import")
        elif case["sv"] in SHADOW_SENSITIVE + SHADOW_HARMLESS:
            res.count("names:sv-shadows-import")
        for k in case.get("features", {}):
            res.count("feature:" + k)
        if status == "timeout":
            res.count("infra:timeout")
            continue
        if status == "exc":
            cls = r[0]
            if cls == "IntrospectionError":  # the stub server could not print a default value: no source, no claim
                res.count("source:remote-unavailable(unprintable default)")
                continue
            res.mismatches.append(Mismatch("observer", inp, "observer: %s: %s" % (cls, r[1][:200]), None))
            continue
        if "observer_error" in r:
            res.mismatches.append(Mismatch("observer", inp, "observer: " + r["observer_error"], None))
            continue
        if "source_unavailable" in r:
            res.count("source:unavailable(%s)" % r["source_unavailable"])
            continue
        fails = oracle(case, r)
        res.failures += fails
        src_ir = r.get("src_ir")
        nontrivial = src_ir is not None and len(src_ir["types"]) >= 3
        res.seen([case["sdl"], case["tm"], case["sv"], case["source"], case.get("file")], nontrivial)
        if src_ir is not None:
            res.count("size:types", len(src_ir["types"]))
        if "exec" in r and r["exec"].get("status") == "ok" and not r["exec"].get("src_printable", True):
            res.count("source:unprintable(structural comparison only)")
        if not use_model or src_ir is None or "sdl_target" in r or "file_ir" not in r:
            continue
        lines.append({"op": "gen", "schema": src_ir, "tm": case["tm"], "sv": case["sv"], **({"types_arg": r["types_arg"]} if "types_arg" in r else {})})
        slots.append((i, "gen"))
        if "unrecognised" not in r["file_ir"]:
            lines.append({"op": "eval", "module": r["file_ir"], "sv": case["sv"]})
            slots.append((i, "eval"))
        if not fails and "unrecognised" not in r["file_ir"] and len(clean) < 40:
            clean.append({"case": case, "file_ir": r["file_ir"], "src_ir": src_ir})
        for pv, text in r.get("constants", []):
            if ("repr", text) not in seen_text:
                seen_text.add(("repr", text))
                lines.append({"op": "repr", "v": pv})
                slots.append((i, ("repr", pv, text)))
        for seg, want in r.get("literals", []):
            if ("read", seg) not in seen_text:
                seen_text.add(("read", seg))
                lines.append({"op": "read", "text": seg})
                slots.append((i, ("read", seg, want)))
    if not lines:
        return clean
    outs = run_driver(lines)
    for (i, kind), o in zip(slots, outs):
        case, (_, r) = cases[i], results[i]
        inp = case_input(case)
        shadow = case["tm"] in SHADOW_SENSITIVE
        if isinstance(kind, tuple):
            text_tie(res, inp, kind, o)
            continue
        if kind == "gen":
            m = o["module"]
            if r.get("ast_ir") != m:
                res.mismatches.append(Mismatch("gen:generate_schema_module", inp, _first_diff(r.get("ast_ir"), m)[:300] if isinstance(r.get("ast_ir"), dict) and "unrecognised" not in r["ast_ir"] else r.get("ast_ir"), "model module"))
            f = r["file_ir"]
            if "unrecognised" in f:
                res.mismatches.append(Mismatch("gen:file", inp, f, "model module"))
            else:
                if body_of(f) != body_of(m):
                    res.mismatches.append(Mismatch("gen:file-body", inp, _first_diff(body_of(f), body_of(m))[:300], "model module"))
                if c16_ir.canon_imports(f["imports"]) != c16_ir.canon_imports(o["pruned"]):
                    res.mismatches.append(Mismatch("gen:file-imports", inp, _imports_diff(f["imports"], o["pruned"]), "model pruned imports",
                                                   trigger="trigShadow" if shadow else None))
            # predicates: Lean twins agree with the Python classifiers; sampled schemas are inside `wf`
            py_oneof = any(t["kind"] == "input" and t["oneOf"] for t in r["src_ir"]["types"])
            if o["trigOneOf"] != py_oneof or o["trigShadow"] != shadow:
                res.mismatches.append(Mismatch("trigger-predicates", inp, {"oneOf": py_oneof, "shadow": shadow},
                                               {"oneOf": o["trigOneOf"], "shadow": o["trigShadow"]}))
            if not o["wf"]:
                if c16_ir.schema_defaults_finite(r["src_ir"]):
                    res.mismatches.append(Mismatch("wf", inp, "valid schema (graphql-core validate_schema) with finite defaults", "wf = false"))
                else:
                    res.count("excluded:non-finite-default")
            else:
                res.count("inside-wf")
                expect = "ok-equal" if not (o["trigOneOf"] or o["trigShadow"]) else None
                if expect is not None and o["roundtrip"] != expect:
                    res.mismatches.append(Mismatch("theorem-instance schema_roundtrip", inp, "expected ok-equal", o["roundtrip"]))
                if o["trigOneOf"] and not o["trigShadow"] and o["roundtrip"] != "ok-differs":
                    res.mismatches.append(Mismatch("theorem-instance eval_gen (oneOf)", inp, "expected ok-differs", o["roundtrip"]))
                res.count("model-roundtrip:" + o["roundtrip"])
            # Spec/GqlCollect.lean (graphql-core's type collection) == the keys of the real type maps
            if "typeMapOrder" in o:
                model_src = o.get("typeMapOrderFrom") if "types_arg" in r else o["typeMapOrder"]
                if r.get("src_order") is not None and model_src != r["src_order"]:
                    res.mismatches.append(Mismatch("typeMapOrder(source schema)", inp, r["src_order"], model_src))
                else:
                    res.count("typeMapOrder:source-agrees")
                ex_ = r.get("exec", {})
                if ex_.get("status") == "ok" and ex_.get("structure_equal"):
                    if ex_.get("gen_order") != o["typeMapOrder"]:
                        res.mismatches.append(Mismatch("typeMapOrder(generated schema)", inp, ex_.get("gen_order"), o["typeMapOrder"]))
                    else:
                        res.count("typeMapOrder:generated-agrees")
            if o["final_sv"] != "Ariadne.PySchemaEval.Final.schema":
                res.mismatches.append(Mismatch("chosen_names_bound", inp, "schema", o["final_sv"]))
            if len(res.samples) < 3 and not shadow:
                res.sample({"input": {"tm": case["tm"], "sv": case["sv"], "source": case["source"], "sdl_head": case["sdl"][:160]},
                            "impl": "file body == model body, %d types" % len(r["src_ir"]["types"]), "model_roundtrip": o["roundtrip"]})
        else:
            e = r["exec"]
            trig = "trigShadow" if shadow else None
            if "ok" in o:
                if e.get("status") != "ok":
                    res.mismatches.append(Mismatch("eval", inp, {"err": e.get("exc")}, "ok", trigger=trig))
                elif o["ok"] != e["gen_ir"]:
                    res.mismatches.append(Mismatch("eval", inp, _first_diff(e["gen_ir"], o["ok"])[:300], "model value", trigger=trig))
                else:
                    res.count("eval:ok-agree")
            else:
                if o["err"] == "unmodelled":
                    res.count("eval:unmodelled")
                elif e.get("status") == "ok":
                    res.mismatches.append(Mismatch("eval", inp, "ok", o, trigger=trig))
                elif e.get("exc") != o["err"]:
                    res.mismatches.append(Mismatch("eval", inp, {"err": e.get("exc")}, o, trigger=trig))
                else:
                    res.count("eval:error-agree:" + o["err"])
    return clean


# --------------------------------------------------------------------------------------------
# validation of Spec/PySchemaEval.lean on perturbed modules
# --------------------------------------------------------------------------------------------


def _walk_texprs(m: Dict[str, Any]) -> List[Dict[str, Any]]:
    """every type-expression node holder {"type": TX} in field / argument positions"""
    out: List[Dict[str, Any]] = []

    def args(items: Any) -> None:
        for _, a in items or []:
            out.append(a)

    for _, t in m["typeMap"]:
        if t["t"] == "composite" and t["fields"] != "empty":
            for _, f in t["fields"]["thunk"]:
                out.append(f)
                args(f["args"])
        if t["t"] == "input" and t["fields"] != "empty":
            args(t["fields"]["thunk"])
    for d in m["schema"]["directives"]:
        args(d["args"])
    return out


def perturbations(m: Dict[str, Any], rng: random.Random) -> List[Tuple[str, Dict[str, Any]]]:
    import copy

    out: List[Tuple[str, Dict[str, Any]]] = []

    def variant(label: str, f: Any) -> None:
        c = copy.deepcopy(m)
        try:
            if f(c) is not False:
                out.append((label, c))
        except (IndexError, KeyError, StopIteration, TypeError):
            pass

    def drop_import(c: Dict[str, Any]) -> Any:
        names = [(i, n) for i in c["imports"] for n in i["names"]]
        i, n = rng.choice(names)
        i["names"].remove(n)

    def dangling_field_ref(c: Dict[str, Any]) -> Any:
        holders = [h for h in _walk_texprs(c) if "cast" in _innermost(h["type"])]
        _innermost(rng.choice(holders)["type"])["cast"][3] = "NoSuchType"

    def dangling_root(c: Dict[str, Any]) -> Any:
        c["schema"]["query"]["cast"][3] = "NoSuchType"

    def swap_wrapper(c: Dict[str, Any]) -> Any:
        holders = [h for h in _walk_texprs(c) if "call" in h["type"]]
        t = rng.choice(holders)["type"]
        t["call"] = "GraphQLList" if t["call"] == "GraphQLNonNull" else "GraphQLNonNull"

    def double_nonnull(c: Dict[str, Any]) -> Any:
        h = rng.choice(_walk_texprs(c))
        h["type"] = {"call": "GraphQLNonNull", "arg": {"call": "GraphQLNonNull", "arg": _strip_nonnull(h["type"])}}

    def description_int(c: Dict[str, Any]) -> Any:
        rng.choice(c["typeMap"])[1]["description"] = {"c": {"i": "5"}}

    def deprecation_bool(c: Dict[str, Any]) -> Any:
        rng.choice(_walk_texprs(c))["deprecation"] = {"c": {"b": True}}

    def bad_type_name(c: Dict[str, Any]) -> Any:
        rng.choice(c["typeMap"])[1]["name"] = {"c": {"s": rng.choice(["1abc", "", "a-b", "é"])}}

    def reserved_type_name(c: Dict[str, Any]) -> Any:
        rng.choice(c["typeMap"])[1]["name"] = {"c": {"s": rng.choice(["String", "__Type", "ID"])}}

    def duplicate_type_name(c: Dict[str, Any]) -> Any:
        if len(c["typeMap"]) < 2:
            return False
        a, b = rng.sample(c["typeMap"], 2)
        b[1]["name"] = a[1]["name"]

    def bogus_location(c: Dict[str, Any]) -> Any:
        rng.choice([d for d in c["schema"]["directives"] if d["locations"]])["locations"][0][1] = "NOWHERE"

    def repeatable_none(c: Dict[str, Any]) -> Any:
        rng.choice(c["schema"]["directives"])["repeatable"] = {"c": None}

    def wrong_arg_class(c: Dict[str, Any]) -> Any:
        hs = [h for h in _walk_texprs(c) if h["ctor"] in ("GraphQLArgument", "GraphQLInputField")]
        h = rng.choice(hs)
        h["ctor"] = "GraphQLInputField" if h["ctor"] == "GraphQLArgument" else "GraphQLArgument"

    def input_type_as_field_type(c: Dict[str, Any]) -> Any:
        inputs = [k for k, t in c["typeMap"] if t["t"] == "input"]
        fields = [h for h in _walk_texprs(c) if h["ctor"] == "GraphQLField"]
        rng.choice(fields)["type"] = {"cast": ["cast", "GraphQLInputObjectType", c["tmName"], rng.choice(inputs)]}

    def object_type_as_arg_type(c: Dict[str, Any]) -> Any:
        objs = [k for k, t in c["typeMap"] if t["t"] == "composite"]
        args_ = [h for h in _walk_texprs(c) if h["ctor"] == "GraphQLArgument"]
        rng.choice(args_)["type"] = {"cast": ["cast", "GraphQLObjectType", c["tmName"], rng.choice(objs)]}

    def object_as_interface_ctor(c: Dict[str, Any]) -> Any:
        ts = [t for _, t in c["typeMap"] if t["t"] == "composite"]
        t = rng.choice(ts)
        t["ctor"] = "GraphQLInterfaceType" if t["ctor"] == "GraphQLObjectType" else "GraphQLObjectType"

    def undefined_as_description(c: Dict[str, Any]) -> Any:
        rng.choice(_walk_texprs(c))["description"] = {"n": "Undefined"}

    def default_none_vs_undefined(c: Dict[str, Any]) -> Any:
        hs = [h for h in _walk_texprs(c) if "default" in h]
        h = rng.choice(hs)
        h["default"] = {"c": None} if "n" in h["default"] else {"n": "Undefined"}

    def ask_other_variable(c: Dict[str, Any]) -> Any:
        c["__ask"] = rng.choice([c["tmName"], "nothing_here", "cast"])

    def schema_ctor_wrong(c: Dict[str, Any]) -> Any:
        c["schema"]["ctor"] = rng.choice(["GraphQLDirective", "cast", c["tmName"]])

    def enum_value_name_bad(c: Dict[str, Any]) -> Any:
        es = [t for _, t in c["typeMap"] if t["t"] == "enum"]
        rng.choice(es)["values"][0][0] = rng.choice(["true", "null", "9x"])

    def field_name_bad(c: Dict[str, Any]) -> Any:
        ts = [t for _, t in c["typeMap"] if t["t"] == "composite" and t["fields"] != "empty"]
        rng.choice(ts)["fields"]["thunk"][0][0] = "bad-name"

    def interface_list_of_objects(c: Dict[str, Any]) -> Any:
        ts = [t for _, t in c["typeMap"] if t["t"] == "composite" and t["interfaces"] != "empty"]
        objs = [k for k, t in c["typeMap"] if t["t"] == "composite" and t["ctor"] == "GraphQLObjectType"]
        rng.choice(ts)["interfaces"]["keys"][0] = rng.choice(objs)

    def types_of_other_name(c: Dict[str, Any]) -> Any:
        c["schema"]["typesTm"] = rng.choice(["cast", "GraphQLSchema", "nothing_here"])

    for label, f in list(locals().items()):
        if callable(f) and label not in ("variant", "copy") and not label.startswith("_"):
            variant(label, f)
    return out


def _innermost(t: Dict[str, Any]) -> Dict[str, Any]:
    while "call" in t:
        t = t["arg"]
    return t


def _strip_nonnull(t: Dict[str, Any]) -> Dict[str, Any]:
    return t["arg"] if t.get("call") == "GraphQLNonNull" else t


def eval_validation(ctx: Ctx, st: Optional[LeanStatus], clean: List[Dict[str, Any]], budget: int, res: Result) -> None:
    if st is None or not st.driver_ok or not clean:
        return
    rng = ctx.sub_rng("perturb")
    todo: List[Tuple[str, Dict[str, Any], str]] = []
    for item in clean:
        for label, m in perturbations(item["file_ir"], rng):
            ask = m.pop("__ask", m["svName"])
            todo.append((label, m, ask))
    rng.shuffle(todo)
    # keep every perturbation kind represented
    by_label: Dict[str, List[Any]] = {}
    for t in todo:
        by_label.setdefault(t[0], []).append(t)
    picked: List[Any] = []
    while len(picked) < budget and any(by_label.values()):
        for label in sorted(by_label):
            if by_label[label] and len(picked) < budget:
                picked.append(by_label[label].pop())
    texts = [c16_ir.ir_to_py(m) for _, m, _ in picked]
    real = engine.pmap_forked(exec_text_case, [(t, ask, m["tmName"]) for t, (_, m, ask) in zip(texts, picked)], timeout=60)
    model = run_driver([{"op": "eval", "module": m, "sv": ask} for _, m, ask in picked])
    for (label, m, ask), text, (status, r), o in zip(picked, texts, real, model):
        res.count("perturbation:" + label)
        inp = {"perturbation": label, "module_text": text[:1500], "ask": ask}
        if status != "ok":
            res.count("infra:perturbation-" + status)
            continue
        res.evaluations += 1
        if "unserialisable" in r:
            res.count("perturbation-result-unserialisable")
            continue
        if "err" in o and o["err"] == "unmodelled":
            res.count("eval:unmodelled")
            continue
        if ("ok" in r) != ("ok" in o):
            res.mismatches.append(Mismatch("eval(perturbed)", inp, r if "err" in r else "ok", o if "err" in o else "ok"))
        elif "ok" in r:
            if sort_types(r["ok"]) != sort_types(o["ok"]):
                res.mismatches.append(Mismatch("eval(perturbed)", inp, _first_diff(sort_types(r["ok"]), sort_types(o["ok"]))[:300], "model value"))
            else:
                res.count("eval(perturbed):ok-agree")
        elif r["err"] != o["err"]:
            res.mismatches.append(Mismatch("eval(perturbed)", inp, r, o))
        else:
            res.count("eval(perturbed):error-agree:" + r["err"])


# --------------------------------------------------------------------------------------------
# target dispatch + identifier validation (settings part)
# --------------------------------------------------------------------------------------------

SUFFIXES = ["py", "PY", "Py", "graphql", "GRAPHQL", "gql", "Gql", "graphqls", "txt", "json", "pyc", "p y", "pу", "ｐｙ", "", "py ", "graphql.py",
            "py.gql", "py.txt", "K", "ру"]
STEMS = ["schema", "s", "", ".", "..", ".hidden", "a.b", "dir.py", "x y", "é", "-", "...", "a."]
DIRS = ["", "out/", "/abs/path/", "./", "../", "a.py/", "a//b/", "x/./"]


def observe_dispatch(path: str) -> Dict[str, Any]:
    from ariadne_codegen.exceptions import InvalidConfiguration
    from ariadne_codegen.settings import GraphQLSchemaSettings

    try:
        s = GraphQLSchemaSettings(schema_path=str(common.REPO / "pyproject.toml"), target_file_path=path)
    except InvalidConfiguration as e:
        msg = str(e)
        return {"err": "missing" if "missing a file type" in msg else ("invalid" if "invalid type" in msg else "other:" + msg[:60])}
    fmt = s.target_file_format
    # main.graphql_schema: `if settings.target_file_format == "py": python file  else: graphql file`
    return {"ok": "py" if fmt == "py" else "sdl", "format": fmt}


@engine.with_scratch
def observe_main_dispatch(root: Path, paths: List[str]) -> List[Dict[str, Any]]:
    """what `main.graphql_schema` DOES for a target path (forked child): which of the two generators it calls, and with which
    variable names.  The generators and the schema loader are replaced in `ariadne_codegen.main`'s name space; nothing is written."""
    from graphql import build_schema

    from ariadne_codegen import main as ac_main
    from ariadne_codegen.exceptions import InvalidConfiguration

    calls: List[Tuple[str, tuple, Dict[str, Any]]] = []
    ac_main.generate_graphql_schema_python_file = lambda *a, **kw: calls.append(("py", a, kw))  # type: ignore[assignment]
    ac_main.generate_graphql_schema_graphql_file = lambda *a, **kw: calls.append(("sdl", a, kw))  # type: ignore[assignment]
    tiny = build_schema("type Query { f: Int }")
    ac_main.get_graphql_schema_from_path = lambda *a, **kw: tiny  # type: ignore[assignment]
    sp = root / "in.graphql"
    sp.write_text("type Query { f: Int }\n", encoding="utf-8")
    work = root / "w" / "w"
    work.mkdir(parents=True)
    os.chdir(work)  # relative targets (and anything the code under test might create for them) stay inside the scratch dir
    out: List[Dict[str, Any]] = []
    for p in paths:
        calls.clear()
        cfg = {"schema_path": str(sp), "target_file_path": p, "schema_variable_name": "sv_x", "type_map_variable_name": "tm_x"}
        try:
            with contextlib.redirect_stdout(io.StringIO()):
                ac_main.graphql_schema({"tool": {"ariadne-codegen": cfg}})
        except InvalidConfiguration as e:
            msg = str(e)
            out.append({"err": "missing" if "missing a file type" in msg else ("invalid" if "invalid type" in msg else "other:" + msg[:60])})
            continue
        except Exception as e:  # noqa: BLE001
            out.append({"err": "raises:" + type(e).__name__})
            continue
        if len(calls) != 1:
            out.append({"err": "generator-calls:%d" % len(calls)})
            continue
        kind, a, kw = calls[0]
        vals = [str(x) for x in list(a) + list(kw.values()) if isinstance(x, str)]
        out.append({"ok": kind, "names_passed": kind == "sdl" or ("tm_x" in vals and "sv_x" in vals)})
    return out


def dispatch_check(ctx: Ctx, st: Optional[LeanStatus], res: Result) -> None:
    rng = ctx.sub_rng("dispatch")
    paths = [d + s + (("." + x) if x != "" or rng.random() < 0.5 else "") for d in DIRS for s in STEMS for x in SUFFIXES]
    paths += [s for s in ["", ".", "/", "a/", "a/.", "py", ".py", "x.py/", "x.py/."]]
    rng.shuffle(paths)
    paths = paths[: ctx.budget(700, len(paths))]
    try:
        obs = [observe_dispatch(p) for p in paths]
    except (AttributeError, ImportError, TypeError) as e:
        res.mismatches.append(Mismatch("dispatch", "*", "observer: %r" % e, None))
        return
    model = run_driver([{"op": "dispatch", "path": p} for p in paths]) if st is not None and st.driver_ok else [None] * len(paths)
    wants: List[Dict[str, Any]] = []
    for p, o, m in zip(paths, obs, model):
        res.evaluations += 1
        res.count("dispatch:" + (o.get("ok") or o.get("err")))
        # oracle: only the three documented suffixes are accepted, py selects the Python emitter
        name = [c for c in p.split("/") if c and c != "."]
        last = name[-1] if name else ""
        i = last.rfind(".")
        suffix = last[i:] if 0 < i < len(last) - 1 else ""
        want = {"err": "missing"} if not suffix else ({"ok": "py"} if suffix[1:].lower() == "py" else ({"ok": "sdl"} if suffix[1:].lower() in ("graphql", "gql") else {"err": "invalid"}))
        if {k: o[k] for k in want} != want:
            res.failures.append(Failure("target-dispatch", None, {"target_file_path": p}, "settings/main give %r, documented behaviour %r" % (o, want)))
        if m is not None and m != o:
            res.mismatches.append(Mismatch("dispatch", {"target_file_path": p}, o, m))
        wants.append(want)
    # the same for what main.graphql_schema really does with the accepted / rejected path (relative targets only)
    idx = [i for i, p in enumerate(paths) if not p.startswith("/")]
    status, got = engine.forked(observe_main_dispatch, [paths[i] for i in idx], timeout=600)
    if status != "ok":
        if status == "exc" and got[0] in ("AttributeError", "ImportError", "TypeError"):
            res.mismatches.append(Mismatch("dispatch(main)", "*", "observer: %s: %s" % (got[0], got[1][:200]), None))
        else:
            res.count("infra:dispatch-main-" + status)
        return
    for i, g in zip(idx, got):
        p, want, m = paths[i], wants[i], model[i]
        res.evaluations += 1
        res.count("dispatch(main):" + (g.get("ok") or g.get("err")))
        if {k: g.get(k) for k in want} != want:
            res.failures.append(Failure("target-dispatch", None, {"target_file_path": p, "via": "main"},
                                        "main.graphql_schema gives %r, documented behaviour %r" % (g, want)))
        elif "ok" in g and not g.get("names_passed"):
            res.failures.append(Failure("variable-names-not-passed", None, {"target_file_path": p, "via": "main"},
                                        "main.graphql_schema does not hand the configured variable names to the Python generator"))
        if m is not None and {k: m.get(k) for k in ("ok", "err") if k in m} != {k: g.get(k) for k in ("ok", "err") if k in g}:
            res.mismatches.append(Mismatch("dispatch(main)", {"target_file_path": p}, g, m))


def identifier_check(ctx: Ctx, res: Result) -> None:
    """settings accept exactly the Python identifiers that are not keywords as variable names (detail: C17)"""
    import keyword

    from ariadne_codegen.exceptions import InvalidConfiguration
    from ariadne_codegen.settings import GraphQLSchemaSettings

    names = PLAIN_NAMES + SHADOW_SENSITIVE[:4] + list(keyword.kwlist) + ["1a", "", "a b", "a-b", "a.b", "é", "naïve", "𝐱", "a\n", " a", "None", "__"]
    for n in names:
        for which in ("schema_variable_name", "type_map_variable_name"):
            try:
                GraphQLSchemaSettings(schema_path=str(common.REPO / "pyproject.toml"), target_file_path="s.py", **{which: n})
                accepted = True
            except InvalidConfiguration:
                accepted = False
            except (AttributeError, TypeError) as e:
                res.mismatches.append(Mismatch("identifier", n, "observer: %r" % e, None))
                return
            res.evaluations += 1
            want = n.isidentifier() and not keyword.iskeyword(n)
            res.count("identifier:" + ("accepted" if accepted else "rejected"))
            if accepted != want:
                res.failures.append(Failure("identifier-validation", None, {which: n}, "accepted=%s, is a usable identifier=%s" % (accepted, want)))


# --------------------------------------------------------------------------------------------
# the assumed law  eval(repr c) = c  (trusted base; sampled)
# --------------------------------------------------------------------------------------------


def rand_const(rng: random.Random, depth: int = 0) -> Any:
    r = rng.random()
    if depth < 3 and r < 0.15:
        return [rand_const(rng, depth + 1) for _ in range(rng.randint(0, 3))]
    if depth < 3 and r < 0.3:
        return {rng.choice(["a", "k", "é", "with space", "", "q\"uote", "'", "\\"]): rand_const(rng, depth + 1) for _ in range(rng.randint(0, 3))}
    if r < 0.4:
        return rng.choice([None, True, False])
    if r < 0.6:
        return rng.choice([0, 1, -1, 2**31, -(2**63), 2**63, 2**64 + 1, 10**40, -(10**25), rng.randint(-10**6, 10**6)])
    if r < 0.8:
        return rng.choice([0.0, -0.0, 1.5, 1e300, 1e-320, 5e-324, 1.7976931348623157e308, 1e16, 1e22, 1e23, 0.1, 2.5e-7, -123456789.12345679,
                           rng.random() * 10 ** rng.randint(-30, 30)])
    return rng.choice(c16_gen.STRINGS + ["", "퟿", "\U0010ffff", "a" * 300, "\\x41", "%s" % chr(rng.randint(0, 0x2fff))])


def same_const(a: Any, b: Any) -> bool:
    if type(a) is not type(b):
        return False
    if isinstance(a, float):
        import math

        return a == b and math.copysign(1, a) == math.copysign(1, b)
    if isinstance(a, list):
        return len(a) == len(b) and all(same_const(x, y) for x, y in zip(a, b))
    if isinstance(a, dict):
        return list(a) == list(b) and all(same_const(a[k], b[k]) for k in a)
    return a == b


def _black_value_text(text: str) -> Optional[str]:
    """`x = <literal>` through black: the text of the value afterwards"""
    from black import Mode, format_str

    out = format_str(text, mode=Mode())
    node = ast.parse(out).body[0].value  # type: ignore[attr-defined]
    return c16_ir._segment(out.encode("utf-8").split(b"\n"), node)


def repr_law_check(ctx: Ctx, st: Optional[LeanStatus], res: Result) -> None:
    """`C16.literal_roundtrip` is a theorem about Model/PyRepr.lean (printer) and Spec/PyLiteral.lean (reader); here both are
    held against CPython on random constants: printer == repr == ast.unparse(Constant), reader(text) == the constant for the
    repr text and for what black makes of it; and the law itself on the real interpreter (exec of both texts)"""
    rng = ctx.sub_rng("repr-law")
    n = ctx.budget(300, 3000)
    bad = 0
    consts = [rand_const(rng) for _ in range(n)]
    lines: List[Dict[str, Any]] = []
    for c in consts:
        text = ast.unparse(ast.fix_missing_locations(ast.Module(body=[ast.Assign(targets=[ast.Name(id="x", ctx=ast.Store())], value=ast.Constant(value=c))], type_ignores=[])))
        ns: Dict[str, Any] = {}
        ns2: Dict[str, Any] = {}
        blk = None
        try:
            exec(text, ns)
            blk = _black_value_text(text)
            exec("x = " + (blk or "?"), ns2)
            ok = same_const(ns["x"], c) and same_const(ns2["x"], c) and same_const(c16_ir.pyval_to_py(c16_ir.pyval(c)), c)
            ok = ok and text == "x = " + repr(c)
        except Exception:  # noqa: BLE001
            ok = False
        res.evaluations += 1
        if not ok:
            bad += 1
            res.mismatches.append(Mismatch("law eval(repr c) = c on the real interpreter (unparse, black)", {"const": repr(c)[:200]}, "differs", "identity"))
        pv = c16_ir.pyval(c)
        lines.append({"op": "repr", "v": pv, "_want": repr(c)})
        lines.append({"op": "read", "text": repr(c), "_want": {"c": pv}})
        if blk is not None and blk != repr(c):
            lines.append({"op": "read", "text": blk, "_want": {"c": pv}})
    # outside the sub-language / outside the claim: the reader must answer none, the printer's domain predicate false
    for text in ["'a' 'b'", "'''x'''", "u'x'", "b'x'", "'\\101'", "'\\N{DASH}'", "1_000", "0x10", "1E5", "(1, 2)", "{1, 2}", "1 + 2", "[1 2]", "[,]",
                 "{'a' 1}", "{1: 2}", "'unterminated", "[1, 2", "1j", "...", "- 1", "--1", "'a\\\nb'", "1.5.2", "1e", "01", "[inf]", "{'k': nan}"]:
        lines.append({"op": "read", "text": text, "_want": "none-or-python"})
    for pv in [{"f": "inf"}, {"f": "-inf"}, {"f": "nan"}, {"l": [{"f": "inf"}]}, {"d": [["k", {"f": "nan"}]]}]:
        lines.append({"op": "repr", "v": pv, "_want": "non-finite"})
    res.count("repr-law:samples", n)
    res.extra["repr_law_failures"] = bad
    if st is None or not st.driver_ok:
        return
    outs = run_driver([{k: v for k, v in l.items() if k != "_want"} for l in lines])
    for l, o in zip(lines, outs):
        res.evaluations += 1
        want = l["_want"]
        if l["op"] == "repr":
            if want == "non-finite":
                if o.get("finite"):
                    res.mismatches.append(Mismatch("finitePV", l["v"], "non-finite", o))
                continue
            if o.get("text") != want or not o.get("finite"):
                res.mismatches.append(Mismatch("repr:random constant", {"const": want[:300]}, want[:300], json.dumps(o)[:300]))
            else:
                res.count("repr-law:printer-agrees")
        elif want == "none-or-python":
            # the reader may only answer when CPython gives the same value
            if "ok" in o:
                try:
                    v = ast.literal_eval(l["text"])
                    same = "c" in o["ok"] and c16_ir.canon_pv(o["ok"]["c"]) == c16_ir.canon_pv(c16_ir.pyval(v)) and not isinstance(v, (tuple, set))
                except Exception:  # noqa: BLE001
                    same = "n" in o["ok"] and l["text"].isidentifier()
                if not same:
                    res.mismatches.append(Mismatch("read:outside the sub-language", {"text": l["text"]}, "not this value", o))
            else:
                res.count("repr-law:reader-declines")
        else:
            if "ok" not in o or c16_ir.canon_cexpr(o["ok"]) != c16_ir.canon_cexpr(want):
                res.mismatches.append(Mismatch("read:random constant", {"text": l["text"][:300]}, want, o))
            else:
                res.count("repr-law:reader-agrees")


# --------------------------------------------------------------------------------------------
# corpus, run, search, replay
# --------------------------------------------------------------------------------------------


def corpus_files() -> List[Path]:
    d = common.CORPUS / "C16"
    return sorted(d.glob("*.json")) if d.exists() else []


def corpus_replay(ctx: Ctx, st: Optional[LeanStatus], res: Result) -> None:
    files = corpus_files()
    items = [json.loads(f.read_text()) for f in files]
    cases = [dict(it["case"], region="corpus") for it in items]
    results = engine.pmap_forked(run_case, [(c,) for c in cases], timeout=180)
    findings = {f["id"]: f for f in common.load_findings(ctx.prop)}
    status: Dict[str, List[bool]] = {}
    for f, it, case, (stt, r) in zip(files, items, cases, results):
        res.count("corpus:replayed")
        if stt != "ok" or "observer_error" in r:
            res.mismatches.append(Mismatch("observer(corpus)", f.name, "observer: %r" % (r,), None))
            continue
        fails = oracle(case, r)
        fid = it.get("finding")
        if fid:
            want = it.get("expect", {})
            hit = [x for x in fails if x.signature == want.get("signature") and x.trigger == want.get("trigger")]
            status.setdefault(fid, []).append(bool(hit))
            fixed = findings.get(fid, {}).get("status") == "fixed"
            for x in fails:
                if fixed:
                    x.trigger = None  # a fixed finding suppresses nothing
                res.failures.append(x)
        else:
            res.failures += fails
            if it.get("expect_unprintable_source"):
                e = r.get("exec", {})
                if e.get("status") == "ok" and e.get("src_printable"):
                    ctx.notes.append("corpus %s: graphql-core now prints a source schema with a non-finite default" % f.name)
                res.count("corpus:non-finite-default source unprintable by graphql-core" if not e.get("src_printable", True) else "corpus:non-finite printable")
    for fid, hits in status.items():
        res.witness_status[fid] = "reproduces" if any(hits) else "gone"
    # the corpus also goes through the model (clean cases only matter for the tie)
    tie = Result()
    judge(ctx, st, [c for c, it in zip(cases, items) if not it.get("finding") and not it.get("expect_unprintable_source")],
          [r for r, it in zip(results, items) if not it.get("finding") and not it.get("expect_unprintable_source")], tie)
    res.mismatches += tie.mismatches  # (its oracle verdicts were taken above)
    res.evaluations += tie.evaluations


def shrink(ctx: Ctx, fail: Failure, max_attempts: int = 60) -> Failure:
    """structural shrinking: drop top-level definitions / use the default names while the failure keeps its signature"""
    import time

    inp = fail.input
    if not isinstance(inp, dict) or "sdl" not in inp:
        return fail
    t0 = time.time()
    best = dict(inp)
    best_fail = fail
    attempts = 0

    def still_fails(cand: Dict[str, Any]) -> Optional[Failure]:
        status, r = engine.forked(run_case, cand, timeout=120)
        if status != "ok" or "observer_error" in r or "source_unavailable" in r:
            return None
        hits = [f for f in oracle(cand, r) if f.signature == fail.signature and f.trigger == fail.trigger]
        return hits[0] if hits else None

    for key, simple in (("tm", "type_map"), ("sv", "schema"), ("source", "sdl"), ("via", "direct")):
        if best.get(key) != simple and attempts < max_attempts:
            cand = dict(best, **{key: simple})
            attempts += 1
            hit = still_fails(cand)
            if hit:
                best, best_fail = cand, hit
    progress = True
    while progress and attempts < max_attempts and time.time() - t0 < 90:
        progress = False
        blocks = best["sdl"].rstrip("\n").split("\n\n")
        for i in range(len(blocks)):
            if attempts >= max_attempts:
                break
            sdl = "\n\n".join(blocks[:i] + blocks[i + 1:]) + "\n"
            if not sdl.strip() or valid_sdl(sdl) is not None:
                continue
            attempts += 1
            cand = dict(best, sdl=sdl)
            hit = still_fails(cand)
            if hit:
                best, best_fail, progress = cand, hit, True
                break
    best_fail.input = best
    return best_fail


def shrink_unknown(ctx: Ctx, res: Result) -> None:
    known = {(f.get("trigger"), s) for f in common.load_findings(ctx.prop) if f.get("status") == "open"
             for s in (f["signature"] if isinstance(f["signature"], list) else [f["signature"]])}
    seen: set = set()
    out: List[Failure] = []
    for f in res.failures:
        if (f.trigger, f.signature) in known and f.trigger is not None:
            out.append(f)
            continue
        if f.key() in seen:
            continue  # conclude reports one replay per (trigger, signature)
        seen.add(f.key())
        out.append(shrink(ctx, f))
    res.failures = out


def run(ctx: Ctx, st: Optional[LeanStatus]) -> Result:
    res = Result()
    res.rule = ("seeded type-directed schemas (harness/c16_gen.py; graphql-core validate_schema filters) x source kind (SDL via "
                "main.graphql_schema, full introspection, remote path with stubbed httpx.post) x variable names x target suffix; "
                "a case is non-trivial when the source has >= 3 user types; distinct = distinct (SDL, names, source, target)")
    res.extra["fingerprints"] = common.fingerprints(ctx, fingerprint_items())
    corpus_replay(ctx, st, res)
    cases, stats = make_cases(ctx, ctx.budget(56, 560), ctx.budget(12, 100), ctx.budget(10, 80))
    for k, v in stats.items():
        res.count(k, v)
    results = engine.pmap_forked(run_case, [(c,) for c in cases], timeout=240)
    clean = judge(ctx, st, cases, results, res)
    ctx.log(f"{len(cases)} generated cases judged: {len(res.failures)} oracle failures, {len(res.mismatches)} mismatches")
    eval_validation(ctx, st, clean[: ctx.budget(6, 30)], ctx.budget(100, 900), res)
    dispatch_check(ctx, st, res)
    identifier_check(ctx, res)
    repr_law_check(ctx, st, res)
    shrink_unknown(ctx, res)
    res.oracle_only += [
        "that the emitted text is valid, importable Python after autoflake/isort/black (exec of the real file)",
        "type_map order: the oracle compares the real objects; theorem type_map_order is about Spec/GqlCollect.lean (graphql-core's type collection, modelled and compared with list(schema.type_map) of source and generated schema on every case)",
        ".graphql/.gql target: parse(print S) = S is graphql-core's law; checked on the real file, not modelled",
        "identifier validation of the two variable names (settings; detail belongs to C17)",
    ]
    res.assumptions += [
        "Model/PyRepr.lean is CPython's repr / ast.unparse(Constant) and Spec/PyLiteral.lean CPython's reading of literal text, for None/bool/int/finite float/str/list/dict (theorem literal_roundtrip between the two; both compared with the real interpreter on every constant of every emitted module and on random constants, every run)",
        "black keeps every literal's value (the reader is run on black's output of every written file and agrees with CPython there)",
        "autoflake removes exactly the unused imports; isort/black preserve the AST (compared on every emitted file)",
        "Spec/PySchemaEval.lean describes CPython 3.12 + graphql-core %s for modules of the emitted shape (validated on real and perturbed modules every run)" % _gql_version(),
        "non-finite float defaults are outside the claim (graphql-core cannot print such a source schema; corpus case)",
    ]
    return res


def _gql_version() -> str:
    try:
        import graphql

        return graphql.version
    except Exception:  # noqa: BLE001
        return "?"


def search(ctx: Ctx) -> Result:
    """after a broken proof / correspondence: judge the real code alone with a large budget"""
    res = Result()
    cases, _ = make_cases(ctx, 420, 60, 0, label="search")
    for c in cases:  # the search looks for failures OUTSIDE the known regions
        if c["tm"] in SHADOW_SENSITIVE:
            c["tm"] = "type_map"
    results = engine.pmap_forked(run_case, [(c,) for c in cases], timeout=240)
    judge(ctx, None, cases, results, res)
    dispatch_check(ctx, None, res)
    identifier_check(ctx, res)
    res.mismatches = []  # the search reports property failures only
    shrink_unknown(ctx, res)
    return res


def replay(ctx: Ctx, payload: Dict[str, Any]) -> int:
    inp = payload.get("input")
    if not isinstance(inp, dict):
        print(json.dumps(payload, indent=1)[:3000])
        return 1
    if "target_file_path" in inp:
        o = observe_dispatch(inp["target_file_path"])
        print("settings dispatch for %r -> %r" % (inp["target_file_path"], o))
        if inp.get("via") == "main":
            print("main.graphql_schema for %r -> %r" % (inp["target_file_path"], engine.forked(observe_main_dispatch, [inp["target_file_path"]], timeout=120)))
        return 1
    if "sdl" not in inp:
        print(json.dumps(inp)[:2000])
        return 1
    status, r = engine.forked(run_case, inp, timeout=240)
    if status != "ok":
        print(status, r)
        return 2
    fails = oracle(inp, r)
    for f in fails:
        print("FAIL %s trigger=%s: %s" % (f.signature, f.trigger, f.detail[:600]))
    if not fails:
        print("ok: the generated module reproduces the schema for this input")
    return 1 if fails else 0
