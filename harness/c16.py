"""C16 — the graphqlschema strategy reproduces the schema.

Tie (DESIGN.md §3 C16):
  * correspondence `gen`   Lean `SchemaGen.gen S tm sv` (driver op "gen")  ==  the constructor IR of the module the REAL
                           generator emits for the same schema: (a) `generate_schema_module(...)` itself, (b) the file
                           written by `generate_graphql_schema_python_file` / `main.graphql_schema` (after autoflake,
                           isort, black) whose import lists must equal the model's pruned imports;
  * correspondence `eval`  Lean `PySchemaEval.evalSchemaModule` (driver op "eval") on the IR of a module text  ==  what
                           CPython + graphql-core make of that text (`exec` in a forked child: serialised schema or
                           exception class), on the really emitted files and on perturbed variants of them;
  * correspondence `dispatch`  Lean `SchemaGen.dispatch`  ==  `GraphQLSchemaSettings(target_file_path=…)` accepting /
                           rejecting + `target_file_format`;
  * the trigger predicates (Lean `trigOneOf`, `trigShadow`, `wf`) agree with their Python twins;
  * oracle (independent of the model): exec the really generated file, take the configured schema variable, compare
    `print_schema` AND a structural walk with the source; `.graphql/.gql` target: file text == print_schema(source) and
    `build_schema(text)` equals the source; sources: SDL (`main.graphql_schema` end to end), full introspection, and the
    remote path (`get_graphql_schema_from_url` with a stubbed `httpx.post`).
"""
from __future__ import annotations

import ast
import contextlib
import io
import json
import os
import random
from pathlib import Path
from typing import Any, Dict, List, Optional, Tuple

from . import c16_gen, c16_ir, common, engine
from .common import Ctx, Failure, LeanStatus, Mismatch, Result

REL = "ariadne_codegen/graphql_schema_generators/"

# Python twin of Lean `SchemaWF.shadowSensitive` (agreement is checked through the driver on every case)
SHADOW_SENSITIVE = ["DirectiveLocation", "GraphQLArgument", "GraphQLDirective", "GraphQLField", "GraphQLInputField",
                    "GraphQLInterfaceType", "GraphQLList", "GraphQLNonNull", "GraphQLObjectType", "GraphQLSchema", "GraphQLID",
                    "GraphQLInt", "GraphQLFloat", "GraphQLString", "GraphQLBoolean", "Undefined", "cast", "List"]
# imported names that the module only needs before the type-map variable is bound (or merely needs to be bound)
SHADOW_HARMLESS = ["GraphQLScalarType", "GraphQLEnumType", "GraphQLUnionType", "GraphQLInputObjectType", "GraphQLEnumValue",
                   "GraphQLNamedType", "TypeMap"]
PLAIN_NAMES = ["type_map", "schema", "tm", "sv", "_", "__", "match", "case", "type", "é", "TYPES", "my_schema_2", "print", "dict",
               "__name__", "self", "lambda_", "graphql", "typing"]


def fingerprint_items() -> List[Tuple[str, Optional[str]]]:
    items: List[Tuple[str, Optional[str]]] = []
    for f, quals in {
        "schema.py": ["generate_graphql_schema_graphql_file", "generate_graphql_schema_python_file", "generate_schema_module",
                      "generate_type_map", "generate_schema"],
        "named_types.py": ["generate_named_type", "generate_scalar_type", "generate_object_type", "generate_interface_type",
                           "generate_union_type", "generate_enum_type", "generate_input_object_type"],
        "fields.py": ["generate_field_map", "generate_field", "generate_field_type", "generate_args", "generate_arg",
                      "generate_enum_values", "generate_enum_value", "generate_input_field_map", "generate_input_field"],
        "directives.py": ["generate_directive", "generate_directive_locations", "generate_directive_location"],
        "utils.py": ["get_named_type", "get_optional_named_type", "get_list_of_named_types"],
        "constants.py": [None],
    }.items():
        for q in quals:
            items.append((REL + f, q))
    items += [("ariadne_codegen/main.py", "graphql_schema"), ("ariadne_codegen/settings.py", "GraphQLSchemaSettings"),
              ("ariadne_codegen/settings.py", "assert_string_is_valid_schema_target_filename"),
              ("ariadne_codegen/utils.py", "ast_to_str"), ("ariadne_codegen/codegen.py", "generate_constant")]
    return items


# --------------------------------------------------------------------------------------------
# child side: one case against the REAL code
# --------------------------------------------------------------------------------------------


def _load_source(sdl: str, source: str) -> Any:
    """the schema object the generator is given, per source kind (mirrors ariadne_codegen.schema)"""
    from graphql import build_ast_schema, build_client_schema, introspection_from_schema, parse

    local = build_ast_schema(parse(sdl), assume_valid=True)  # == get_graphql_schema_from_path
    if source == "sdl":
        return local
    if source == "introspection-full":
        return build_client_schema(introspection_from_schema(local), assume_valid=True)
    raise ValueError(source)


def _stub_post(sdl: str) -> Any:
    """httpx.post replacement: answer the introspection query the real code sends with graphql-core"""
    import httpx
    from graphql import build_schema, graphql_sync

    served = build_schema(sdl)

    def post(url: str, json: Any = None, **kw: Any) -> Any:  # noqa: A002
        res = graphql_sync(served, json["query"])
        body: Dict[str, Any] = {"data": res.data}
        if res.errors:
            body["errors"] = [e.formatted for e in res.errors]
        return httpx.Response(200, json=body, request=httpx.Request("POST", url))

    return post


def _exec_text(text: str, sv: str, tm: str) -> Dict[str, Any]:
    """exec a module text in a fresh name space; serialise what the schema variable holds"""
    from graphql import GraphQLSchema

    ns: Dict[str, Any] = {"__name__": "generated_schema"}
    try:
        exec(compile(text, "generated_schema.py", "exec"), ns)
    except BaseException as e:  # noqa: BLE001
        return {"status": "raises", "exc": type(e).__name__, "msg": str(e)[:300]}
    val = ns.get(sv, None) if sv in ns else None
    if sv not in ns:
        return {"status": "no-variable", "exc": "KeyError"}
    if not isinstance(val, GraphQLSchema):
        return {"status": "not-a-schema", "exc": "TypeError", "type": type(val).__name__}
    out: Dict[str, Any] = {"status": "ok", "schema": val, "tm_type": type(ns.get(tm)).__name__ if tm in ns else None}
    return out


def _print(schema: Any) -> Tuple[Optional[str], Optional[str]]:
    from graphql import print_schema

    try:
        return print_schema(schema), None
    except Exception as e:  # noqa: BLE001  (e.g. a custom-scalar default that is a list/dict cannot be printed)
        return None, type(e).__name__


def _compare_schemas(src: Any, gen: Any) -> Dict[str, Any]:
    """the oracle's judgement on two schema objects (independent of the Lean model)"""
    out: Dict[str, Any] = {}
    a, ea = _print(src)
    b, eb = _print(gen)
    out["src_printable"] = a is not None
    out["sdl_equal"] = (a == b) if a is not None else (eb == ea)
    if a is not None and b is not None and a != b:
        import difflib

        out["sdl_diff"] = "\n".join(list(difflib.unified_diff(a.splitlines(), b.splitlines(), lineterm="", n=0))[:12])
        out["sdl_equal_modulo_oneof"] = a.replace(" @oneOf", "") == b
    try:
        sa, sb = c16_ir.schema_to_ir(src), c16_ir.schema_to_ir(gen)
    except c16_ir.Unrecognised as e:
        out["structure_equal"] = False
        out["structure_diff"] = "unserialisable: %s" % e
        return out
    out["structure_equal"] = sa == sb
    if sa != sb:
        out["structure_diff"] = _first_diff(sa, sb)
        sa2 = json.loads(json.dumps(sa))
        for t in sa2["types"]:
            if t["kind"] == "input":
                t["oneOf"] = False
        out["structure_equal_modulo_oneof"] = sa2 == sb
    out["type_map_order_equal"] = list(src.type_map) == list(gen.type_map)
    out["directive_order_equal"] = [d.name for d in src.directives] == [d.name for d in gen.directives]
    out["gen_ir"] = sb
    return out


def _first_diff(a: Any, b: Any, path: str = "") -> str:
    if type(a) is not type(b):
        return "%s: %r vs %r" % (path, a, b)
    if isinstance(a, dict):
        for k in a:
            if k not in b:
                return "%s.%s missing" % (path, k)
            if a[k] != b[k]:
                return _first_diff(a[k], b[k], path + "." + str(k))
        return "%s: extra keys %r" % (path, [k for k in b if k not in a])
    if isinstance(a, list):
        if len(a) != len(b):
            return "%s: length %d vs %d" % (path, len(a), len(b))
        for i, (x, y) in enumerate(zip(a, b)):
            if x != y:
                return _first_diff(x, y, "%s[%d]" % (path, i))
    return "%s: %r vs %r" % (path, a, b)


@engine.with_scratch
def run_case(root: Path, case: Dict[str, Any]) -> Dict[str, Any]:
    """case = {"sdl", "source": sdl|introspection-full|remote, "tm", "sv", "via": direct|main, "file": name}"""
    from graphql import build_schema, print_schema

    sdl, source, tm, sv = case["sdl"], case["source"], case["tm"], case["sv"]
    fname = case.get("file", "schema_out.py")
    target = root / fname
    out: Dict[str, Any] = {}
    is_py = Path(fname).suffix[1:].lower() == "py"
    # the source schema
    try:
        if source == "remote":
            import httpx

            from ariadne_codegen import schema as ac_schema

            httpx.post = _stub_post(sdl)  # forked child: the patch dies with the process
            src = ac_schema.get_graphql_schema_from_url("http://verif.test/graphql")
        else:
            src = _load_source(sdl, source)
        out["src_ir"] = c16_ir.schema_to_ir(src)
    except (AttributeError, ImportError, TypeError) as e:
        return {"observer_error": "source: %r" % e}
    # (a) the module AST as generate_schema_module returns it
    try:
        from ariadne_codegen.graphql_schema_generators.schema import (generate_graphql_schema_graphql_file,
                                                                      generate_graphql_schema_python_file, generate_schema_module)
    except (AttributeError, ImportError) as e:
        return {"observer_error": "import: %r" % e}
    if is_py:
        try:
            mod = generate_schema_module(src, type_map_name=tm, schema_variable_name=sv)
            out["ast_ir"] = c16_ir.text_to_ir(ast.unparse(ast.fix_missing_locations(mod)))
        except (AttributeError, TypeError) as e:
            out["ast_ir"] = {"unrecognised": "observer: %r" % e}
        except Exception as e:  # noqa: BLE001
            out["ast_ir"] = {"unrecognised": "generator raised %s" % type(e).__name__}
    # (b) the written file
    try:
        if case.get("via") == "main":
            from ariadne_codegen import main as ac_main

            cfg: Dict[str, Any] = {"target_file_path": str(target), "schema_variable_name": sv, "type_map_variable_name": tm}
            if source == "remote":
                cfg["remote_schema_url"] = "http://verif.test/graphql"
            else:
                sp = root / "in_schema.graphql"
                sp.write_text(sdl, encoding="utf-8")
                cfg["schema_path"] = str(sp)
            with contextlib.redirect_stdout(io.StringIO()):
                ac_main.graphql_schema({"tool": {"ariadne-codegen": cfg}})
        elif is_py:
            generate_graphql_schema_python_file(src, str(target), tm, sv)
        else:
            generate_graphql_schema_graphql_file(src, str(target))
    except Exception as e:  # noqa: BLE001
        out["generation"] = {"status": "raises", "exc": type(e).__name__, "msg": str(e)[:300]}
        return out
    if not target.exists():
        out["generation"] = {"status": "no-file"}
        return out
    raw = target.read_bytes()
    try:
        text = raw.decode("utf-8")
    except UnicodeDecodeError as e:
        out["generation"] = {"status": "not-utf8", "msg": str(e)}
        return out
    out["generation"] = {"status": "ok", "bytes": len(raw)}
    if not is_py:
        want, _ = _print(src)
        out["sdl_target"] = {"text_equal": text == want, "src_printable": want is not None}
        try:
            back = build_schema(text, assume_valid=True)
            out["sdl_target"]["compare"] = {k: v for k, v in _compare_schemas(src, back).items() if k != "gen_ir"}
            law = build_schema(want, assume_valid=True) if want is not None else None
            out["sdl_target"]["law_holds"] = law is not None and c16_ir.schema_to_ir(law) == out["src_ir"]
        except Exception as e:  # noqa: BLE001
            out["sdl_target"]["parse_error"] = "%s: %s" % (type(e).__name__, str(e)[:200])
        out["looks_like_python"] = text.lstrip().startswith("from ")
        return out
    out["file_ir"] = c16_ir.text_to_ir(text)
    ex = _exec_text(text, sv, tm)
    if ex["status"] == "ok":
        cmp_ = _compare_schemas(src, ex["schema"])
        out["exec"] = {"status": "ok", "tm_type": ex["tm_type"], **cmp_}
    else:
        out["exec"] = ex
    return out


@engine.with_scratch
def exec_text_case(root: Path, text: str, sv: str, tm: str) -> Dict[str, Any]:
    """eval-validation: what CPython + graphql-core make of a module text"""
    ex = _exec_text(text, sv, tm)
    if ex["status"] == "ok":
        try:
            return {"ok": c16_ir.schema_to_ir(ex["schema"])}
        except c16_ir.Unrecognised as e:
            return {"unserialisable": str(e)}
    return {"err": ex["exc"]}
