"""./check entry point (DESIGN.md §1.4)."""
from __future__ import annotations

import argparse
import importlib
import json
import os
import sys
import traceback
from pathlib import Path

from . import common
from .common import Ctx, Infra

sys.path.insert(0, str(common.REPO))  # the working tree under test wins over any installed copy
os.environ.setdefault(common.GUARD, "1")  # hooks (if any) are enabled for the checks


def manifest_props() -> list:
    m = json.loads((common.VERIF / "MANIFEST.json").read_text())
    return [c["property_id"] for c in m["checks"]]


def setup() -> int:
    """MANIFEST.setup_cmd: build every registered property module and driver from files on disk."""
    from . import tables

    tables.regenerate()
    rc = 0
    props = manifest_props()
    # one lake invocation for everything first: lake schedules the modules of all properties over all
    # cores (the per-property calls below then only confirm, and report per property what is broken)
    targets = [common.prop_module(p) for p in props] + [common.driver_name(p) for p in props if common.has_driver(p)]
    common.build_shared()
    common._lake(["build", *targets], lock="global")
    for prop in props:
        common.build_shared()
        code, log = common._lake(["build", common.prop_module(prop)], lock=prop)
        if code != 0:
            print(f"setup: {prop}: theorem module does not build\n{log[-2000:]}")
            rc = 2
        if common.has_driver(prop):
            code, log = common._lake(["build", common.driver_name(prop)], lock=prop)
            if code != 0:
                print(f"setup: {prop}: driver does not build\n{log[-2000:]}")
                rc = 2
    print("setup done" if rc == 0 else "setup FAILED")
    return rc


def main() -> int:
    ap = argparse.ArgumentParser()
    ap.add_argument("prop", nargs="?")
    ap.add_argument("--tier", default=os.environ.get("VERIF_TIER", "quick"), choices=["quick", "thorough"])
    ap.add_argument("--replay")
    ap.add_argument("--setup", action="store_true")
    args = ap.parse_args()
    if args.setup:
        return setup()
    if not args.prop:
        ap.error("property id required")
    prop = args.prop.upper()
    try:
        seed = int(os.environ.get("VERIF_SEED", "0"))
    except ValueError:
        seed = 0
    ctx = Ctx(prop=prop, tier=args.tier, seed=seed)
    try:
        mod = importlib.import_module(f"harness.{prop.lower()}")
    except ModuleNotFoundError as e:
        print(f"no check for {prop}: {e}")
        return 2
    try:
        if args.replay:
            payload = json.loads(Path(args.replay).read_text())
            return mod.replay(ctx, payload)
        from . import tables

        tstat = tables.regenerate()
        ctx.log(f"tables regenerated from {common.REPO} ({tstat})")
        st = common.lean_check(ctx)
        ctx.log(
            f"lean: build_ok={st.build_ok} driver_ok={st.driver_ok} theorems={len(st.theorems)} audit_problems={len(st.audit_problems)}"
        )
        if ctx.tier == "thorough" and st.build_ok:
            problem = common.leanchecker(ctx, st)
            if problem and "unavailable" not in problem:
                st.audit_problems.append(problem)
            elif problem:
                ctx.log(problem)
        res = mod.run(ctx, st)
        return common.conclude(ctx, st, res, getattr(mod, "search", None))
    except Infra as e:
        print(f"INFRA {prop}: {e}")
        return 2
    except Exception:
        traceback.print_exc()
        print(f"INFRA {prop}: harness crashed (reported as infrastructure failure, not as a violation)")
        return 2


if __name__ == "__main__":
    sys.exit(main())
