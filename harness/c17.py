"""C17 — invalid input is rejected up front, with a typed error and no side effects.

Tie (DESIGN.md §3 C17):
  * settings: model `Ariadne.Settings.getClientSettings/getSchemaSettings` (ordered checks over a file-system /
    environment oracle) vs the real `config.get_client_settings/get_graphql_schema_settings` on configuration dicts
    over a real scratch file system: every single-constraint violation x every valid base configuration, pairs of
    violations (which check fires first), unknown keys, deprecated section, boolean include_comments, random mixes,
    EVERY TOML KIND of value (bool / int / float / str / list / table; True is not 1 is not 1.0 on the wire: `tv_enc`) at
    every option, every path option x {file, directory, missing, empty} x the flags that change which checks run;
    compared: accepted settings / exception class + message, deprecation warnings, purity of the caller's dict.
  * sources: model `Ariadne.SourceLoad` (file or directory tree, sorted walk, suffix filter, per-file parse, concatenation;
    graphql-core's parse as the table of its own verdicts) vs the real `schema.load_graphql_files_from_path` + `parse` on
    directories whose files are individually invalid but jointly valid (valid documents split at every token boundary).
  * config file / plugins: `config.get_config_file_path` on real directory chains, `explorer.get_plugins_types` per string.
  * pipeline: model `Ariadne.Pipeline.client/graphqlSchema` (phase order + effect log, graphql-core as oracle) vs the
    real `main.client/main.graphql_schema` in forked children on scratch directories: phase at which the run fails,
    exception class/message, files written (directory snapshot before/after), for invalid schemas (one per graphql-core
    schema rule), invalid operations (one per specified rule), syntax errors, ariadne-codegen's own refusals, plugin
    lookup failures, pairs of faults, with and without a pre-existing target directory.
  * oracle: the property stated directly on the real run: an invalid input must raise the corresponding
    CodeGenException subclass, its message must mention the offending value, and the target tree must be byte-identical.
"""
from __future__ import annotations

import contextlib
import copy
import hashlib
import io
import json
import os
import re
import shutil
import tempfile
import traceback
import warnings
from pathlib import Path
from typing import Any, Callable, Dict, List, Optional, Tuple

from . import common, engine, wire
from . import c17_data as D
from .common import Ctx, Failure, LeanStatus, Mismatch, Result

PATH_KEYS = ("schema_path", "queries_path", "target_package_path", "base_client_file_path")
ENVIRON = {"C17_TOKEN": "secret-token", "C17_EMPTY": ""}


def tv_enc(x: Any) -> Any:
    """TOML value -> wire form of `Ariadne.TV` (twin of `decTV` in Driver/C17.lean): the six kinds stay apart
    (True is not 1, 1 is not 1.0); a float travels as Python's repr."""
    if isinstance(x, bool):
        return {"b": x}
    if isinstance(x, int):
        return {"i": x}
    if isinstance(x, float):
        return {"f": repr(x)}
    if isinstance(x, str):
        return {"s": x}
    if isinstance(x, (list, tuple)):
        return {"l": [tv_enc(v) for v in x]}
    if isinstance(x, dict):
        return {"t": [[str(k), tv_enc(v)] for k, v in x.items()]}
    return {"s": "<outside the TOML domain: %s>" % type(x).__name__}


def tv_opt(x: Any) -> Any:
    return None if x is None else tv_enc(x)


def tv_dec(x: Any) -> Any:
    if "b" in x:
        return x["b"]
    if "i" in x:
        return x["i"]
    if "f" in x:
        return float(x["f"])
    if "s" in x:
        return x["s"]
    if "l" in x:
        return [tv_dec(v) for v in x["l"]]
    return {k: tv_dec(v) for k, v in x["t"]}

# (C17-F2 `fragmentsModuleNameUnchecked` was repaired by /repo 0686a80: no trigger any more, its old region is judged
#  like every other bad module name; its witnesses stay in corpus/C17 and are replayed on every run)
TRIGGERS = ["invalidSchemaAssumedValid", "schemaBuildTypeError",
            "fragmentGenErrorAfterWrites", "noGraphqlFiles", "baseClassSubstring", "illTypedOptionInternal", "joinedNotParsable"]


# --------------------------------------------------------------------------------------------
# the scratch world the settings are read against
# --------------------------------------------------------------------------------------------

CUSTOM_BASE = "class MyBaseClient:\n    def __init__(self, *a, **k):\n        pass\n\n\nclass Helper(MyBaseClient):\n    pass\n"


def build_world(root: Path) -> Dict[str, str]:
    (root / "schema.graphql").write_text(D.BASE_SCHEMA)
    (root / "schema_dir" / "sub").mkdir(parents=True)
    (root / "schema_dir" / "a.graphql").write_text("type Query { a: Int }\n")
    (root / "schema_dir" / "sub" / "b.gql").write_text("type B { b: Int }\n")
    (root / "queries.graphql").write_text(D.BASE_QUERIES)
    (root / "queries_dir").mkdir()
    (root / "queries_dir" / "q.graphql").write_text("query GetA { a }\n")
    (root / "out").mkdir()
    (root / "custom_base.py").write_text(CUSTOM_BASE)
    (root / "inc1.py").write_text("X = 1\n")
    (root / "inc2.py").write_text("Y = 2\n")
    r = str(root)
    return {"root": r, "schema_file": r + "/schema.graphql", "schema_dir": r + "/schema_dir", "queries_file": r + "/queries.graphql",
            "queries_dir": r + "/queries_dir", "out": r + "/out", "custom_base": r + "/custom_base.py", "inc1": r + "/inc1.py",
            "inc2": r + "/inc2.py", "missing": r + "/does/not/exist", "missing_rel": "nope.graphql"}


def default_paths() -> List[List[str]]:
    try:
        from ariadne_codegen.client_generators import constants as c

        return [["async", c.DEFAULT_ASYNC_BASE_CLIENT_PATH.as_posix()],
                ["asyncOT", c.DEFAULT_ASYNC_BASE_CLIENT_OPEN_TELEMETRY_PATH.as_posix()],
                ["sync", c.DEFAULT_BASE_CLIENT_PATH.as_posix()],
                ["syncOT", c.DEFAULT_BASE_CLIENT_OPEN_TELEMETRY_PATH.as_posix()]]
    except (ImportError, AttributeError):
        return []


def find_section(cfg: Dict[str, Any]) -> Dict[str, Any]:
    """only used to decide which path strings the file-system table has to cover"""
    out: Dict[str, Any] = {}
    for sec in (cfg.get("ariadne-codegen"), (cfg.get("tool") or {}).get("ariadne-codegen") if isinstance(cfg.get("tool"), dict) else None):
        if isinstance(sec, dict):
            for k, v in sec.items():
                out.setdefault(k, []).append(v)
    return out


def env_table(cfg: Dict[str, Any], extra_paths: Tuple[str, ...] = ()) -> Dict[str, Any]:
    """What the settings code can see of the outside world for this configuration (evaluated with the real pathlib on
    the real scratch tree; the current directory is the scratch root)."""
    sec = find_section(cfg)
    paths: List[str] = ["", Path.cwd().as_posix(), *extra_paths]
    text_for: List[str] = []
    for k in PATH_KEYS:
        for v in sec.get(k, []):
            if isinstance(v, str):
                paths.append(v)
                if k == "base_client_file_path":
                    text_for.append(v)
    for v in sec.get("files_to_include", []):
        if isinstance(v, (list, str, dict)):      # what Python iterates: items, CHARACTERS, keys
            paths += [x for x in v if isinstance(x, str)]
    for k in ("target_file_path",):
        paths += [v for v in sec.get(k, []) if isinstance(v, str)]
    defaults = default_paths()
    for _, p in defaults:
        paths.append(p)
        text_for.append(p)
    fs = []
    for p in dict.fromkeys(paths):
        pp = Path(p)
        text = None
        if p in text_for and pp.is_file():
            try:
                text = pp.read_text()
            except (OSError, UnicodeDecodeError):
                text = None
        fs.append([p, pp.exists(), pp.is_dir(), pp.is_file(), text])
    return {"fs": fs, "environ": [[k, v] for k, v in ENVIRON.items()], "cwd": Path.cwd().as_posix(), "defaults": defaults}


def set_environ() -> None:
    for k in list(os.environ):
        if k.startswith("C17_"):
            del os.environ[k]
    os.environ.update(ENVIRON)


# --------------------------------------------------------------------------------------------
# observing the real settings functions
# --------------------------------------------------------------------------------------------


def settings_obs(kind: str, cfg: Dict[str, Any]) -> Dict[str, Any]:
    import dataclasses

    before = copy.deepcopy(cfg)
    try:
        from ariadne_codegen import config as ac_config
        from ariadne_codegen.exceptions import CodeGenException

        fn = ac_config.get_client_settings if kind == "client" else ac_config.get_graphql_schema_settings
    except (ImportError, AttributeError) as e:
        return {"observer": repr(e)}
    obs: Dict[str, Any] = {}
    with warnings.catch_warnings(record=True) as caught:
        warnings.simplefilter("always")
        try:
            s = fn(cfg)
            d: Dict[str, Any] = {}
            for f in dataclasses.fields(s):
                v = getattr(s, f.name)
                if f.name == "include_comments":
                    v = tv_enc(getattr(v, "value", v))
                elif f.name == "scalars":
                    v = [{"graphql_name": x.graphql_name, "type_": tv_enc(x.type_), "serialize": tv_opt(x.serialize),
                          "parse": tv_opt(x.parse), "import_": tv_opt(x.import_)} for x in v.values()]
                else:
                    v = tv_enc(v)       # a dataclass does not check types: any option may hold any kind of value
                d[f.name] = v
            obs["result"] = {"ok": d}
        except BaseException as e:  # noqa: BLE001
            obs["result"] = {"err": {"cls": type(e).__name__, "msg": str(e), "typed": isinstance(e, CodeGenException)}}
    msgs = [str(w.message) for w in caught if issubclass(w.category, DeprecationWarning)]
    obs["deprecatedSection"] = any("section has been deprecated" in m for m in msgs)
    obs["deprecatedBoolComments"] = any("boolean 'include_comments'" in m for m in msgs)
    obs["pure"] = _deep_same(cfg, before)
    return obs


def _deep_same(a: Any, b: Any) -> bool:
    if type(a) is not type(b):
        return False
    if isinstance(a, dict):
        return list(a.keys()) == list(b.keys()) and all(_deep_same(a[k], b[k]) for k in a)
    if isinstance(a, list):
        return len(a) == len(b) and all(_deep_same(x, y) for x, y in zip(a, b))
    if isinstance(a, float) and a != a:
        return b != b       # nan
    return a == b and (not isinstance(a, float) or repr(a) == repr(b))    # 0.0 vs -0.0


def _key_sorted(x: Any) -> Any:
    if isinstance(x, dict):
        return {k: _key_sorted(x[k]) for k in sorted(x)}
    if isinstance(x, list):
        return [_key_sorted(v) for v in x]
    return x


MISSING_PREFIX = "Missing configuration fields: "


def norm_settings_result(res: Dict[str, Any], model: bool) -> Dict[str, Any]:
    """canonical form shared by model and implementation observations"""
    if "ok" in res:
        d = dict(res["ok"])
        d.pop("missing", None)
        return {"ok": d}
    e = res["err"]
    out = {"cls": e["cls"], "typed": e["typed"]}
    if model and e.get("missing") is not None:
        out["missing"] = sorted(e["missing"])
    elif not model and e["msg"].startswith(MISSING_PREFIX):
        out["missing"] = sorted(x for x in e["msg"][len(MISSING_PREFIX):].split(", ") if x)   # joined from a set
    elif e["typed"]:
        out["msg"] = e["msg"]
    # (the text of a bare AttributeError / KeyError / TypeError is CPython's, not ariadne-codegen's: class only)
    return {"err": out}


def _settings_batch(root: str, cases: List[Dict[str, Any]]) -> List[Tuple[Dict[str, Any], Dict[str, Any]]]:
    os.chdir(root)
    set_environ()
    out = []
    for c in cases:
        env = env_table(c["cfg"])
        line = {"op": "clientSettings" if c["kind"] == "client" else "schemaSettings", "env": env, "cfg": tv_enc(c["cfg"])}
        out.append((line, settings_obs(c["kind"], c["cfg"])))
    return out


# --------------------------------------------------------------------------------------------
# settings cases
# --------------------------------------------------------------------------------------------


def tool(sec: Dict[str, Any]) -> Dict[str, Any]:
    return {"tool": {"ariadne-codegen": sec}}


def in_old_f2_region(values: List[Any]) -> bool:
    """the input lies in the region of the REPAIRED finding C17-F2 (fragments_module_name unusable as a module name):
    only counted, to show that the generators exercise the region the theorem now covers"""
    import keyword

    return any(isinstance(n, str) and (not n.isidentifier() or keyword.iskeyword(n)) for n in values)


def client_bases(W: Dict[str, str]) -> List[Tuple[str, Dict[str, Any]]]:
    return [
        ("files", {"schema_path": W["schema_file"], "queries_path": W["queries_file"], "target_package_path": W["out"]}),
        ("remote+custom-ops", {"remote_schema_url": "http://verif.test/graphql", "enable_custom_operations": True,
                               "remote_schema_headers": {"Authorization": "$C17_TOKEN", "X-Plain": "plain"},
                               "target_package_path": W["out"], "remote_schema_verify_ssl": False}),
        ("dirs+custom-base", {"schema_path": W["schema_dir"], "queries_path": W["queries_dir"], "target_package_path": W["out"],
                              "base_client_name": "MyBaseClient", "base_client_file_path": W["custom_base"],
                              "files_to_include": [W["inc1"], W["inc2"]], "async_client": False,
                              "scalars": {"DT": {"type": "datetime.datetime", "parse": "mod.parse_dt"}, "ID2": {"type": "str"}},
                              "target_package_name": "my_pkg", "client_name": "MyClient", "client_file_name": "my_client",
                              "enums_module_name": "my_enums", "input_types_module_name": "my_inputs",
                              "fragments_module_name": "my_fragments", "include_comments": "none"}),
        ("defaults+otel", {"schema_path": "schema.graphql", "queries_path": "queries.graphql", "opentelemetry_client": True,
                           "include_comments": "timestamp", "convert_to_snake_case": False, "include_all_inputs": False,
                           "include_all_enums": False, "plugins": ["ariadne_codegen.contrib.shorter_results.ShorterResultsPlugin"]}),
        ("sync+otel+both-sources", {"schema_path": W["schema_file"], "remote_schema_url": "http://x", "queries_path": W["queries_dir"],
                                    "async_client": False, "opentelemetry_client": True, "target_package_path": "out"}),
    ]


def schema_bases(W: Dict[str, str]) -> List[Tuple[str, Dict[str, Any]]]:
    return [
        ("file", {"schema_path": W["schema_file"], "target_file_path": W["out"] + "/schema.py"}),
        ("remote", {"remote_schema_url": "http://verif.test/graphql", "remote_schema_headers": {"A": "$C17_TOKEN"},
                    "target_file_path": "out/schema.graphql", "schema_variable_name": "my_schema", "type_map_variable_name": "tm"}),
        ("defaults", {"schema_path": W["schema_dir"]}),
    ]


ALL_OPTS = ["schema_path", "remote_schema_url", "remote_schema_headers", "remote_schema_verify_ssl", "enable_custom_operations", "plugins",
            "queries_path", "target_package_name", "target_package_path", "client_name", "client_file_name", "base_client_name",
            "base_client_file_path", "enums_module_name", "input_types_module_name", "fragments_module_name", "include_comments",
            "convert_to_snake_case", "include_all_inputs", "include_all_enums", "async_client", "opentelemetry_client", "files_to_include", "scalars",
            "target_file_path", "schema_variable_name", "type_map_variable_name"]

Viol = Tuple[str, Callable[[Dict[str, Any], Dict[str, str]], Optional[str]], str, Optional[str]]
# (label, mutate(section, W) -> mention (None = not applicable to this base), expected class, finding trigger if accepted)


def _drop(sec: Dict[str, Any], *keys: str) -> None:
    for k in keys:
        sec.pop(k, None)


def client_violations() -> List[Viol]:
    V: List[Viol] = []

    def add(label: str, cls: str, trig: Optional[str] = None) -> Callable[[Callable[..., Optional[str]]], None]:
        def deco(fn: Callable[..., Optional[str]]) -> None:
            V.append((label, fn, cls, trig))
        return deco

    @add("no-schema-source", "InvalidConfiguration")
    def _(s: Dict[str, Any], W: Dict[str, str]) -> Optional[str]:
        _drop(s, "schema_path", "remote_schema_url")
        return "schema_path"

    @add("schema-path-missing", "InvalidConfiguration")
    def _(s, W):
        s["schema_path"] = W["missing"]
        return W["missing"]

    @add("queries-path-not-given", "MissingConfiguration")
    def _(s, W):
        _drop(s, "queries_path", "enable_custom_operations")
        return "queries_path"

    @add("queries-path-missing", "InvalidConfiguration")
    def _(s, W):
        s["queries_path"] = W["missing_rel"]
        return W["missing_rel"]

    for key in ("target_package_name", "client_name", "client_file_name", "enums_module_name", "input_types_module_name",
                "fragments_module_name"):
        for bad, ok in D.NAME_POOL:
            if ok:
                continue
            def mut(s, W, key=key, bad=bad):
                s[key] = bad
                return bad
            V.append((f"bad-name:{key}={bad!r}", mut, "InvalidConfiguration", None))
    for bad, ok in D.NAME_POOL:
        if ok:
            continue

        def mutb(s, W, bad=bad):
            s["base_client_name"] = bad
            s["base_client_file_path"] = W["custom_base"]
            return bad
        V.append((f"bad-name:base_client_name={bad!r}", mutb, "InvalidConfiguration", None))

    @add("package-path-is-file", "InvalidConfiguration")
    def _(s, W):
        s["target_package_path"] = W["inc1"]
        return W["inc1"]

    @add("package-path-missing", "InvalidConfiguration")
    def _(s, W):
        s["target_package_path"] = W["missing"]
        return W["missing"]

    @add("comment-mode-unknown", "InvalidConfiguration")
    def _(s, W):
        s["include_comments"] = "sometimes"
        return "sometimes"

    @add("comment-mode-case", "InvalidConfiguration")
    def _(s, W):
        s["include_comments"] = "Stable"
        return "Stable"

    @add("scalar-without-type", "MissingConfiguration")
    def _(s, W):
        s["scalars"] = {"OK": {"type": "str"}, "DT": {"serialize": "mod.ser", "parse": "mod.parse"}}
        return "type"

    @add("header-env-missing", "InvalidConfiguration")
    def _(s, W):
        s["remote_schema_headers"] = {"X-Plain": "v", "Authorization": "$C17_NOPE"}
        return "C17_NOPE"

    @add("header-env-empty", "InvalidConfiguration")
    def _(s, W):
        s["remote_schema_headers"] = {"Authorization": "$$C17_EMPTY"}
        return "C17_EMPTY"

    @add("base-client-file-missing", "InvalidConfiguration")
    def _(s, W):
        s["base_client_name"] = "MyBaseClient"
        s["base_client_file_path"] = W["missing"]
        return W["missing"]

    @add("base-client-file-is-dir", "InvalidConfiguration")
    def _(s, W):
        s["base_client_name"] = "MyBaseClient"
        s["base_client_file_path"] = W["out"]
        return W["out"]

    @add("base-client-class-absent", "InvalidConfiguration")
    def _(s, W):
        s["base_client_name"] = "Nope"
        s["base_client_file_path"] = W["custom_base"]
        return "Nope"

    @add("base-client-class-prefix-only", "InvalidConfiguration", "baseClassSubstring")
    def _(s, W):
        s["base_client_name"] = "MyBase"
        s["base_client_file_path"] = W["custom_base"]
        return "MyBase"

    @add("base-client-name-only", "InvalidConfiguration")
    def _(s, W):
        s["base_client_name"] = "MyBaseClient"
        _drop(s, "base_client_file_path")
        return ""

    @add("base-client-path-only", "InvalidConfiguration")
    def _(s, W):
        _drop(s, "base_client_name")
        s["base_client_file_path"] = W["custom_base"]
        return ""

    @add("file-to-include-missing", "InvalidConfiguration")
    def _(s, W):
        s["files_to_include"] = [W["inc1"], W["missing"]]
        return W["missing"]

    @add("file-to-include-is-dir", "InvalidConfiguration")
    def _(s, W):
        s["files_to_include"] = [W["out"]]
        return W["out"]

    return V


def schema_violations() -> List[Viol]:
    V: List[Viol] = []

    def mk(label: str, cls: str, fn: Callable[..., Optional[str]]) -> None:
        V.append((label, fn, cls, None))

    def no_src(s, W):
        _drop(s, "schema_path", "remote_schema_url")
        return "schema_path"
    mk("no-schema-source", "InvalidConfiguration", no_src)

    def sp(s, W):
        s["schema_path"] = W["missing"]
        return W["missing"]
    mk("schema-path-missing", "InvalidConfiguration", sp)

    def hdr(s, W):
        s["remote_schema_headers"] = {"A": "$C17_NOPE"}
        return "C17_NOPE"
    mk("header-env-missing", "InvalidConfiguration", hdr)
    for bad in ("schema.txt", "schema", ".py", "out.py/schema", "schema.", "s.graphqls", "a/b.json", "x.py.bak",
                "out/.py", ".graphql", ".GQL", "a.b/.gql", "./.py", "out/.py."):     # base name = a dot plus an extension: no file type
        def tf(s, W, bad=bad):
            s["target_file_path"] = bad
            return bad
        mk(f"target-file:{bad}", "InvalidConfiguration", tf)
    for key in ("schema_variable_name", "type_map_variable_name"):
        for bad, ok in D.NAME_POOL:
            if not ok:
                def nm(s, W, key=key, bad=bad):
                    s[key] = bad
                    return bad
                mk(f"bad-name:{key}={bad!r}", "InvalidConfiguration", nm)
    return V


def harmless_variations(kind: str) -> List[Tuple[str, Callable[[Dict[str, Any]], Dict[str, Any]]]]:
    """configuration-level rewrites that must not change acceptance"""
    out: List[Tuple[str, Callable[[Dict[str, Any]], Dict[str, Any]]]] = [
        ("tool-section", lambda s: tool(s)),
        ("unknown-keys", lambda s: tool({"zzz_unknown": 1, **s, "queriespath": "x", "nested": {"a": [1, 2]}, "Schema_Path": "/nope"})),
        ("deprecated-section", lambda s: {"ariadne-codegen": s}),
        ("both-sections", lambda s: {"ariadne-codegen": {"schema_path": "/nope/ignored"}, "tool": {"other": {}, "ariadne-codegen": s}}),
        ("tool-without-section+deprecated", lambda s: {"tool": {"black": {"line-length": 88}}, "ariadne-codegen": s}),
    ]
    if kind == "client":
        out += [
            ("bool-comments-true", lambda s: tool({**s, "include_comments": True})),
            ("bool-comments-false", lambda s: tool({**s, "include_comments": False})),
            ("comments-stable", lambda s: tool({**s, "include_comments": "stable"})),
            ("valid-names", lambda s: tool({**s, "client_name": "match", "client_file_name": "_x", "fragments_module_name": "type"})),
        ]
    else:
        out += [(f"target:{t}", (lambda s, t=t: tool({**s, "target_file_path": t})))
                for t in ("S.PY", "a.b.gql", "dir.x/s.GraphQL", "./x.py", "x.py/")]
    return out


# --- every TOML kind at every option -----------------------------------------------------------------------------

KIND_VALUES: List[Tuple[str, Any]] = [
    ("bool:true", True), ("bool:false", False),
    ("int:0", 0), ("int:1", 1), ("int:2", 2), ("int:-1", -1),
    ("float:0.0", 0.0), ("float:1.0", 1.0), ("float:2.5", 2.5), ("float:-0.0", -0.0), ("float:inf", float("inf")), ("float:nan", float("nan")),
    ("str:empty", ""), ("str:a", "a"), ("str:mode", "stable"), ("str:dot", "."),
    ("list:empty", []), ("list:str", ["a"]), ("list:int", [1]), ("list:dot", ["."]), ("list:list", [["a"]]),
    ("table:empty", {}), ("table:str", {"a": "a"}), ("table:int", {"a": 1}), ("table:scalar", {"A": {"type": "str"}}), ("table:dot", {".": "x"}),
]
SCALARS_VALUES: List[Tuple[str, Any]] = [
    ("entry:str", {"A": "str"}), ("entry:int", {"A": 1}), ("entry:list", {"A": []}), ("entry:bool", {"OK": {"type": "str"}, "A": True}),
    ("type:int", {"A": {"type": 1}}), ("type:bool", {"A": {"type": True}}), ("type:float", {"A": {"type": 1.5}}),
    ("type:list", {"A": {"type": ["x"]}}), ("type:list-dot", {"A": {"type": ["."]}}), ("type:table", {"A": {"type": {"a": 1}}}),
    ("type:table-dot", {"A": {"type": {".": 1}}}), ("parse:int", {"A": {"type": "x", "parse": 1}}), ("parse:zero", {"A": {"type": "x", "parse": 0}}),
    ("serialize:list-dot", {"A": {"type": "x", "serialize": ["."]}}), ("parse:empty-list", {"A": {"type": "x", "parse": []}}),
    ("import:int", {"A": {"type": "x", "import": 1}}), ("missing-then-bad", {"A": {"parse": "p"}, "B": 1}), ("bad-then-missing", {"B": 1, "A": {"parse": "p"}}),
    ("parse+serialize", {"A": {"type": "x", "parse": 1, "serialize": ["."]}}),
]
HEADERS_VALUES: List[Tuple[str, Any]] = [
    ("value:int", {"A": 1}), ("value:list", {"A": ["$C17_TOKEN"]}), ("value:bool-after-str", {"A": "v", "B": True}),
    ("missing-env-then-int", {"A": "$C17_NOPE", "B": 1}), ("int-then-missing-env", {"B": 1, "A": "$C17_NOPE"}), ("value:table", {"A": {"x": "y"}}),
]
NAME_OPTS = {"client": ("target_package_name", "client_name", "client_file_name", "enums_module_name", "input_types_module_name",
                        "fragments_module_name"),
             "schema": ("schema_variable_name", "type_map_variable_name")}
STRICT_PATH_OPTS = {"client": ("schema_path", "queries_path", "target_package_path"), "schema": ("schema_path", "target_file_path")}
MODES = ("none", "stable", "timestamp")
ILL = "illTypedOptionInternal"


def kind_ok(key: str, v: Any) -> bool:
    """python twin of `kindOk` in Properties/C17.lean: the kind each option is documented to take"""
    strs = lambda xs: all(isinstance(x, str) for x in xs)  # noqa: E731
    if key == "remote_schema_headers":
        return isinstance(v, dict) and strs(v.values())
    if key in ("files_to_include", "plugins"):
        return isinstance(v, list) and strs(v)
    if key == "scalars":
        return isinstance(v, dict) and all(isinstance(d, dict) and strs(d.values()) for d in v.values())
    if key == "include_comments":
        return isinstance(v, (str, bool))
    if key in ("async_client", "opentelemetry_client", "convert_to_snake_case", "include_all_inputs", "include_all_enums",
               "remote_schema_verify_ssl", "enable_custom_operations"):
        return isinstance(v, bool)
    if key in ("schema_path", "remote_schema_url", "queries_path", "target_package_name", "target_package_path", "client_name", "client_file_name",
               "base_client_name", "base_client_file_path", "enums_module_name", "input_types_module_name", "fragments_module_name",
               "target_file_path", "schema_variable_name", "type_map_variable_name"):
        return isinstance(v, str)
    return True


def ill_typed_config(cfg: Any) -> bool:
    """some option of the section (or the section / the tool table itself) has a value of another kind than documented"""
    if not isinstance(cfg, dict):
        return True
    secs = []
    t = cfg.get("tool")
    if t is not None and not isinstance(t, dict):
        return True
    for sec in ((t or {}).get("ariadne-codegen"), cfg.get("ariadne-codegen")):
        if sec is not None:
            if not isinstance(sec, dict):
                return True
            secs.append(sec)
    return any(not kind_ok(k, v) for sec in secs for k, v in sec.items())


UNCONSTRAINED = ("async_client", "opentelemetry_client", "convert_to_snake_case", "include_all_inputs", "include_all_enums", "remote_schema_verify_ssl",
                 "enable_custom_operations", "plugins", "remote_schema_url")


def only_unconstrained_ill_typed(cfg: Any) -> bool:
    """every value of another kind than documented sits at an option the property names no constraint for (accepting
    such a configuration is no failure of C17)"""
    if not isinstance(cfg, dict) or (cfg.get("tool") is not None and not isinstance(cfg.get("tool"), dict)):
        return False
    secs = [x for x in ((cfg.get("tool") or {}).get("ariadne-codegen"), cfg.get("ariadne-codegen")) if x is not None]
    return all(isinstance(sec, dict) and all(kind_ok(k, v) or k in UNCONSTRAINED for k, v in sec.items()) for sec in secs)


def kind_expect(kind: str, opt: str, v: Any) -> Optional[Dict[str, Any]]:
    """what the PROPERTY says about a valid base configuration with `opt = v` (None: the property names no constraint that
    decides this case; it is then compared with the model only)"""
    import keyword

    is_str = isinstance(v, str)
    if opt == "include_comments" and kind == "client":
        if isinstance(v, bool) or (is_str and v in MODES):
            return {"accept": True}
        return {"cls": "InvalidConfiguration", "mention": str(v), "trigger": None}      # an unknown comment mode, whatever its kind
    if opt in NAME_OPTS[kind]:
        if not is_str:
            return {"cls": "InvalidConfiguration", "mention": None, "trigger": ILL}     # not usable as an identifier
        if v.isidentifier() and not keyword.iskeyword(v):
            return {"accept": True}
        return {"cls": "InvalidConfiguration", "mention": v, "trigger": None}
    if opt == "remote_schema_headers":
        if isinstance(v, dict) and all(isinstance(x, str) and not x.startswith("$") for x in v.values()):
            return {"accept": True}
        if not (isinstance(v, dict) and all(isinstance(x, str) for x in v.values())):
            return {"cls": "InvalidConfiguration", "mention": None, "trigger": ILL}
        return None
    if opt == "scalars" and kind == "client":
        if isinstance(v, dict) and all(isinstance(d, dict) and isinstance(d.get("type"), str) and all(isinstance(x, str) for x in d.values())
                                       for d in v.values()):
            return {"accept": True}
        if not isinstance(v, dict) or any(not isinstance(d, dict) for d in v.values()):
            return {"cls": None, "mention": None, "trigger": ILL}                       # a scalar that has no `type` at all
        return None
    if opt in STRICT_PATH_OPTS[kind] and not is_str and v:
        return {"cls": None, "mention": None, "trigger": None}                          # not a path: any CodeGenException will do
    return None


def kinds_cases(kind: str, bases: List[Tuple[str, Dict[str, Any]]]) -> List[Dict[str, Any]]:
    try:
        import dataclasses

        from ariadne_codegen import settings as S

        opts = [f.name for f in dataclasses.fields(S.ClientSettings if kind == "client" else S.GraphQLSchemaSettings)]
    except (ImportError, AttributeError, TypeError):
        opts = []
    out: List[Dict[str, Any]] = []
    for blabel, base in bases:
        for opt in opts:
            pool = list(KIND_VALUES)
            if opt == "scalars":
                pool += SCALARS_VALUES
            if opt == "remote_schema_headers":
                pool += HEADERS_VALUES
            for vlabel, v in pool:
                sec = copy.deepcopy(base)
                sec[opt] = copy.deepcopy(v)
                out.append({"kind": kind, "cfg": tool(sec), "label": f"{kind}/{blabel}/kind:{opt}={vlabel}", "expect": kind_expect(kind, opt, v)})
    return out


def path_kind_cases(W: Dict[str, str]) -> List[Dict[str, Any]]:
    """every path option x {regular file, directory, missing, empty string} x every combination of the three flags that
    change which checks run (enable_custom_operations, async_client, opentelemetry_client); expectations from the property:
    a path option must name something that exists and has the right type WHATEVER the flags say"""
    out: List[Dict[str, Any]] = []
    kinds = {"file": W["inc1"], "dir": W["out"], "missing": W["missing"], "empty": ""}
    inv = lambda mention: {"cls": "InvalidConfiguration", "mention": mention, "trigger": None}  # noqa: E731
    for custom in (False, True):
        for is_async in (False, True):
            for otel in (False, True):
                base = {"schema_path": W["schema_file"], "queries_path": W["queries_file"], "target_package_path": W["out"],
                        "enable_custom_operations": custom, "async_client": is_async, "opentelemetry_client": otel}
                flags = f"custom={int(custom)},async={int(is_async)},otel={int(otel)}"
                for opt in ("schema_path", "queries_path", "target_package_path", "base_client_file_path", "files_to_include"):
                    for pk, pv in kinds.items():
                        sec = copy.deepcopy(base)
                        exp: Optional[Dict[str, Any]]
                        if opt == "schema_path":
                            sec[opt] = pv
                            exp = {"accept": True} if pk in ("file", "dir") else inv(pv if pk == "missing" else "schema_path")
                        elif opt == "queries_path":
                            sec[opt] = pv
                            if pk in ("file", "dir"):
                                exp = {"accept": True}
                            elif pk == "missing":
                                exp = inv(pv)
                            else:
                                exp = {"accept": True} if custom else {"cls": "MissingConfiguration", "mention": None, "trigger": None}
                        elif opt == "target_package_path":
                            sec[opt] = pv
                            exp = {"accept": True} if pk in ("dir", "empty") else inv(pv)
                        elif opt == "base_client_file_path":
                            sec["base_client_name"] = "MyBaseClient"
                            sec[opt] = W["custom_base"] if pk == "file" else pv
                            exp = {"accept": True} if pk == "file" else inv(pv)
                        else:
                            sec[opt] = [W["inc2"], pv]
                            exp = {"accept": True} if pk == "file" else inv(pv)
                        out.append({"kind": "client", "cfg": tool(sec), "label": f"client/path-kind:{opt}={pk}/{flags}", "expect": exp})
    for opt, pk, pv, ok in (("schema_path", "file", W["schema_file"], True), ("schema_path", "dir", W["schema_dir"], True),
                            ("schema_path", "missing", W["missing"], False)):
        out.append({"kind": "schema", "cfg": tool({"schema_path": pv}), "label": f"schema/path-kind:{opt}={pk}",
                    "expect": {"accept": True} if ok else inv(pv)})
    return out


def section_shape_cases(kind: str, base: Dict[str, Any]) -> List[Dict[str, Any]]:
    """`tool` / the section itself holding a value of every kind (get_section is `in` + item access on whatever is there)"""
    out = []
    for vlabel, v in KIND_VALUES:
        if isinstance(v, dict) and v:
            continue
        out.append({"kind": kind, "cfg": {"tool": copy.deepcopy(v)}, "label": f"{kind}/shape:tool={vlabel}", "expect": None})
        out.append({"kind": kind, "cfg": {"tool": copy.deepcopy(v), "ariadne-codegen": copy.deepcopy(base)}, "label": f"{kind}/shape:tool={vlabel}+deprecated",
                    "expect": None})
        out.append({"kind": kind, "cfg": {"tool": {"ariadne-codegen": copy.deepcopy(v)}}, "label": f"{kind}/shape:section={vlabel}", "expect": None})
        out.append({"kind": kind, "cfg": {"ariadne-codegen": copy.deepcopy(v)}, "label": f"{kind}/shape:deprecated-section={vlabel}", "expect": None})
    for vlabel, v in (("str:contains", "see ariadne-codegen docs"), ("str:exact", "ariadne-codegen"), ("list:contains", ["x", "ariadne-codegen"]),
                      ("list:other", ["ariadne_codegen"])):
        out.append({"kind": kind, "cfg": {"tool": v, "ariadne-codegen": copy.deepcopy(base)}, "label": f"{kind}/shape:tool={vlabel}", "expect": None})
    return out


def settings_cases(ctx: Ctx, W: Dict[str, str]) -> List[Dict[str, Any]]:
    """every case: {kind, cfg, label, expect: None | {"accept": True} | {"cls", "mention", "trigger"}}"""
    cases: List[Dict[str, Any]] = path_kind_cases(W)
    for kind, bases, viols in (("client", client_bases(W), client_violations()), ("schema", schema_bases(W), schema_violations())):
        for blabel, base in bases:
            for vlabel, fn in harmless_variations(kind):
                cases.append({"kind": kind, "cfg": fn(copy.deepcopy(base)), "label": f"{kind}/{blabel}/{vlabel}", "expect": {"accept": True}})
            for vlabel, mut, cls, trig in viols:
                sec = copy.deepcopy(base)
                mention = mut(sec, W)
                cases.append({"kind": kind, "cfg": tool(sec), "label": f"{kind}/{blabel}/{vlabel}",
                              "expect": {"cls": cls, "mention": mention, "trigger": trig}})
        # every TOML kind at every option of every valid base; the shapes of `tool` and of the section
        cases += kinds_cases(kind, bases)
        cases += section_shape_cases(kind, bases[0][1])
        # no section at all / empty configuration
        cases.append({"kind": kind, "cfg": {}, "label": f"{kind}/no-section", "expect": {"cls": "MissingConfiguration", "mention": "ariadne-codegen", "trigger": None}})
        cases.append({"kind": kind, "cfg": {"tool": {"black": {}}}, "label": f"{kind}/tool-only", "expect": {"cls": "MissingConfiguration", "mention": "ariadne-codegen", "trigger": None}})
        # pairs of violations: which check fires first (correspondence only)
        rng = ctx.sub_rng("pairs-" + kind)
        for _ in range(ctx.budget(500, 4000)):
            blabel, base = rng.choice(bases)
            sec = copy.deepcopy(base)
            labels = []
            for vlabel, mut, _, _ in rng.sample(viols, rng.choice([2, 2, 3])):
                mut(sec, W)
                labels.append(vlabel)
            cfg = tool(sec) if rng.random() < 0.8 else {"ariadne-codegen": sec}
            cases.append({"kind": kind, "cfg": cfg, "label": f"{kind}/{blabel}/pair:" + "+".join(labels), "expect": None})
    # random mixes of option values
    rng = ctx.sub_rng("random-settings")
    names = [n for n, _ in D.NAME_POOL]
    paths = [W["schema_file"], W["schema_dir"], W["out"], W["missing"], W["custom_base"], W["inc1"], "", "schema.graphql", "out", "nope"]
    for _ in range(ctx.budget(400, 6000)):
        sec: Dict[str, Any] = {}
        for k in ("schema_path", "queries_path", "target_package_path", "base_client_file_path"):
            if rng.random() < 0.6:
                sec[k] = rng.choice(paths)
        if rng.random() < 0.3:
            sec["remote_schema_url"] = rng.choice(["", "http://x"])
        for k in ("target_package_name", "client_name", "client_file_name", "base_client_name", "enums_module_name",
                  "input_types_module_name", "fragments_module_name"):
            if rng.random() < 0.25:
                sec[k] = rng.choice(names + ["MyBaseClient", "Helper", "MyBase", "AsyncBaseClient", "BaseClient"])
        for k in ("async_client", "opentelemetry_client", "enable_custom_operations", "convert_to_snake_case"):
            if rng.random() < 0.3:
                sec[k] = rng.random() < 0.5
        if rng.random() < 0.3:
            sec["include_comments"] = rng.choice(["none", "stable", "timestamp", "x", "", True, False])
        if rng.random() < 0.25:
            sec["remote_schema_headers"] = {f"H{i}": rng.choice(["v", "$C17_TOKEN", "$C17_NOPE", "$", "$$C17_TOKEN", "$C17_EMPTY", "a$b", ""])
                                            for i in range(rng.randint(0, 3))}
        if rng.random() < 0.2:
            sec["files_to_include"] = [rng.choice(paths) for _ in range(rng.randint(0, 3))]
        if rng.random() < 0.2:
            sec["scalars"] = {f"S{i}": ({"type": "str", **({"import": "m"} if rng.random() < 0.5 else {})} if rng.random() < 0.7 else {"parse": "p"})
                              for i in range(rng.randint(0, 3))}
        if rng.random() < 0.2:
            sec[rng.choice(["unknown", "schema-path", "x"])] = rng.choice([1, "s", [1], {"a": 1}])
        for _k in range(rng.choice([0, 0, 1, 1, 2])):      # values of arbitrary kinds at arbitrary options
            sec[rng.choice(ALL_OPTS)] = copy.deepcopy(rng.choice(KIND_VALUES + SCALARS_VALUES + HEADERS_VALUES)[1])
        kind = "client" if rng.random() < 0.75 else "schema"
        if kind == "schema":
            if rng.random() < 0.6:
                sec["target_file_path"] = rng.choice(["s.py", "s.GQL", "s", "a/b.graphql", ".py", "x.txt", "a.b/c", "..", "a..py", "/"])
            for k in ("schema_variable_name", "type_map_variable_name"):
                if rng.random() < 0.3:
                    sec[k] = rng.choice(names)
        cases.append({"kind": kind, "cfg": tool(sec) if rng.random() < 0.85 else {"ariadne-codegen": sec}, "label": "random", "expect": None})
    return cases


def judge_settings(ctx: Ctx, st: Optional[LeanStatus], res: Result, root: Path, W: Dict[str, str], cases: List[Dict[str, Any]]) -> None:
    status, out = engine.forked(_settings_batch, str(root), cases, timeout=600)
    if status != "ok":
        raise common.Infra(f"settings batch: {status} {out}")
    lines = [l for l, _ in out]
    model: Optional[List[Any]] = common.run_driver(ctx.prop, lines, chunk=400) if st is not None and st.driver_ok else None
    for i, (case, (_, obs)) in enumerate(zip(cases, out)):
        label = case["label"]
        shown = {"kind": case["kind"], "cfg": _unroot(case["cfg"], W), "label": label}
        if "observer" in obs:
            res.mismatches.append(Mismatch("settings", shown, "observer: " + obs["observer"], None))
            continue
        impl = {"result": norm_settings_result(obs["result"], False), "deprecatedSection": obs["deprecatedSection"],
                "deprecatedBoolComments": obs["deprecatedBoolComments"], "pure": obs["pure"]}
        res.seen([case["kind"], json.dumps(shown["cfg"], sort_keys=False, default=repr)], nontrivial=True)
        res.count("settings:" + case["kind"] + (":accepted" if "ok" in impl["result"] else ":" + impl["result"]["err"]["cls"]))
        if "/kind:" in label:
            res.count("settings:kind-at-option:" + label.split("=", 1)[1].split(":")[0])
            if ill_typed_config(case["cfg"]):
                res.count("settings:ill-typed-value:" + ("accepted" if "ok" in impl["result"] else impl["result"]["err"]["cls"]))
        if case["kind"] == "client" and in_old_f2_region(find_section(case["cfg"]).get("fragments_module_name", [])):
            res.count("settings:inside-old-C17-F2-region")
            emsg = obs["result"]["err"].get("msg", "") if "err" in obs["result"] else ""
            if "python identifier" in emsg and any(isinstance(n, str) and f"name {n} cannot" in emsg
                                                   for n in find_section(case["cfg"]).get("fragments_module_name", [])):
                res.count("settings:rejected-by-the-fragments_module_name-check")
        if model is not None:
            m = model[i]
            mres = m["result"]
            if "err" in mres and mres["err"]["cls"] == "unmodelled":
                res.count("settings:outside-modelled-domain")
            else:
                mm = {"result": norm_settings_result(mres, True), "deprecatedSection": m["deprecatedSection"],
                      "deprecatedBoolComments": m["deprecatedBoolComments"], "pure": m["pure"]}
                if not common.same_json(_unroot(impl, W), _unroot(mm, W)):
                    # inside the region of C17-F8 (the model says: a bare Python exception) an implementation that now rejects
                    # with one of its own exception classes passes the oracle: "finding no longer reproduces", not a violation
                    ir = impl["result"].get("err")
                    in_f8 = "err" in mres and mres["err"]["typed"] is False and obs["pure"]
                    inside = ILL if in_f8 and ((ir is not None and ir["typed"]) or (ir is None and only_unconstrained_ill_typed(case["cfg"]))) else None
                    res.mismatches.append(Mismatch("settings", shown, _unroot(_diff_view(impl, mm)[0], W), _unroot(_diff_view(impl, mm)[1], W), trigger=inside))
        # the property itself, on the real function
        if not obs["pure"]:
            res.failures.append(Failure("settings-mutated-config", None, shown, "the configuration dict differs after the call"))
        exp = case["expect"]
        if exp is None:
            continue
        r = obs["result"]
        if exp.get("accept"):
            if "err" in r:
                res.failures.append(Failure("valid-config-rejected", None, shown, json.dumps(r["err"])[:300]))
            continue
        trig = exp.get("trigger")
        if trig == ILL and not ill_typed_config(case["cfg"]):
            trig = None
        if "ok" in r:
            res.failures.append(Failure("invalid-config-accepted", trig, shown, f"{label}: settings were accepted"))
        else:
            e = r["err"]
            if not e["typed"]:
                res.failures.append(Failure("untyped-exception", trig, shown, f"{label}: {e['cls']}: {e['msg'][:200]}"))
            elif exp["cls"] is None:
                pass        # any ariadne-codegen exception will do
            elif e["cls"] != exp["cls"]:
                res.failures.append(Failure("wrong-exception-class", trig, shown, f"{label}: {e['cls']} instead of {exp['cls']}"))
            elif exp["mention"] and exp["mention"] not in e["msg"]:
                res.failures.append(Failure("message-does-not-name-problem", trig, shown, f"{label}: {e['msg'][:200]!r} lacks {exp['mention']!r}"))
        if len(res.samples) < 3 and "pair" not in label and "bad-name:client_name" in label:
            res.sample({"input": shown, "impl": _unroot(impl, W), "model": _unroot(model[i], W) if model else None})


def _diff_view(a: Dict[str, Any], b: Dict[str, Any]) -> Tuple[Any, Any]:
    """only the parts that differ (keeps the verdict lines short)"""
    ra, rb = a["result"], b["result"]
    if "ok" in ra and "ok" in rb:
        ks = [k for k in set(ra["ok"]) | set(rb["ok"]) if not common.same_json(ra["ok"].get(k), rb["ok"].get(k))]
        ra, rb = {"ok": {k: ra["ok"].get(k) for k in ks}}, {"ok": {k: rb["ok"].get(k) for k in ks}}
    fa = {k: a[k] for k in a if k != "result" and a[k] != b.get(k)}
    fb = {k: b[k] for k in b if k != "result" and a.get(k) != b[k]}
    return {"result": ra, **fa}, {"result": rb, **fb}


def _unroot(x: Any, W: Dict[str, str]) -> Any:
    """replace the random scratch root by a placeholder (stable hashes, readable reports)"""
    root = W["root"]
    if isinstance(x, str):
        return x.replace(root, "<ROOT>")
    if isinstance(x, list):
        return [_unroot(v, W) for v in x]
    if isinstance(x, tuple):
        return [_unroot(v, W) for v in x]
    if isinstance(x, dict):
        return {(_unroot(k, W) if isinstance(k, str) else k): _unroot(v, W) for k, v in x.items()}
    return x


# --------------------------------------------------------------------------------------------
# pipeline: plans, the child-side runner, graphql-core as oracle
# --------------------------------------------------------------------------------------------

EXTS = (".graphql", ".graphqls", ".gql")
REPLACING_PLUGIN = '''from graphql import build_ast_schema, parse
from ariadne_codegen.plugins.base import Plugin

SDL = {sdl!r}


class ReplacingPlugin(Plugin):
    def process_schema(self, schema):
        return build_ast_schema(parse(SDL))
'''


def snapshot(p: Path) -> Dict[str, str]:
    out: Dict[str, str] = {}
    if not p.exists():
        return out
    for f in sorted(p.rglob("*")):
        rel = f.relative_to(p).as_posix()
        out[rel] = "dir" if f.is_dir() else hashlib.sha256(f.read_bytes()).hexdigest()
    return out


def changes_of(before: Dict[str, str], after: Dict[str, str], strategy: str) -> List[str]:
    out = []
    for rel in sorted(set(before) | set(after)):
        if before.get(rel) == after.get(rel):
            continue
        if rel not in after:
            out.append("removed:" + rel)
        elif strategy == "client" and rel == "pkg":
            out.append("mkdir")
        elif strategy == "client" and rel.startswith("pkg/") and after[rel] != "dir":
            out.append("write:" + rel[4:])
        elif strategy != "client" and after[rel] != "dir":
            out.append("write:" + rel)
        else:
            out.append("other:" + rel)
    return out


def put_source(root: Path, name: str, spec: Any) -> str:
    """spec: str = one file; dict = directory tree {relative path: text}"""
    if isinstance(spec, str):
        p = root / f"{name}.graphql"
        p.write_text(spec)
        return str(p)
    d = root / f"{name}_dir"
    d.mkdir()
    for rel, text in spec.items():
        f = d / rel
        f.parent.mkdir(parents=True, exist_ok=True)
        f.write_text(text)
    return str(d)


def gql_parses(text: str) -> bool:
    """graphql-core asked directly: does this text parse on its own?"""
    from graphql import GraphQLSyntaxError, parse

    try:
        parse(text)
        return True
    except GraphQLSyntaxError:
        return False


def _content(f: Path) -> Dict[str, Any]:
    try:
        with open(f, encoding="utf-8") as fh:
            return {"text": fh.read()}
    except (OSError, UnicodeDecodeError) as e:
        return {"unreadable": type(e).__name__}


def _tree(d: Path) -> List[Dict[str, Any]]:
    """the directory as data (every entry, whatever its name; order as the OS lists it: the MODEL sorts)"""
    out = []
    for c in d.iterdir():
        out.append({"d": [c.name, _tree(c)]} if c.is_dir() else {"f": [c.name, _content(c)]})
    return out


def source_json(path_str: str) -> Tuple[Dict[str, Any], List[List[Any]], Optional[str]]:
    """What the model is told about a schema_path / queries_path: the file or directory TREE as it is on disk, and
    graphql-core's verdict on every text of the case (each file with a graphql suffix, and their concatenation in the order
    of an independent re-statement of the sorted walk).  Returns (wire source, [[path, parses?]] in that order, joined text
    when every file parses and the concatenation parses too)."""
    p = Path(path_str)
    if p.is_dir():
        root: Dict[str, Any] = {"dir": [path_str, _tree(p)]}
        files = sorted(f for f in p.glob("**/*") if f.suffix in EXTS)
    else:
        root = {"file": [str(p.resolve()), _content(p)]}
        files = [p.resolve()]
    texts: List[Optional[str]] = [_content(f).get("text") for f in files]
    table: Dict[str, bool] = {}
    for t in texts:
        if t is not None and t not in table:
            table[t] = gql_parses(t)
    listing = [[str(f), (t is not None and table[t])] for f, t in zip(files, texts)]
    joined = None
    if all(t is not None for t in texts):
        joined_text = "\n".join(t for t in texts if t is not None) if p.is_dir() else (texts[0] or "")
        if joined_text not in table:
            table[joined_text] = gql_parses(joined_text)
        if all(ok for _, ok in listing) and table[joined_text]:
            joined = joined_text
    return {"root": root, "parses": [[t, ok] for t, ok in table.items()]}, listing, joined


def read_source(path_str: str) -> Tuple[List[List[Any]], Optional[str]]:
    _, listing, joined = source_json(path_str)
    return listing, joined


def plugin_lookup_fact(s: Any) -> List[Any]:
    """the import system asked directly (an independent re-statement of what plugins/explorer.py asks it)"""
    import importlib
    import importlib.util
    import inspect

    if not isinstance(s, str):
        return [str(s), "raises", "AttributeError"]
    try:
        try:
            is_mod = importlib.util.find_spec(s) is not None
        except ModuleNotFoundError:
            is_mod = False
        if is_mod:
            importlib.import_module(s)
            return [s, "module", None]
        i = s.rfind(".")
        if i < 0:
            return [s, "classOk", None]      # never consulted: the missing dot is reported first
        mod_s, cls_s = s[:i], s[i + 1:]
        try:
            mod = importlib.import_module(mod_s)
        except ModuleNotFoundError:
            return [s, "noModule", None]
        try:
            obj = getattr(mod, cls_s)
        except AttributeError:
            return [s, "noAttribute", None]
        from ariadne_codegen.plugins.base import Plugin

        ok = inspect.isclass(obj) and obj is not Plugin and issubclass(obj, Plugin)
        return [s, "classOk" if ok else "notPlugin", None]
    except Exception as e:  # noqa: BLE001 - e.g. ImportError for a relative name, ValueError for an empty one
        return [s, "raises", type(e).__name__]


def plugin_lookup_table(plugins: Any) -> List[List[Any]]:
    try:
        items = list(plugins) if isinstance(plugins, (list, str, dict)) else []
    except TypeError:
        items = []
    return [plugin_lookup_fact(x) for x in dict.fromkeys(x for x in items if isinstance(x, str))]


def schema_facts(joined: Optional[str]) -> Tuple[Dict[str, Any], Any]:
    """graphql-core as oracle: does build_ast_schema(assume_valid=True) raise, how many errors would validation find"""
    from graphql import (DirectiveLocation, GraphQLArgument, GraphQLDirective, GraphQLString, build_ast_schema, parse,
                         validate_schema)

    facts: Dict[str, Any] = {"buildError": None, "trueErrors": 0, "hasQuery": True, "hasMutation": False}
    if joined is None:
        return facts, None
    ast_ = parse(joined)
    try:
        assumed = build_ast_schema(ast_, assume_valid=True)
    except TypeError as e:
        facts["buildError"] = str(e)[:200]
        facts["trueErrors"] = 1
        return facts, None
    facts["hasQuery"] = assumed.query_type is not None
    facts["hasMutation"] = assumed.mutation_type is not None
    try:
        strict = build_ast_schema(parse(joined))          # assert_valid_sdl: the SDL rules
        facts["trueErrors"] = len(validate_schema(strict))  # the type-system rules
    except TypeError:
        facts["trueErrors"] = 1
    if "mixin" not in {d.name for d in assumed.directives}:   # what ariadne-codegen validates operations against
        assumed.directives += (GraphQLDirective(name="mixin", locations=[DirectiveLocation.FIELD, DirectiveLocation.FRAGMENT_DEFINITION],
                                                args={"import": GraphQLArgument(GraphQLString), "from": GraphQLArgument(GraphQLString)},
                                                is_repeatable=True),)
    return facts, assumed


def queries_facts(joined: Optional[str], schema: Any, plan_facts: Dict[str, Any]) -> Dict[str, Any]:
    from graphql import FragmentDefinitionNode, NoUnusedFragmentsRule, OperationDefinitionNode, parse, specified_rules, validate

    out: Dict[str, Any] = {"validationErrors": [], "ops": [], "frags": []}
    if joined is None:
        return out
    doc = parse(joined)
    if schema is not None:
        try:
            errs = validate(schema, doc, [r for r in specified_rules if r is not NoUnusedFragmentsRule])
            out["validationErrors"] = [e.message for e in errs]
        except Exception as e:  # noqa: BLE001 - graphql-core itself crashing on a broken schema
            out["validationErrors"] = []
            out["validate_crashed"] = type(e).__name__
    try:
        from ariadne_codegen.utils import process_name  # C18's function: an input here

        def module_name(n: str) -> str:
            return process_name(n, convert_to_snake_case=True)
    except (ImportError, AttributeError, TypeError):
        def module_name(n: str) -> str:
            return re.sub(r"(?<!^)(?=[A-Z])", "_", n).lower()
    for d in doc.definitions:
        if isinstance(d, OperationDefinitionNode):
            name = d.name.value if d.name else None
            out["ops"].append({"name": name, "module": module_name(name) if name else "", "sub": d.operation.value == "subscription",
                               "err": (plan_facts.get("op_err") or {}).get(name)})
        elif isinstance(d, FragmentDefinitionNode):
            n = d.name.value
            out["frags"].append({"name": n, "unpacked": bool((plan_facts.get("frag_unpacked") or {}).get(n)),
                                 "err": (plan_facts.get("frag_err") or {}).get(n)})
    return out


CALLEE_PHASE = {
    "get_client_settings": "settings", "get_graphql_schema_settings": "settings",
    "get_graphql_schema_from_path": "loadSchema", "get_graphql_schema_from_url": "loadSchema",
    "get_plugins_types": "plugins", "__init__": "plugins", "process_schema": "plugins",
    "assert_valid_schema": "assertValid", "get_graphql_queries": "loadQueries", "add_operation": "addOperation",
    "get_package_generator": "construct", "generate_graphql_schema_python_file": "writeSchema",
    "generate_graphql_schema_graphql_file": "writeSchema",
}


def phase_of(exc: BaseException) -> str:
    """phase of main.client / main.graphql_schema in which the exception was raised: the first frame below the
    command's own frame that belongs to a known callee (helper functions in between do not matter)"""
    frames = traceback.extract_tb(exc.__traceback__)
    for i, fr in enumerate(frames):
        if fr.filename.replace("\\", "/").endswith("ariadne_codegen/main.py") and fr.name in ("client", "graphql_schema"):
            rest = frames[i + 1:]
            for j, nxt in enumerate(rest):
                fname = nxt.filename.replace("\\", "/")
                if nxt.name == "generate" and fname.endswith("client_generators/package.py"):
                    if any(f.name in ("_validate_unique_file_names", "_include_exceptions") for f in rest[j + 1:]):
                        return "generatePre"
                    return "generateWrite"
                if nxt.name == "__init__":
                    if fname.endswith("plugins/manager.py"):
                        return "plugins"
                    continue
                if nxt.name in CALLEE_PHASE:
                    return CALLEE_PHASE[nxt.name]
            return "unknown:" + (rest[0].name if rest else "main")
    return "outside-main"


def _subst(x: Any, root: str) -> Any:
    if isinstance(x, str):
        return x.replace("<ROOT>", root)
    if isinstance(x, list):
        return [_subst(v, root) for v in x]
    if isinstance(x, dict):
        return {k: _subst(v, root) for k, v in x.items()}
    return x


@engine.with_scratch
def run_plan(root: Path, plan: Dict[str, Any]) -> Dict[str, Any]:
    """child side: lay the plan out on disk, ask graphql-core for the oracle facts, run the REAL command"""
    import sys

    root = root.resolve()
    os.chdir(root)
    set_environ()
    strategy = plan.get("strategy", "client")
    facts = plan.get("facts") or {}
    (root / "custom_base.py").write_text(CUSTOM_BASE)
    (root / "inc1.py").write_text("X = 1\n")
    schema_path = put_source(root, "schema", plan.get("schema", D.BASE_SCHEMA))
    out_dir = root / "out"
    out_dir.mkdir()
    sec: Dict[str, Any] = {"schema_path": schema_path}
    if strategy == "client":
        sec.update({"queries_path": put_source(root, "queries", plan.get("queries", D.BASE_QUERIES)),
                    "target_package_path": str(out_dir), "target_package_name": "pkg", "include_comments": "none"})
    else:
        sec["target_file_path"] = str(out_dir / "schema.py")
    for k, v in _subst(plan.get("cfg") or {}, str(root)).items():
        if v is None:
            sec.pop(k, None)
        else:
            sec[k] = v
    cfg = tool(sec)
    pre = plan.get("preexisting", "none")
    if strategy == "client" and pre != "none":
        (out_dir / "pkg").mkdir()
        if pre == "files":
            (out_dir / "pkg" / "keep.py").write_text("KEEP = 1\n")
            (out_dir / "pkg" / "client.py").write_text("old client\n")
            (out_dir / "pkg" / "__init__.py").write_text("old init\n")
    elif strategy != "client" and pre == "files":
        (out_dir / "schema.py").write_text("old schema\n")
        (out_dir / "schema.graphql").write_text("old schema\n")
    if facts.get("replacing_sdl") is not None:
        (root / "c17_plugin.py").write_text(REPLACING_PLUGIN.format(sdl=facts["replacing_sdl"]))
        sys.path.insert(0, str(root))

    # ---- oracle facts (graphql-core asked directly, never through ariadne-codegen) ----
    EMPTY_SRC: Dict[str, Any] = {"root": {"dir": ["", []]}, "parses": [["", gql_parses("")]]}
    s_src, s_files, s_joined = (source_json(sec["schema_path"]) if isinstance(sec.get("schema_path"), str) and sec.get("schema_path")
                                and Path(sec["schema_path"]).exists() else (EMPTY_SRC, [], None))
    sfacts, schema_obj = schema_facts(s_joined)
    line: Dict[str, Any] = {"op": "client" if strategy == "client" else "graphqlSchema", "cfg": tv_enc(cfg),
                            "schema": {**s_src, **sfacts}, "plugins": {"lookup": plugin_lookup_table(sec.get("plugins", [])),
                                                                        "replaces": facts.get("replaces")}}
    if facts.get("remote") is not None:
        line["schema"]["remote"] = facts["remote"]
    q_files: List[List[Any]] = []
    q_joined: Optional[str] = None
    if strategy == "client":
        q_path = sec.get("queries_path")
        q_src, q_files, q_joined = (source_json(q_path) if isinstance(q_path, str) and q_path and Path(q_path).exists()
                                    else (EMPTY_SRC, [], None))
        line["queries"] = {**q_src, **queries_facts(q_joined, schema_obj, facts)}
        tp, tn = sec.get("target_package_path", Path.cwd().as_posix()), sec.get("target_package_name", "graphql_client")
        line["pkgDirExists"] = (Path(tp) / tn).exists() if isinstance(tp, str) and isinstance(tn, str) else False
        line["codeError"] = facts.get("code_error") or []
    else:
        line["writeError"] = facts.get("write_error")
    line["env"] = env_table(cfg)

    # ---- python twin of the trigger predicates ----
    sobs = settings_obs("client" if strategy == "client" else "schema", copy.deepcopy(cfg))
    settings_ok = "ok" in sobs.get("result", {})
    trig: List[str] = []
    if sfacts["buildError"] is None and sfacts["trueErrors"] > 0 and not facts.get("replaces"):
        trig.append("invalidSchemaAssumedValid")
    if sfacts["buildError"] is not None:
        trig.append("schemaBuildTypeError")
    if strategy == "client":
        remaining = [f for f in line["queries"]["frags"] if not f["unpacked"]]
        if any(f["err"] for f in remaining):
            trig.append("fragmentGenErrorAfterWrites")
    if settings_ok:
        so = {k: (tv_dec(v) if k != "scalars" else v) for k, v in sobs["result"]["ok"].items()}
        use_q = strategy == "client" and bool(so["queries_path"])
        if (so["schema_path"] and not s_files) or (use_q and not q_files):
            trig.append("noGraphqlFiles")
        broken = lambda listing, joined: bool(listing) and all(ok for _, ok in listing) and joined is None  # noqa: E731
        if (so["schema_path"] and broken(s_files, s_joined)) or (use_q and broken(q_files, q_joined)):
            trig.append("joinedNotParsable")
        if strategy == "client":
            try:
                text = Path(str(so["base_client_file_path"])).read_text()
            except OSError:
                text = ""
            if not re.search(r"class " + re.escape(str(so["base_client_name"])) + r"(?![A-Za-z0-9_])", text):
                trig.append("baseClassSubstring")
    else:
        err = sobs.get("result", {}).get("err") or {}
        if not err.get("typed", True) and err.get("cls") in ("AttributeError", "KeyError", "TypeError"):
            trig.append(ILL)

    # ---- the real run ----
    before = snapshot(out_dir)
    inputs_before = snapshot(root)
    obs: Dict[str, Any] = {}
    buf = io.StringIO()
    try:
        from ariadne_codegen import main as ac_main
        from ariadne_codegen.exceptions import CodeGenException

        fn = ac_main.client if strategy == "client" else ac_main.graphql_schema
    except (ImportError, AttributeError) as e:
        return {"line": line, "observer": repr(e), "triggers": trig}
    try:
        with contextlib.redirect_stdout(buf), warnings.catch_warnings():
            warnings.simplefilter("ignore")
            fn(cfg)
        obs["outcome"] = "ok"
        text = buf.getvalue()
        obs["files"] = [l.strip() for l in text.split("Generated files:")[1].splitlines() if l.strip()] if "Generated files:" in text else None
    except BaseException as e:  # noqa: BLE001
        obs.update({"outcome": "error", "cls": type(e).__name__, "typed": isinstance(e, CodeGenException), "msg": str(e),
                    "phase": phase_of(e)})
    after = snapshot(out_dir)
    obs["changes"] = changes_of(before, after, strategy)
    inputs_after = snapshot(root)
    obs["inputs_changed"] = sorted(k for k in set(inputs_before) | set(inputs_after)
                                   if not k.startswith("out") and "__pycache__" not in k and inputs_before.get(k) != inputs_after.get(k))
    return {"line": line, "obs": obs, "triggers": trig, "root": str(root)}


# --------------------------------------------------------------------------------------------
# plans
# --------------------------------------------------------------------------------------------

INVALID = "invalid"


def P(label: str, expect: Optional[Dict[str, Any]], **kw: Any) -> Dict[str, Any]:
    return {"label": label, "expect": expect, **kw}


def exp_invalid(kind: str, cls: Optional[str] = None, mention: Optional[str] = None) -> Dict[str, Any]:
    return {"invalid": kind, "cls": cls, "mention": mention}


ACCEPT = {"accept": True}
SHORTER = "ariadne_codegen.contrib.shorter_results.ShorterResultsPlugin"

PIPELINE_CFG_VIOLATIONS: List[Tuple[str, Dict[str, Any], str, Optional[str]]] = [
    ("no-schema-source", {"schema_path": None}, "InvalidConfiguration", "schema_path"),
    ("schema-path-missing", {"schema_path": "<ROOT>/nope"}, "InvalidConfiguration", "/nope"),
    ("queries-path-not-given", {"queries_path": None}, "MissingConfiguration", "queries_path"),
    ("queries-path-missing", {"queries_path": "<ROOT>/nope.graphql"}, "InvalidConfiguration", "/nope.graphql"),
    ("package-name-keyword", {"target_package_name": "import"}, "InvalidConfiguration", "import"),        # C17-F1 (fixed)
    ("client-name-keyword", {"client_name": "class"}, "InvalidConfiguration", "class"),                 # C17-F1 (fixed)
    ("client-file-name-bad", {"client_file_name": "a-b"}, "InvalidConfiguration", "a-b"),
    ("enums-module-bad", {"enums_module_name": "not-valid"}, "InvalidConfiguration", "not-valid"),
    ("inputs-module-bad", {"input_types_module_name": "1x"}, "InvalidConfiguration", "1x"),
    ("fragments-module-bad", {"fragments_module_name": "not-valid"}, "InvalidConfiguration", "not-valid"),   # C17-F2 (fixed)
    ("fragments-module-keyword", {"fragments_module_name": "class"}, "InvalidConfiguration", "class"),      # C17-F2 (fixed)
    ("fragments-module-space", {"fragments_module_name": "a b"}, "InvalidConfiguration", "a b"),            # C17-F2 (fixed)
    ("package-path-missing", {"target_package_path": "<ROOT>/nodir"}, "InvalidConfiguration", "/nodir"),
    ("comment-mode-unknown", {"include_comments": "sometimes"}, "InvalidConfiguration", "sometimes"),
    ("scalar-without-type", {"scalars": {"DT": {"parse": "m.p"}}}, "MissingConfiguration", "type"),
    ("header-env-missing", {"remote_schema_headers": {"A": "$C17_NOPE"}}, "InvalidConfiguration", "C17_NOPE"),
    ("base-class-absent", {"base_client_name": "Nope", "base_client_file_path": "<ROOT>/custom_base.py"}, "InvalidConfiguration", "Nope"),
    ("base-file-missing", {"base_client_name": "X", "base_client_file_path": "<ROOT>/nope.py"}, "InvalidConfiguration", "/nope.py"),
    ("file-to-include-missing", {"files_to_include": ["<ROOT>/nope.py"]}, "InvalidConfiguration", "/nope.py"),
    ("file-to-include-is-dir", {"files_to_include": ["<ROOT>/inc1.py", "<ROOT>/out"]}, "InvalidConfiguration", "/out"),
    ("queries-path-missing+custom-operations", {"queries_path": "<ROOT>/nope.graphql", "enable_custom_operations": True}, "InvalidConfiguration",
     "/nope.graphql"),
    ("queries-path-missing-dir+custom-operations+sync", {"queries_path": "<ROOT>/no/such/dir", "enable_custom_operations": True, "async_client": False},
     "InvalidConfiguration", "/no/such/dir"),
    ("package-path-is-file", {"target_package_path": "<ROOT>/inc1.py"}, "InvalidConfiguration", "/inc1.py"),
    ("base-file-is-dir", {"base_client_name": "MyBaseClient", "base_client_file_path": "<ROOT>/out"}, "InvalidConfiguration", "/out"),
]

PLUGIN_FAULTS: List[Tuple[str, List[str], List[Optional[str]]]] = [
    ("plugin-module-missing", ["nope_mod.Nope"], ["x"]),
    ("plugin-no-dots", ["nodots"], ["x"]),
    ("plugin-class-missing", ["ariadne_codegen.contrib.shorter_results.NoSuchPlugin"], ["x"]),
    ("plugin-not-a-plugin", [SHORTER, "ariadne_codegen.plugins.base.Plugin"], [None, "x"]),
]


def as_dir(text: str, bad_file: Optional[str] = None) -> Dict[str, str]:
    """split a document over a directory tree (definitions separated by blank-line-free newlines)"""
    lines = [l for l in text.strip().splitlines() if l.strip()]
    half = max(1, len(lines) // 2)
    d = {"b_second.graphql": "\n".join(lines[half:]) or "# empty half\n" + lines[0], "a_first.gql": "\n".join(lines[:half]),
         "notes.txt": "not graphql {"}
    if len(lines) < 2:
        d = {"only.graphqls": text, "notes.txt": "not graphql {"}
    if bad_file:
        d["sub/zz_bad.graphql"] = bad_file
    return d


def fixed_plans() -> List[Dict[str, Any]]:
    plans: List[Dict[str, Any]] = []
    # A. valid inputs are accepted (incl. look-alikes of invalid ones)
    for name, q in D.VALID_QUERIES.items():
        facts = {k: q[k] for k in ("frag_unpacked", "frag_err") if k in q}
        plans.append(P(f"valid/{name}", ACCEPT, queries=q["doc"], facts=facts))
    plans.append(P("valid/dirs+preexisting", ACCEPT, schema=as_dir(D.BASE_SCHEMA), queries=as_dir(D.BASE_QUERIES), preexisting="files"))
    plans.append(P("valid/sync+custom-base+plugin", ACCEPT, preexisting="empty",
                   cfg={"async_client": False, "base_client_name": "MyBaseClient", "base_client_file_path": "<ROOT>/custom_base.py",
                        "files_to_include": ["<ROOT>/inc1.py"], "plugins": [SHORTER], "client_name": "match", "fragments_module_name": "frags"},
                   facts={"plugin_resolve": [None]}))
    plans.append(P("valid/custom-operations", ACCEPT, cfg={"enable_custom_operations": True, "queries_path": None}))
    plans.append(P("valid/custom-operations+queries", ACCEPT, cfg={"enable_custom_operations": True, "opentelemetry_client": True}))
    plans.append(P("valid/plugin-module-string", ACCEPT, cfg={"plugins": ["os.path"]}, facts={"plugin_resolve": [None]}))
    # B. invalid schemas, one per rule, both strategies
    for label, (sdl, doc) in D.INVALID_SCHEMAS.items():
        facts: Dict[str, Any] = {}
        if label == "schema:EmptyEnum":
            facts["code_error"] = [["enums", "InvalidInput"]]
        if label == "schema:InputWithoutFields":
            facts["code_error"] = [["inputTypes", "InvalidInput"]]
        plans.append(P(f"invalid-schema/{label}", exp_invalid("schema"), schema=sdl, queries=doc, facts=facts))
        plans.append(P(f"invalid-schema/gs/{label}", exp_invalid("schema"), strategy="graphqlschema", schema=sdl))
    plans.append(P("invalid-schema/dir+preexisting", exp_invalid("schema"), schema=as_dir(D.INVALID_SCHEMAS["schema:InterfaceFieldMissing"][0]),
                   queries="query Q { n { id } }", preexisting="files"))
    # C. invalid operations, one per rule
    for label, doc in D.INVALID_OPERATIONS.items():
        plans.append(P(f"invalid-operation/{label}", exp_invalid("operation", "InvalidOperationForSchema"), queries=doc))
    plans.append(P("invalid-operation/dir+preexisting", exp_invalid("operation", "InvalidOperationForSchema"),
                   queries=as_dir(D.BASE_QUERIES + "\nquery Bad { zzz }"), preexisting="files"))
    # D. syntax errors
    plans += [
        P("syntax/schema-file", exp_invalid("syntax", "InvalidGraphqlSyntax", "schema.graphql"), schema=D.SYNTAX_ERRORS["schema"]),
        P("syntax/schema-dir-file", exp_invalid("syntax", "InvalidGraphqlSyntax", "zz_bad.graphql"), schema=as_dir(D.BASE_SCHEMA, D.SYNTAX_ERRORS["schema"])),
        P("syntax/queries-file", exp_invalid("syntax", "InvalidGraphqlSyntax", "queries.graphql"), queries=D.SYNTAX_ERRORS["queries"], preexisting="files"),
        P("syntax/queries-dir-file", exp_invalid("syntax", "InvalidGraphqlSyntax", "zz_bad.graphql"), queries=as_dir(D.BASE_QUERIES, D.SYNTAX_ERRORS["queries"])),
        P("syntax/schema-empty-file", exp_invalid("syntax", "InvalidGraphqlSyntax", "schema.graphql"), schema=""),
        P("syntax/queries-comment-only", exp_invalid("syntax", "InvalidGraphqlSyntax", "queries.graphql"), queries="# nothing here\n"),
        P("syntax/gs/schema-file", exp_invalid("syntax", "InvalidGraphqlSyntax", "schema.graphql"), strategy="graphqlschema", schema=D.SYNTAX_ERRORS["schema"], preexisting="files"),
        P("syntax/schema-dir-no-graphql-files", exp_invalid("syntax"), schema={"readme.txt": "x"}),
        P("syntax/queries-dir-no-graphql-files", exp_invalid("syntax"), queries={"readme.txt": "x"}),
        P("syntax/gs/schema-dir-no-graphql-files", exp_invalid("syntax"), strategy="graphqlschema", schema={"readme.txt": "x"}),
    ]
    # E. ariadne-codegen's own refusals
    for label, r in D.OWN_REFUSALS.items():
        facts = {k: r[k] for k in ("op_err", "frag_err") if k in r}
        for pre in ("none", "files"):
            plans.append(P(f"refusal/{label}/{pre}", exp_invalid("refusal", r["cls"]), queries=r["doc"], facts=facts, preexisting=pre,
                           cfg={"async_client": False} if r.get("needs_sync") else {}))
    # F. plugin lookup failures
    for label, plugins, resolve in PLUGIN_FAULTS:
        plans.append(P(f"plugin/{label}", exp_invalid("plugin", "PluginImportError"), cfg={"plugins": plugins}, facts={"plugin_resolve": resolve}))
        plans.append(P(f"plugin/gs/{label}", exp_invalid("plugin", "PluginImportError"), strategy="graphqlschema", cfg={"plugins": plugins},
                       facts={"plugin_resolve": resolve}))
    # G. configuration violations through the whole command
    for label, over, cls, mention in PIPELINE_CFG_VIOLATIONS:
        plans.append(P(f"config/{label}", exp_invalid("config", cls, mention), cfg=over, preexisting="files"))
    plans.append(P("config/fragments-module-bad+fragment", exp_invalid("config", "InvalidConfiguration", "not-valid"),
                   cfg={"fragments_module_name": "not-valid"}, facts={"code_error": [["resultTypes:get_u.py", "InvalidInput"]]}))
    plans.append(P("config/fragments-module-keyword+no-fragment", exp_invalid("config", "InvalidConfiguration", "class"),
                   cfg={"fragments_module_name": "class"}, queries="query GetA { a }"))
    plans.append(P("config/fragments-module-bad+preexisting", exp_invalid("config", "InvalidConfiguration", "not-valid"), preexisting="files",
                   cfg={"fragments_module_name": "not-valid"}, facts={"code_error": [["resultTypes:get_u.py", "InvalidInput"]]}))
    plans.append(P("config/fragments-module-with-space", exp_invalid("config", "InvalidConfiguration", "a b"), preexisting="files",
                   cfg={"fragments_module_name": "a b"}))   # before 0686a80 even the emitted `from .a b import ...` got through: a broken package, no error
    plans.append(P("config/base-class-prefix-only", exp_invalid("config", "InvalidConfiguration", "MyBase"),
                   cfg={"base_client_name": "MyBase", "base_client_file_path": "<ROOT>/custom_base.py"}))
    for label, over, mention in (("bad-suffix", {"target_file_path": "<ROOT>/out/schema.txt"}, "schema.txt"),
                                 ("no-suffix", {"target_file_path": "<ROOT>/out/schema"}, "schema"),
                                 ("variable-keyword", {"schema_variable_name": "def"}, "def"),
                                 ("type-map-bad", {"type_map_variable_name": "a-b"}, "a-b"),
                                 ("no-schema-source", {"schema_path": None}, "schema_path")):
        plans.append(P(f"config/gs/{label}", exp_invalid("config", "InvalidConfiguration", mention), strategy="graphqlschema", cfg=over, preexisting="files"))
    # J. a plugin that swaps the schema for one built WITHOUT assume_valid: the only way assert_valid_schema can fire
    bad_sdl = D.INVALID_SCHEMAS["schema:InterfaceFieldMissing"][0]
    plans.append(P("replaced-schema/invalid", None, cfg={"plugins": ["c17_plugin.ReplacingPlugin"]}, preexisting="files",
                   facts={"plugin_resolve": [None], "replacing_sdl": bad_sdl, "replaces": {"cache": None, "trueErrors": 1}}))
    plans.append(P("replaced-schema/valid", ACCEPT, cfg={"plugins": ["c17_plugin.ReplacingPlugin"]},
                   facts={"plugin_resolve": [None], "replacing_sdl": D.BASE_SCHEMA, "replaces": {"cache": None, "trueErrors": 0, "hasMutation": True}}))
    plans.append(P("replaced-schema/gs/invalid", None, strategy="graphqlschema", cfg={"plugins": ["c17_plugin.ReplacingPlugin"]},
                   facts={"plugin_resolve": [None], "replacing_sdl": bad_sdl, "replaces": {"cache": None, "trueErrors": 1}}))
    # K. graphqlschema strategy, valid
    plans.append(P("valid/gs/py", ACCEPT, strategy="graphqlschema"))
    plans.append(P("valid/gs/graphql+preexisting", ACCEPT, strategy="graphqlschema", cfg={"target_file_path": "<ROOT>/out/schema.graphql"}, preexisting="files"))
    plans.append(P("gs/target-directory-missing", None, strategy="graphqlschema", cfg={"target_file_path": "<ROOT>/out/nodir/schema.py"},
                   facts={"write_error": {"k": "raw", "cls": "FileNotFoundError"}}))
    return plans


def fault_pool() -> Dict[str, List[Tuple[str, Dict[str, Any]]]]:
    """faults by the slot of the plan they occupy (two faults of different slots compose)"""
    pool: Dict[str, List[Tuple[str, Dict[str, Any]]]] = {"cfg": [], "schema": [], "queries": [], "plugins": []}
    for label, over, _, _ in PIPELINE_CFG_VIOLATIONS:
        pool["cfg"].append((label, {"cfg": over}))
    pool["cfg"].append(("sync-client", {"cfg": {"async_client": False}}))     # not a fault by itself: makes subscriptions one
    pool["schema"].append(("schema-syntax", {"schema": D.SYNTAX_ERRORS["schema"]}))
    pool["schema"].append(("schema-dir-syntax", {"schema": as_dir(D.BASE_SCHEMA, D.SYNTAX_ERRORS["schema"])}))
    pool["schema"].append(("schema-unknown-type", {"schema": D.BASE_SCHEMA + "\ntype Extra { x: Missing }"}))
    pool["schema"].append(("schema-invalid-accepted", {"schema": D.BASE_SCHEMA + "\ntype Extra implements Node { x: Int }"}))
    pool["schema"].append(("schema-no-files", {"schema": {"readme.txt": "x"}}))
    for label, plugins, resolve in PLUGIN_FAULTS:
        pool["plugins"].append((label, {"cfg": {"plugins": plugins}, "facts": {"plugin_resolve": resolve}}))
    pool["queries"].append(("queries-syntax", {"queries": D.SYNTAX_ERRORS["queries"]}))
    for label in ("FieldsOnCorrectTypeRule", "NoUnusedVariablesRule", "UniqueOperationNamesRule", "NoFragmentCyclesRule", "LoneAnonymousOperationRule"):
        pool["queries"].append((label, {"queries": D.INVALID_OPERATIONS[label]}))
    for label, r in D.OWN_REFUSALS.items():
        if not r.get("needs_sync"):
            pool["queries"].append((label, {"queries": r["doc"], "facts": {k: r[k] for k in ("op_err", "frag_err") if k in r}}))
    pool["queries"].append(("anonymous+collision", {"queries": "query client { a }\n{ a }"}))
    pool["queries"].append(("subscription+mixin-field", {"queries": 'subscription S { tick @mixin(from: "x") }', "facts": {"op_err": {"S": D.PARSING}}}))
    pool["queries"].append(("subscription", {"queries": "subscription S { tick }"}))
    pool["queries"].append(("collision+mixin-fragment", {"queries": 'query client { u(id: "1") { ...UF } }\nfragment UF on User @mixin(from: "x") { id }',
                                                         "facts": {"frag_err": {"UF": D.PARSING}}}))
    pool["queries"].append(("queries-no-files", {"queries": {"readme.txt": "x"}}))
    return pool


def pair_plans(ctx: Ctx, n: int) -> List[Dict[str, Any]]:
    rng = ctx.sub_rng("fault-pairs")
    pool = fault_pool()
    slots = list(pool)
    plans = []
    for _ in range(n):
        k = rng.choice([2, 2, 2, 3])
        chosen = rng.sample(slots, k)
        plan: Dict[str, Any] = {"cfg": {}, "facts": {}}
        labels = []
        for slot in chosen:
            label, patch = rng.choice(pool[slot])
            labels.append(label)
            for key, val in patch.items():
                if key in ("cfg", "facts"):
                    plan[key].update(copy.deepcopy(val))
                else:
                    plan[key] = copy.deepcopy(val)
        plan["preexisting"] = rng.choice(["none", "empty", "files"])
        plan["label"] = "pair/" + "+".join(labels)
        plan["expect"] = None if labels == ["sync-client"] else exp_invalid("pair")
        if set(labels) <= {"sync-client", "subscription"} and "subscription" not in labels:
            plan["expect"] = None
        if labels and all(l in ("sync-client",) for l in labels):
            plan["expect"] = ACCEPT
        if sorted(labels) == ["subscription"]:
            plan["expect"] = ACCEPT
        plans.append(plan)
    return plans


# --------------------------------------------------------------------------------------------
# judging pipeline runs
# --------------------------------------------------------------------------------------------

DUP_PREFIX = "Duplicated file names: "


def _msg_key(cls: str, msg: str) -> Any:
    if msg.startswith(MISSING_PREFIX):
        return ["missing", sorted(x for x in msg[len(MISSING_PREFIX):].split(", ") if x)]
    if msg.startswith(DUP_PREFIX):
        return ["duplicated", sorted(x for x in msg[len(DUP_PREFIX):].split(",") if x)]
    return msg


def impl_view(obs: Dict[str, Any], strategy: str) -> Dict[str, Any]:
    v: Dict[str, Any] = {"outcome": obs["outcome"], "changes": sorted(set(obs["changes"]))}
    if obs["outcome"] == "ok":
        if strategy == "client":
            v["files"] = sorted(obs.get("files") or [])
    else:
        v.update({"phase": obs["phase"], "cls": obs["cls"], "typed": obs["typed"], "msg": _msg_key(obs["cls"], obs["msg"])})
    return v


def model_view(m: Dict[str, Any], strategy: str) -> Dict[str, Any]:
    log = [("write:" + Path(x[6:]).name if strategy != "client" and x.startswith("write:") else x) for x in m["log"]]
    r = m["result"]
    v: Dict[str, Any] = {"outcome": "ok" if "ok" in r else "error", "changes": sorted(set(log))}
    if "ok" in r:
        if strategy == "client":
            v["files"] = sorted(r["ok"])
    else:
        v.update({"phase": r["phase"], "cls": r["cls"], "typed": r["typed"], "msg": _msg_key(r["cls"], r["msg"])})
    return v


def same_view(a: Dict[str, Any], b: Dict[str, Any]) -> bool:
    """messages are compared only where the model renders one (its own data), not for texts of third parties"""
    a, b = dict(a), dict(b)
    if b.get("msg") in ("", None) or b.get("typed") is False:      # the text of a bare Python exception is CPython's
        a.pop("msg", None)
        b.pop("msg", None)
    return common.same_json(a, b)


def oracle_plan(plan: Dict[str, Any], obs: Dict[str, Any]) -> List[Tuple[str, str]]:
    """THE PROPERTY on one real run; returns (signature, detail) for every clause that fails."""
    out: List[Tuple[str, str]] = []
    exp = plan.get("expect")
    if obs.get("inputs_changed"):
        out.append(("inputs-modified", f"changed outside the target: {obs['inputs_changed'][:5]}"))
    if exp is None:
        return out
    if exp.get("accept"):
        if obs["outcome"] != "ok":
            out.append(("valid-input-rejected", f"{obs['cls']} in {obs['phase']}: {obs['msg'][:200]}"))
        return out
    if obs["outcome"] == "ok":
        out.append(("invalid-input-accepted", f"{plan['label']}: the command succeeded and wrote {len(obs['changes'])} entries"))
        return out
    if not obs["typed"]:
        out.append(("untyped-exception", f"{plan['label']}: {obs['cls']} in {obs['phase']}: {obs['msg'][:160]}"))
    elif exp.get("cls") and obs["cls"] != exp["cls"]:
        out.append(("wrong-exception-class", f"{plan['label']}: {obs['cls']} instead of {exp['cls']}: {obs['msg'][:160]}"))
    elif exp.get("mention") and exp["mention"] not in obs["msg"]:
        out.append(("message-does-not-name-problem", f"{plan['label']}: {obs['msg'][:160]!r} lacks {exp['mention']!r}"))
    if obs["changes"]:
        out.append(("written-before-failure", f"{plan['label']}: {obs['cls']} in {obs['phase']} after {obs['changes'][:6]}"))
    return out


def pick_trigger(active: List[str], sig: str, findings: List[Dict[str, Any]]) -> Optional[str]:
    for t in active:
        for f in findings:
            sigs = f.get("signature")
            sigs = sigs if isinstance(sigs, list) else [sigs]
            if f.get("status") == "open" and f.get("trigger") == t and sig in sigs:
                return t
    return None


def judge_plans(ctx: Ctx, st: Optional[LeanStatus], res: Result, plans: List[Dict[str, Any]], tag: str = "pipeline") -> List[Dict[str, Any]]:
    """runs every plan for real (forked), compares with the model, applies the oracle; returns per-plan verdicts"""
    findings = common.load_findings(ctx.prop)
    warnings.filterwarnings("ignore", message=".*multi-threaded.*", category=DeprecationWarning)   # mp queue feeder threads + fork: noise
    outs = engine.pmap_forked(run_plan, [(p,) for p in plans], timeout=180)
    ok_idx = [i for i, (s, _) in enumerate(outs) if s == "ok" and "obs" in outs[i][1]]
    model: Dict[int, Any] = {}
    if st is not None and st.driver_ok and ok_idx:
        mo = common.run_driver(ctx.prop, [outs[i][1]["line"] for i in ok_idx], chunk=100)
        model = dict(zip(ok_idx, mo))
    verdicts: List[Dict[str, Any]] = []
    for i, plan in enumerate(plans):
        status, r = outs[i]
        shown = dict(plan)
        if status != "ok":
            if status == "timeout":
                raise common.Infra(f"plan {plan['label']} timed out")
            res.mismatches.append(Mismatch(tag, shown, f"harness child failed: {r[0]}: {r[1][:200]} {r[2][-300:]}", None))
            verdicts.append({"failed": []})
            continue
        if "observer" in r:
            res.mismatches.append(Mismatch(tag, shown, "observer: " + r["observer"], None))
            verdicts.append({"failed": []})
            continue
        obs, strategy, root = r["obs"], plan.get("strategy", "client"), r["root"]
        unroot = lambda x: json.loads(json.dumps(x).replace(root, "<ROOT>"))  # noqa: E731
        iv = unroot(impl_view(obs, strategy))
        active = r["triggers"]
        res.seen([plan.get("strategy"), plan.get("schema"), plan.get("queries"), plan.get("cfg"), plan.get("preexisting"), plan.get("facts")])
        res.count(f"{tag}:{strategy}:" + (obs["phase"] + ":" + obs["cls"] if obs["outcome"] == "error" else "ok"))
        res.count(f"{tag}:preexisting:" + plan.get("preexisting", "none"))
        for t in active:
            res.count(f"{tag}:inside-trigger:" + t)
        if strategy == "client" and in_old_f2_region([(plan.get("cfg") or {}).get("fragments_module_name")]):
            res.count(f"{tag}:inside-old-C17-F2-region")
        if i in model:
            mv = unroot(model_view(model[i], strategy))
            improved = (ILL in model[i].get("triggers", []) and obs["outcome"] == "error" and obs["typed"] and obs["phase"] == "settings"
                        and not obs["changes"])      # C17-F8 region, now a typed refusal without side effects
            if not same_view(iv, mv):
                inside = active[0] if active and (plan.get("facts") or {}).get("code_error") else (ILL if improved else None)
                res.mismatches.append(Mismatch(tag, shown, iv, mv, trigger=inside))
            if sorted(model[i].get("triggers", [])) != sorted(active):
                res.mismatches.append(Mismatch(tag + "-triggers", shown, sorted(active), sorted(model[i].get("triggers", [])),
                                               trigger=ILL if improved else None))
        exp = plan.get("expect") or {}
        if exp.get("invalid") == "schema" and r["line"]["schema"]["buildError"] is None and r["line"]["schema"]["trueErrors"] == 0:
            res.count(f"{tag}:labelled-invalid-schema-but-graphql-core-finds-it-valid (not judged)")
            plan = {**plan, "expect": None}
        failed = oracle_plan(plan, obs)
        for sig, detail in failed:
            res.failures.append(Failure(sig, pick_trigger(active, sig, findings), shown, detail))
        verdicts.append({"failed": [s for s, _ in failed], "view": iv})
        if len(res.samples) < 6 and plan["label"] in ("invalid-operation/FieldsOnCorrectTypeRule", "refusal/mixin-fragment/files", "valid/base"):
            res.sample({"input": shown, "impl": iv, "model": unroot(model_view(model[i], strategy)) if i in model else None})
    return verdicts


# --------------------------------------------------------------------------------------------
# schema.py at function level: file / directory tree -> one document
# --------------------------------------------------------------------------------------------

EXTRA_DOCS = {
    "strings": '"""doc with { brace"""\ntype Query { a(x: String = "}{", y: [Int!] = [1, 2]): Int @deprecated(reason: "x # y") }\n# trailing comment',
    "ops": 'query Q($a: Int = 1, $b: [ID!]) { u(id: "1") { ... on User { id } ...F @skip(if: true) } }\nfragment F on User { name }',
    "sdl": "directive @d(x: Int) repeatable on FIELD | OBJECT\nextend type Query @d { z: Int }\nschema { query: Query }\nunion U = | A | B\nenum E { A B }",
}


def token_offsets(text: str) -> List[int]:
    """start offsets of the tokens of a document (graphql-core's lexer asked directly)"""
    from graphql import Lexer, Source, TokenKind

    lexer = Lexer(Source(text))
    out = []
    tok = lexer.advance()
    while tok.kind != TokenKind.EOF:
        out.append(tok.start)
        tok = lexer.advance()
    return out


def split_at(text: str, cuts: List[int], names: Tuple[str, ...] = ("a_1.graphql", "b_2.gql", "c_3.graphqls")) -> Dict[str, str]:
    parts = [text[i:j] for i, j in zip([0] + cuts, cuts + [len(text)])]
    return {n: t for n, t in zip(names, parts)}


def source_cases(ctx: Ctx) -> List[Tuple[str, Any]]:
    """(label, tree) — tree: str = a single file, dict = {relative path: text | bytes | None (= an empty directory)}"""
    rng = ctx.sub_rng("sources")
    cases: List[Tuple[str, Any]] = []
    docs = {"schema": D.BASE_SCHEMA.strip(), "queries": D.BASE_QUERIES.strip(), **EXTRA_DOCS}
    for dname, text in docs.items():
        offs = token_offsets(text)[1:]
        for o in offs:                                        # every token boundary, two files
            cases.append((f"split2/{dname}@{o}", split_at(text, [o])))
        for _ in range(ctx.budget(25, 400)):                  # pairs of boundaries, three files
            if len(offs) >= 2:
                a, b = sorted(rng.sample(offs, 2))
                cases.append((f"split3/{dname}@{a},{b}", split_at(text, [a, b])))
        cases.append((f"single/{dname}", text))
    v = "type Query { a: Int }"
    fixed: List[Tuple[str, Any]] = [
        ("neighbour/empty-file", {"a.graphql": v, "b.graphql": ""}),
        ("neighbour/comment-only", {"a.graphql": "# nothing but a comment\n", "b.graphql": v}),
        ("neighbour/whitespace-only", {"a.graphql": v, "z.gql": " \n\t,,\n"}),
        ("neighbour/bom-only", {"a.graphql": v, "b.graphqls": "﻿"}),
        ("seed/unclosed+closing", {"a_users.graphql": "query GetA {\n  a\n", "b_rest.graphql": "}\n"}),
        ("seed/three-way", {"a.graphql": "type Query {", "m.graphql": "a: Int", "z.graphql": "}"}),
        ("only-invalid-last", {"a.graphql": v, "b.graphql": "type B { b: Int }", "c.graphql": "type C {"}),
        ("single/empty", ""), ("single/comment", "# c\n"), ("single/invalid", "type Query {"),
        ("order/components-not-strings", {"a/x.graphql": "type Query { a: Int }", "a.b/y.graphql": "type Y { y: Int }", "a-b/z.graphql": "type Z { z: Int }",
                                          "a.graphql": "type A { a: Int }"}),
        ("order/case", {"B.graphql": "type B { b: Int }", "a.graphql": "type Query { a: Int }", "_c.graphql": "type C { c: Int }"}),
        ("order/invalid-first-in-subdir", {"b.graphql": v, "a/deep/x.gql": "type X {", "c.graphql": "type C {"}),
        ("suffix/ignored", {"a.graphql": v, "b.GRAPHQL": "}", ".graphql": "}", "c.graphql.bak": "}", "d.txt": "}", "e.gqls": "}", "graphql": "}"}),
        ("suffix/three-kinds", {"a.graphql": v, "b.graphqls": "type B { b: Int }", "c.gql": "type C { c: Int }", "sub/.hidden.gql": "type H { h: Int }"}),
        ("suffix/invalid-gql", {"a.graphql": v, "b.gql": "type B {"}),
        ("suffix/invalid-graphqls", {"a.graphql": v, "b.graphqls": "type B {"}),
        ("suffix/invalid-graphql-after-gql", {"a.gql": v, "b.graphql": "}"}),
        ("hidden/invalid-dot-file", {"a.graphql": v, ".hidden.gql": "type H {"}),
        ("hidden/invalid-file-in-dot-directory", {"a.graphql": v, ".drafts/x.graphql": "}"}),
        ("hidden/invalid-deep", {"a.graphql": v, "sub/.cache/deep/y.graphqls": "type Y {"}),
        ("none/no-graphql-files", {"readme.txt": "x"}),
        ("none/empty-dir", {}),
        ("none/only-subdirs", {"a/b": None}),
        ("joined/each-parses-concatenation-does-not", {"a.graphql": "type Query { a: Int }\ntype A", "b.graphql": "{ a }"}),
        ("joined/each-parses-concatenation-does-not-2", {"a.graphql": "type Query { a: Int }\nscalar S", "b.graphql": "@d { a }"}),
        ("unreadable/dir-with-suffix", {"a.graphql": v, "v1.graphql/inner.gql": "type I { i: Int }"}),
        ("unreadable/not-utf8", {"a.graphql": v, "b.graphql": b"\xff\xfe type B"}),
    ]
    return cases + fixed


def lay_tree(root: Path, tree: Any) -> Path:
    if isinstance(tree, str):
        p = root / "single.graphql"
        p.write_text(tree, encoding="utf-8")
        return p
    d = root / "src"
    d.mkdir()
    for rel, content in tree.items():
        f = d / rel
        if content is None:
            f.mkdir(parents=True, exist_ok=True)
            continue
        f.parent.mkdir(parents=True, exist_ok=True)
        if isinstance(content, bytes):
            f.write_bytes(content)
        else:
            f.write_text(content, encoding="utf-8")
    return d


def judge_sources(ctx: Ctx, st: Optional[LeanStatus], res: Result) -> None:
    """`load_graphql_files_from_path` + `parse` (the real functions, in-process) against Model/SourceLoad.lean, and the
    property at this level: a file that does not parse on its own must be refused with InvalidGraphqlSyntax naming such a file."""
    try:
        from graphql import GraphQLSyntaxError, parse

        from ariadne_codegen import schema as ac_schema
        from ariadne_codegen.exceptions import CodeGenException
    except (ImportError, AttributeError) as e:
        res.mismatches.append(Mismatch("source", {}, "observer: " + repr(e), None))
        return
    cases = source_cases(ctx)
    base = Path(tempfile.mkdtemp(prefix=engine.SCRATCH_PREFIX, dir=engine.scratch_root())).resolve()
    lines, obs_list, facts = [], [], []
    try:
        for i, (label, tree) in enumerate(cases):
            root = base / f"c{i}"
            root.mkdir()
            p = lay_tree(root, tree)
            src, listing, joined = source_json(str(p))
            lines.append({"op": "loadSource", "source": src})
            facts.append((listing, joined))
            o: Dict[str, Any] = {}
            try:
                o["walk"] = [str(f) for f in sorted(ac_schema.walk_graphql_files(p))] if p.is_dir() else [str(p.resolve())]
            except (AttributeError, TypeError) as e:
                o["walk"] = "observer: " + repr(e)
            try:
                text = ac_schema.load_graphql_files_from_path(p)
                try:
                    parse(text)
                    o["result"] = {"ok": text}
                except GraphQLSyntaxError:
                    o["result"] = {"err": {"cls": "GraphQLSyntaxError", "msg": None, "typed": False}}
            except (AttributeError, TypeError) as e:
                o["result"] = {"observer": repr(e)}
            except BaseException as e:  # noqa: BLE001
                typed = isinstance(e, CodeGenException)
                o["result"] = {"err": {"cls": type(e).__name__, "msg": str(e) if typed else None, "typed": typed}}
            obs_list.append(o)
    finally:
        shutil.rmtree(base, ignore_errors=True)
    model = common.run_driver(ctx.prop, lines, chunk=500) if st is not None and st.driver_ok else None
    findings = common.load_findings(ctx.prop)
    for i, ((label, tree), o) in enumerate(zip(cases, obs_list)):
        shown = {"label": "source/" + label, "tree": {k: (v if not isinstance(v, bytes) else repr(v)) for k, v in tree.items()} if isinstance(tree, dict) else tree}
        unroot = lambda x, i=i: json.loads(json.dumps(x).replace(str(base / f"c{i}"), "<ROOT>"))  # noqa: E731
        res.seen(["source", shown["tree"]])
        r = o["result"]
        if "observer" in r or isinstance(o["walk"], str):
            res.mismatches.append(Mismatch("source", shown, "observer: " + str(r.get("observer") or o["walk"]), None))
            continue
        listing, joined = facts[i]
        res.count("source:" + ("ok" if "ok" in r else r["err"]["cls"]))
        if model is not None:
            m = model[i]
            mr = m["result"]
            mv = {"ok": mr["ok"]} if "ok" in mr else {"err": {"cls": mr["err"]["cls"], "msg": mr["err"]["msg"]}}
            iv = {"ok": r["ok"]} if "ok" in r else {"err": {"cls": r["err"]["cls"], "msg": r["err"]["msg"]}}
            if not common.same_json(unroot(iv), unroot(mv)) or unroot(o["walk"]) != unroot(m["files"]):
                res.mismatches.append(Mismatch("source", shown, unroot({"result": iv, "walk": o["walk"]}), unroot({"result": mv, "walk": m["files"]})))
        # the property, from graphql-core's verdicts alone
        unreadable = any(k for k in ([] if not isinstance(tree, dict) else tree) if isinstance(tree[k], bytes)) or label.startswith("unreadable/")
        if unreadable:
            continue
        individually_bad = [f for f, ok in listing if not ok]
        if individually_bad:
            res.count("source:some-file-invalid-on-its-own")
            if "ok" in r:
                res.failures.append(Failure("invalid-input-accepted", None, shown,
                                            f"source/{label}: {Path(individually_bad[0]).name} does not parse on its own but the directory was loaded"))
            elif not r["err"]["typed"] or r["err"]["cls"] != "InvalidGraphqlSyntax":
                res.failures.append(Failure("untyped-exception" if not r["err"]["typed"] else "wrong-exception-class", None, shown,
                                            f"source/{label}: {r['err']['cls']} for a file that does not parse on its own"))
            elif not any(f in (r["err"]["msg"] or "") for f in individually_bad):
                res.failures.append(Failure("message-does-not-name-problem", None, shown, f"source/{label}: {unroot(r['err']['msg'])!r} names none of the invalid files"))
        elif joined is None:
            trig = "noGraphqlFiles" if not listing else "joinedNotParsable"
            res.count("source:inside-trigger:" + trig)
            if "ok" in r:
                res.failures.append(Failure("invalid-input-accepted", pick_trigger([trig], "invalid-input-accepted", findings), shown, f"source/{label}"))
            elif not r["err"]["typed"]:
                res.failures.append(Failure("untyped-exception", pick_trigger([trig], "untyped-exception", findings), shown,
                                            f"source/{label}: bare {r['err']['cls']}"))
        else:
            if "err" in r:
                res.failures.append(Failure("valid-input-rejected", None, shown, f"source/{label}: {r['err']['cls']}: {unroot(r['err']['msg'])}"))
            # (WHICH text is loaded from valid files - their order, a file left out - is not C17's subject: it is compared
            #  with the model above, and judged by C19 / C10)
    res.extra["source_cases"] = len(cases)


def split_plans(ctx: Ctx) -> List[Dict[str, Any]]:
    """a sample of the splits through the WHOLE command (typed refusal, nothing written); expectations from graphql-core alone"""
    rng = ctx.sub_rng("split-plans")
    plans: List[Dict[str, Any]] = []

    def add(label: str, slot: str, tree: Dict[str, str], pre: str = "none") -> None:
        names = sorted(n for n in tree if Path(n).suffix in EXTS)
        bad = [n for n in names if not gql_parses(tree[n])]
        exp = exp_invalid("syntax", "InvalidGraphqlSyntax", bad[0]) if bad else ACCEPT
        plans.append(P(f"split/{slot}/{label}", exp, preexisting=pre, **{slot: tree}))

    for slot, text in (("schema", D.BASE_SCHEMA.strip()), ("queries", D.BASE_QUERIES.strip())):
        offs = token_offsets(text)[1:]
        for o in rng.sample(offs, min(len(offs), ctx.budget(10, 60))):
            add(f"@{o}", slot, split_at(text, [o]), rng.choice(["none", "files"]))
        for _ in range(ctx.budget(4, 30)):
            a, b = sorted(rng.sample(offs, 2))
            add(f"@{a},{b}", slot, split_at(text, [a, b]))
    add("seed-demo", "queries", {"a_users.graphql": "query GetA {\n  a\n", "b_rest.graphql": "}\n"}, "files")
    add("empty-neighbour", "queries", {"a.graphql": D.BASE_QUERIES, "b.graphql": ""})
    add("comment-only-neighbour", "schema", {"a.graphql": "# schema lives next door\n", "b.graphql": D.BASE_SCHEMA}, "files")
    add("gs/seed-demo", "schema", {"a.graphql": "type Query {", "b.graphql": "a: Int }"})
    plans[-1]["strategy"] = "graphqlschema"
    plans.append(P("joined/each-parses-concatenation-does-not", exp_invalid("syntax"),
                   schema={"a.graphql": D.BASE_SCHEMA + "\ntype Lonely", "b.graphql": "{ a }"}, queries="query GetA { a }"))
    return plans


# --------------------------------------------------------------------------------------------
# config.get_config_file_path, plugins/explorer.py, Python's view of TOML values
# --------------------------------------------------------------------------------------------


def judge_config_file(ctx: Ctx, st: Optional[LeanStatus], res: Result) -> None:
    try:
        from ariadne_codegen import config as ac_config
        from ariadne_codegen.exceptions import ConfigFileNotFound
    except (ImportError, AttributeError) as e:
        res.mismatches.append(Mismatch("config-file", {}, "observer: " + repr(e), None))
        return
    rng = ctx.sub_rng("config-file")
    base = Path(tempfile.mkdtemp(prefix=engine.SCRATCH_PREFIX, dir=engine.scratch_root())).resolve()
    cwd0 = os.getcwd()
    lines, obs, shown_list = [], [], []
    try:
        deep = base / "p" / "q" / "r" / "s"
        deep.mkdir(parents=True)
        (base / "elsewhere").mkdir()
        chain = [deep, deep.parent, deep.parent.parent, deep.parent.parent.parent, base]
        for n in range(ctx.budget(60, 400)):
            name = rng.choice([f"c17cfg_{n}.toml", f"sub_{n}/cfg.toml", f"c17_{n}.cfg"])
            have = [d for d in chain if rng.random() < 0.35]
            for d in have:
                f = d / name
                f.parent.mkdir(parents=True, exist_ok=True)
                f.write_text("[tool.ariadne-codegen]\n")
            cwd = rng.choice(chain[:4])
            file_arg = name
            if rng.random() < 0.15:                    # an absolute --config path
                target = base / "elsewhere" / f"abs_{n}.toml"
                if rng.random() < 0.6:
                    target.write_text("x = 1\n")
                file_arg = str(target)
            os.chdir(cwd)
            try:
                r: Dict[str, Any] = {"path": str(ac_config.get_config_file_path(file_arg))}
            except ConfigFileNotFound as e:
                r = {"notFound": str(e)}
            except (AttributeError, TypeError) as e:
                r = {"observer": repr(e)}
            comps = [c for c in str(cwd).split("/") if c]
            ancestors = ["/" + "/".join(comps[:k]) for k in range(len(comps), -1, -1)]
            existing = []
            for a in ancestors:
                cand = file_arg if file_arg.startswith("/") else (a.rstrip("/") + "/" + file_arg)
                if os.path.exists(cand):
                    existing.append(cand)
            lines.append({"op": "configFile", "cwd": comps, "file": file_arg, "existing": existing})
            obs.append(r)
            shown_list.append({"cwd": str(cwd).replace(str(base), "<ROOT>"), "file": file_arg.replace(str(base), "<ROOT>"),
                               "have": [str(d).replace(str(base), "<ROOT>") for d in have]})
            # the property's clause for this function: a file that exists in an ancestor is found (the nearest one); otherwise the
            # typed exception naming the file
            nearest = existing[0] if existing else None
            if "observer" not in r:
                if nearest is None and "notFound" not in r:
                    res.failures.append(Failure("config-file-invented", None, shown_list[-1], str(r)))
                if nearest is not None and r.get("path") != nearest:
                    res.failures.append(Failure("config-file-not-the-nearest", None, shown_list[-1], f"{r} instead of {nearest}".replace(str(base), "<ROOT>")))
                if "notFound" in r and file_arg not in r["notFound"]:
                    res.failures.append(Failure("message-does-not-name-problem", None, shown_list[-1], r["notFound"]))
    finally:
        os.chdir(cwd0)
        shutil.rmtree(base, ignore_errors=True)
    if st is not None and st.driver_ok:
        out = common.run_driver(ctx.prop, lines)
        for sh, r, m in zip(shown_list, obs, out):
            res.seen(["config-file", sh])
            res.count("config-file:" + ("found" if "path" in r else "not-found"))
            if "observer" in r:
                res.mismatches.append(Mismatch("config-file", sh, "observer: " + r["observer"], None))
            elif not common.same_json(r, m):
                res.mismatches.append(Mismatch("config-file", sh, json.loads(json.dumps(r).replace(str(base), "<ROOT>")),
                                               json.loads(json.dumps(m).replace(str(base), "<ROOT>"))))


PLUGIN_STRINGS = ["", ".", "a.", ".a", "nodots", "os", "os.path", "os.path.join", "os.path.nope", "os.nope.x", "nope_mod.Nope", "a b.c", "os..path",
                  "ariadne_codegen.plugins.base.Plugin", SHORTER, "ariadne_codegen.contrib.shorter_results",
                  "ariadne_codegen.contrib.shorter_results.NoSuchPlugin", "ariadne_codegen.contrib.extract_operations.ExtractOperationsPlugin",
                  "json.JSONDecoder", "json.decoder", "ariadne_codegen.nope", "ariadne_codegen.contrib", "x.y.z.W"]


def judge_plugins(ctx: Ctx, st: Optional[LeanStatus], res: Result) -> None:
    """plugins/explorer.py for one plugin string at a time (runs in a forked child: it imports modules)"""
    status, out = engine.forked(_plugins_child, PLUGIN_STRINGS, timeout=300)
    if status != "ok":
        raise common.Infra(f"plugins child: {status} {out}")
    if st is None or not st.driver_ok:
        return
    lines = [{"op": "plugin", "s": s, "kind": fact[1], "cls": fact[2]} for s, fact, _ in out]
    model = common.run_driver(ctx.prop, lines)
    for (s, fact, impl), m in zip(out, model):
        res.seen(["plugin", s])
        res.count("plugin:" + (impl.get("cls") or "ok"))
        if "observer" in impl:
            res.mismatches.append(Mismatch("plugin", s, "observer: " + impl["observer"], None))
            continue
        mv = {"ok": True} if m.get("ok") else {"cls": m["cls"], "msg": m["msg"] if m["cls"] == "PluginImportError" else None}
        if not common.same_json(impl, mv):
            res.mismatches.append(Mismatch("plugin", {"plugin": s, "import_system": fact[1:]}, impl, mv))


def _plugins_child(strings: List[str]) -> List[Tuple[str, List[Any], Dict[str, Any]]]:
    out = []
    try:
        from ariadne_codegen.exceptions import PluginImportError
        from ariadne_codegen.plugins import explorer
    except (ImportError, AttributeError) as e:
        return [(s, [s, "raises", "observer"], {"observer": repr(e)}) for s in strings]
    for s in strings:
        fact = plugin_lookup_fact(s)
        try:
            explorer.get_plugins_types([s])
            impl: Dict[str, Any] = {"ok": True}
        except PluginImportError as e:
            impl = {"cls": "PluginImportError", "msg": str(e)}
        except (AttributeError, TypeError) as e:
            impl = {"observer": repr(e)} if fact[1] != "raises" else {"cls": type(e).__name__, "msg": None}
        except BaseException as e:  # noqa: BLE001
            impl = {"cls": type(e).__name__, "msg": None}
        out.append((s, fact, impl))
    return out


def py_values(ctx: Ctx, st: Optional[LeanStatus], res: Result) -> None:
    """Model/Toml.lean against CPython: truthiness, str/repr, the values as dict keys next to True/False, iteration,
    `"ariadne-codegen" in v` — and against the `toml` package: the six kinds survive a dump/load round trip unchanged."""
    if st is None or not st.driver_ok:
        return
    vals = [v for _, v in KIND_VALUES + SCALARS_VALUES + HEADERS_VALUES]
    vals += [-0.0, 1e22, 1.5e-7, 123456789012345678901234567890, "it's", 'say "hi"', "a\\b", "tab\there", ["ariadne-codegen"], "xx ariadne-codegen yy",
             {"ariadne-codegen": 1}, [True, False], [0.5, 1.5], {"k": [1, 2], "m": {"n": "o"}}, "ariadne-codege", [[1], [2]], "é"]
    lines = [{"op": "pyval", "v": tv_enc(v)} for v in vals]
    out = common.run_driver(ctx.prop, lines)
    table = {True: True, False: False}
    for v, m in zip(vals, out):
        try:
            key: Any = table[v]
        except KeyError:
            key = "KeyError"
        except TypeError:
            key = "TypeError"
        try:
            it: Any = [tv_enc(x) for x in v]
        except TypeError:
            it = None
        try:
            has: Any = "ariadne-codegen" in v
        except TypeError:
            has = None
        impl = {"truthy": bool(v), "str": str(v), "repr": repr(v), "boolKey": key, "iter": it, "hasCodegen": has}
        res.evaluations += 1
        if not common.same_json(impl, m):
            res.mismatches.append(Mismatch("spec-pyval", repr(v), impl, m))
    res.count("spec:pyval", len(vals))
    try:
        import toml

        from ariadne_codegen import config as ac_config
    except (ImportError, AttributeError) as e:
        res.mismatches.append(Mismatch("spec-toml", {}, "observer: " + repr(e), None))
        return
    base = Path(tempfile.mkdtemp(prefix=engine.SCRATCH_PREFIX, dir=engine.scratch_root())).resolve()
    try:
        n = 0
        for label, v in KIND_VALUES + SCALARS_VALUES + HEADERS_VALUES:
            if isinstance(v, float) and (v != v or repr(v) == "-0.0"):     # nan never equals itself; the toml package drops the sign of -0.0
                continue
            cfg = {"tool": {"ariadne-codegen": {"schema_path": "s.graphql", "probe": v}}}
            f = base / f"t{n}.toml"
            n += 1
            try:
                f.write_text(toml.dumps(cfg))
                back = ac_config.get_config_dict(str(f))
            except (AttributeError, TypeError) as e:
                res.mismatches.append(Mismatch("spec-toml", label, "observer: " + repr(e), None))
                continue
            except Exception as e:  # noqa: BLE001 - the toml package refusing its own output: not a kind question
                res.count("spec:toml-not-representable")
                continue
            res.evaluations += 1
            if not _deep_same(_key_sorted(back), _key_sorted(cfg)):     # (a TOML file lists plain values before sub-tables)
                res.mismatches.append(Mismatch("spec-toml", label, repr(back), repr(cfg)))
        res.count("spec:toml-roundtrip", n)
    finally:
        shutil.rmtree(base, ignore_errors=True)


# --------------------------------------------------------------------------------------------
# corpus, small spec checks, entry points
# --------------------------------------------------------------------------------------------


def replay_corpus(ctx: Ctx, st: Optional[LeanStatus], res: Result) -> None:
    d = common.CORPUS / ctx.prop
    entries = [json.loads(f.read_text()) for f in sorted(d.glob("*.json"))] if d.exists() else []
    findings = {f["id"]: f for f in common.load_findings(ctx.prop)}
    plans = [e["plan"] for e in entries]
    sub = Result()
    verdicts = judge_plans(ctx, st, sub, plans, tag="corpus")
    # failures of FIXED findings' witnesses must not be attributed to any trigger; open ones keep theirs
    for e, v in zip(entries, verdicts):
        fid = e.get("finding")
        if not fid or fid not in findings:
            continue
        f = findings[fid]
        sigs = f.get("signature") if isinstance(f.get("signature"), list) else [f.get("signature")]
        if f.get("status") == "open":
            hit = any(s in sigs for s in v["failed"])
            prev = res.witness_status.get(fid)
            res.witness_status[fid] = "reproduces" if hit or prev == "reproduces" else "gone"
        else:
            res.witness_status[fid] = "reproduces" if v["failed"] else "gone"
    for fl in sub.failures:
        label = fl.input.get("label", "")
        fixed = [e for e in entries if e["plan"]["label"] == label and findings.get(e.get("finding", ""), {}).get("status") == "fixed"]
        if fixed:
            fl.trigger = None
            fl.detail = f"witness of the FIXED finding {fixed[0]['finding']} fails again: " + fl.detail
    res.merge(sub)


def spec_checks(ctx: Ctx, st: Optional[LeanStatus], res: Result) -> None:
    """the small pieces of Python the settings model re-states: str.isidentifier / iskeyword on ASCII strings,
    Path(...).suffix and the target-file check, the substring class test, get_header_value"""
    if st is None or not st.driver_ok:
        return
    import keyword

    try:
        from ariadne_codegen import settings as S
        from ariadne_codegen.exceptions import InvalidConfiguration
    except (ImportError, AttributeError) as e:
        res.mismatches.append(Mismatch("spec", {}, "observer: " + repr(e), None))
        return
    rng = ctx.sub_rng("spec")
    alpha = "aZ_9-. $"
    names = [""] + [a for a in alpha] + [a + b for a in alpha for b in alpha] + [a + b + c for a in alpha for b in alpha for c in alpha]
    names += list(keyword.kwlist) + list(keyword.softkwlist) + [n for n, _ in D.NAME_POOL]
    names += ["".join(rng.choice("abcXYZ_019-. /$") for _ in range(rng.randint(1, 8))) for _ in range(ctx.budget(300, 5000))]
    lines = [{"op": "ident", "s": n} for n in names]
    paths = ["", ".", "..", "/", "a", "a.py", ".py", "a.", "a..py", "a.b.c", "d.x/a", "d/a.PY", "a.py/", "a.py/.", "./a.gql", "a/../b.graphql",
             "x.GraphQL", "x.graphqls", "a.py.bak", "//a.py", "a//b.py", "a/.hidden", "a/.hidden.py", "..py", "...", "a b.py", "/x/y.z/"]
    paths += ["".join(rng.choice("ab./PY") for _ in range(rng.randint(1, 9))) for _ in range(ctx.budget(400, 6000))]
    lines += [{"op": "suffix", "p": p} for p in paths]
    texts = [CUSTOM_BASE, "", "class A", "class AB:", "xclass A(B):", "class  A", "class A_1\nclass A", "# class Foo\n", "class Foo2: pass\nclass Foo(Bar): pass"]
    cls_names = ["A", "AB", "MyBase", "MyBaseClient", "Helper", "Foo", "Foo2", "", "A_", "B"]
    cl = [(c, t) for c in cls_names for t in texts]
    lines += [{"op": "classIn", "cls": c, "text": t} for c, t in cl]
    hv = ["", "v", "$", "$$", "$C17_TOKEN", "$$C17_TOKEN", "$C17_NOPE", "$C17_EMPTY", "a$C17_TOKEN", " $C17_TOKEN", "$C17_TOKEN$"]
    env = {"fs": [], "environ": [[k, v] for k, v in ENVIRON.items()], "cwd": "/", "defaults": []}
    lines += [{"op": "header", "env": env, "v": v} for v in hv]
    out = common.run_driver(ctx.prop, lines)
    k = 0
    for n in names:
        impl = {"ident": n.isidentifier(), "kw": keyword.iskeyword(n)}
        if not common.same_json(impl, out[k]):
            res.mismatches.append(Mismatch("spec-ident", n, impl, out[k]))
        k += 1
    for p in paths:
        try:
            S.assert_string_is_valid_schema_target_filename(p)
            chk = None
        except InvalidConfiguration as e:
            chk = str(e)
        impl = {"name": Path(p).name, "suffix": Path(p).suffix, "check": chk}
        if not common.same_json(impl, out[k]):
            res.mismatches.append(Mismatch("spec-suffix", p, impl, out[k]))
        k += 1
    for c, t in cl:
        impl = {"found": f"class {c}" in t, "declared": re.search(r"class " + re.escape(c) + r"(?![A-Za-z0-9_])", t) is not None}
        if not common.same_json(impl, out[k]):
            res.mismatches.append(Mismatch("spec-classIn", [c, t], impl, out[k]))
        k += 1
    saved = {x: os.environ.get(x) for x in list(ENVIRON) + ["C17_NOPE"]}
    try:
        os.environ.pop("C17_NOPE", None)
        os.environ.update(ENVIRON)
        for v in hv:
            try:
                impl = {"ok": S.get_header_value(v)}
            except InvalidConfiguration as e:
                impl = {"err": str(e)}
            if not common.same_json(impl, out[k]):
                res.mismatches.append(Mismatch("spec-header", v, impl, out[k]))
            k += 1
    finally:
        for x, val in saved.items():
            if val is None:
                os.environ.pop(x, None)
            else:
                os.environ[x] = val
    res.evaluations += len(lines)
    res.count("spec:ident", len(names))
    res.count("spec:suffix", len(paths))
    res.count("spec:classIn", len(cl))
    res.count("spec:header", len(hv))


def fingerprint_items() -> List[Tuple[str, Optional[str]]]:
    s, c, m, sc, pk = ("ariadne_codegen/settings.py", "ariadne_codegen/config.py", "ariadne_codegen/main.py", "ariadne_codegen/schema.py",
                       "ariadne_codegen/client_generators/package.py")
    items: List[Tuple[str, Optional[str]]] = [(s, q) for q in (
        "BaseSettings.__post_init__", "ClientSettings.__post_init__", "ClientSettings._set_default_base_client_data",
        "GraphQLSchemaSettings.__post_init__", "assert_path_exists", "assert_path_is_valid_directory", "assert_path_is_valid_file",
        "assert_string_is_valid_schema_target_filename", "assert_string_is_valid_python_identifier", "resolve_headers",
        "get_header_value", "assert_class_is_defined_in_file")]
    items += [(c, q) for q in ("get_client_settings", "get_section", "get_graphql_schema_settings", "get_config_file_path", "get_config_dict")]
    items += [("ariadne_codegen/client_generators/scalars.py", q) for q in ("ScalarData.__post_init__", "ScalarData._get_object_name")]
    items += [("ariadne_codegen/plugins/explorer.py", q) for q in ("is_module_str", "get_plugins_types_from_module", "is_plugin_type")]
    items += [(m, "client"), (m, "graphql_schema")]
    items += [(sc, q) for q in ("get_graphql_queries", "get_graphql_schema_from_path", "get_graphql_schema_from_url",
                                "load_graphql_files_from_path", "walk_graphql_files", "read_graphql_file", "add_mixin_directive_to_schema")]
    items += [(pk, q) for q in ("PackageGenerator.generate", "PackageGenerator.add_operation", "PackageGenerator._include_exceptions",
                                "PackageGenerator._validate_unique_file_names", "PackageGenerator._generate_fragments",
                                "PackageGenerator._copy_files", "get_package_generator")]
    items += [("ariadne_codegen/exceptions.py", None), ("ariadne_codegen/plugins/explorer.py", "get_plugins_types"),
              ("ariadne_codegen/plugins/explorer.py", "get_plugin_type")]
    return items


def run_settings(ctx: Ctx, st: Optional[LeanStatus], res: Result) -> None:
    root = Path(tempfile.mkdtemp(prefix=engine.SCRATCH_PREFIX, dir=engine.scratch_root())).resolve()
    try:
        W = build_world(root)
        judge_settings(ctx, st, res, root, W, settings_cases(ctx, W))
    finally:
        shutil.rmtree(root, ignore_errors=True)


def run(ctx: Ctx, st: Optional[LeanStatus]) -> Result:
    res = Result()
    res.rule = ("settings: every single-constraint violation x every valid base configuration x {client, graphqlschema}, harmless rewrites "
                "(unknown keys, deprecated section, boolean include_comments), EVERY TOML KIND (26 values: bool/int/float incl. 1, 0, 1.0, -0.0, "
                "inf, nan / str / list / table, plus nested scalars- and headers-variants) at EVERY option of every valid base, `tool` and the "
                "section itself holding a value of every kind, every path option x {file, directory, missing, empty} x the 8 combinations of "
                "enable_custom_operations/async_client/opentelemetry_client, seeded pairs/triples of violations and random option mixes (with "
                "values of arbitrary kinds sprinkled in), all read by the real config functions on a real scratch tree; sources: "
                "load_graphql_files_from_path + parse on directories made by splitting 5 valid documents at every token boundary into two "
                "files and at seeded pairs of boundaries into three, empty/comment-only/BOM-only neighbours, nested directories, sort-order, "
                "suffix and dot-file traps, unreadable entries; get_config_file_path on real directory chains; get_plugins_types per plugin "
                "string; Python's view of TOML values against Model/Toml.lean; pipeline: one real run of main.client/main.graphql_schema per "
                "plan (one invalid schema per graphql-core SDL/type-system rule, one invalid document per specified rule, syntax errors, "
                "own refusals, plugin lookup failures, configuration violations, fault pairs, pre-existing target contents). Every case is "
                "non-trivial; distinct = distinct (configuration) resp. (plan)")
    res.extra["fingerprints"] = common.fingerprints(ctx, fingerprint_items())
    replay_corpus(ctx, st, res)
    ctx.log(f"corpus replayed: {res.witness_status}")
    spec_checks(ctx, st, res)
    py_values(ctx, st, res)
    judge_sources(ctx, st, res)
    judge_config_file(ctx, st, res)
    judge_plugins(ctx, st, res)
    ctx.log(f"spec / source / config-file / plugin correspondence done: {res.evaluations} evaluations, {len(res.mismatches)} mismatches")
    run_settings(ctx, st, res)
    ctx.log(f"settings correspondence done: {res.evaluations} evaluations, {len(res.mismatches)} mismatches")
    plans = fixed_plans() + split_plans(ctx) + pair_plans(ctx, ctx.budget(150, 1200))
    if ctx.thorough:
        extra = []
        for p in fixed_plans():
            if p.get("preexisting", "none") == "none" and not p["label"].startswith("valid/"):
                for pre in ("empty", "files"):
                    q = copy.deepcopy(p)
                    q["preexisting"] = pre
                    q["label"] += "/pre-" + pre
                    extra.append(q)
        plans += extra
    judge_plans(ctx, st, res, plans)
    res.extra["plans"] = len(plans)
    res.extra["old_C17_F2_region"] = {
        "note": "inputs with a fragments_module_name unusable as a module name (region of the finding repaired by 0686a80, now inside C17_partial)",
        "settings_cases": res.distribution.get("settings:inside-old-C17-F2-region", 0),
        "settings_cases_where_that_check_fired": res.distribution.get("settings:rejected-by-the-fragments_module_name-check", 0),
        "pipeline_plans": res.distribution.get("pipeline:inside-old-C17-F2-region", 0),
        "of_settings_cases": sum(v for k, v in res.distribution.items() if k.startswith("settings:client:") and isinstance(v, int)),
        "of_pipeline_plans": len(plans)}
    res.extra["invalid_schema_classes"] = len(D.INVALID_SCHEMAS)
    res.extra["invalid_operation_classes"] = len(D.INVALID_OPERATIONS)
    res.oracle_only += [
        "what graphql-core's parse accepts is a PARAMETER of the model (`parses`); the driver's instance is the table of graphql-core's own verdicts on the texts of the case (each graphql file and the concatenation), asked by the harness directly; build_ast_schema / validate_schema / validate verdicts are oracle inputs; only whether and when ariadne-codegen consults them is modelled",
        "what importlib finds for a plugin string (module / class / nothing / not a Plugin) is an oracle input asked from importlib directly; toml.load is validated only for the kinds of values (dump/load round trip through the real get_config_dict)",
        "values of another kind than documented at options the property names no constraint for (flags, plugins, remote_schema_url, remote_schema_verify_ssl) are compared with the model but not judged; a non-str path value is only required to be refused with some ariadne-codegen exception",
        "black/isort refusing an emitted module (late InvalidInput) is an oracle input (`codeError`), exercised only inside finding regions",
        "the introspection transport (remote_schema_url) is C19's subject: modelled as an outcome, not run here",
    ]
    res.assumptions += [
        "option values are TOML values of any kind (no dates/times); strings are ASCII (printable inside nested values, where Python's repr is re-stated); str.isidentifier is abstract in the theorems and its ASCII restriction is what the driver computes (compared with CPython on every run)",
        "paths in configurations are already normalised (str(Path(p)) == p), so messages quote them verbatim",
        "graphql files are readable as UTF-8 and no directory is named like a graphql file (both are modelled - `Content.unreadable` - and compared, but lie outside C17_partial's domain); no symlinks below schema_path / queries_path",
        "the configuration file name given to get_config_file_path contains no `..` and the directory chain no symlinks (Path.resolve() is then the identity)",
        "plugin hooks do not raise (bundled plugins only) and only `process_schema` may replace the schema",
    ]
    engine.cleanup_scratch() if os.environ.get("VERIF_CLEAN_SCRATCH") == "1" else None
    return res


def search(ctx: Ctx) -> Result:
    """after a broken proof / correspondence: the oracle alone, with the thorough budget"""
    res = Result()
    root = Path(tempfile.mkdtemp(prefix=engine.SCRATCH_PREFIX, dir=engine.scratch_root())).resolve()
    try:
        W = build_world(root)
        judge_settings(ctx, None, res, root, W, settings_cases(ctx, W))
    finally:
        shutil.rmtree(root, ignore_errors=True)
    judge_sources(ctx, None, res)
    judge_config_file(ctx, None, res)
    judge_plans(ctx, None, res, fixed_plans() + split_plans(ctx) + pair_plans(ctx, 300), tag="search")
    return res


def replay(ctx: Ctx, payload: Dict[str, Any]) -> int:
    inp = payload.get("input") or payload.get("plan")
    if not inp:
        print(json.dumps(payload, indent=1)[:3000])
        return 1
    if "kind" in inp and "cfg" in inp and "label" in inp and "strategy" not in inp and "schema" not in inp and "queries" not in inp and "facts" not in inp:
        root = Path(tempfile.mkdtemp(prefix=engine.SCRATCH_PREFIX, dir=engine.scratch_root())).resolve()
        try:
            W = build_world(root)
            cfg = json.loads(json.dumps(inp["cfg"]).replace("<ROOT>", str(root)))
            status, out = engine.forked(_settings_batch, str(root), [{"kind": inp["kind"], "cfg": cfg}])
            print(status, json.dumps(out[0][1] if status == "ok" else out, default=repr)[:1500].replace(str(root), "<ROOT>"))
            bad = status != "ok" or not out[0][1].get("pure", True) or payload.get("signature") in ("invalid-config-accepted",) and "ok" in out[0][1]["result"]
            return 1 if bad else 0
        finally:
            shutil.rmtree(root, ignore_errors=True)
    plan = dict(inp)
    plan.setdefault("expect", payload.get("expect") or (exp_invalid("replay") if payload.get("signature") not in ("valid-input-rejected",) else ACCEPT))
    status, r = engine.forked(run_plan, plan, timeout=180)
    if status != "ok":
        print(status, r)
        return 2
    print(json.dumps(r["obs"], indent=1)[:2000].replace(r["root"], "<ROOT>"))
    failed = oracle_plan(plan, r["obs"])
    print("triggers:", r["triggers"], "oracle:", failed or "ok")
    return 1 if failed else 0
