"""Shared machinery of the /verif checks (see DESIGN.md §1.3, §1.4).

Everything here is infrastructure: building and auditing the Lean side, talking to the compiled
model drivers over the line protocol, classifying what the oracles found against the committed
known-findings file, and writing evidence / replay files.  Nothing here knows a property.
"""
from __future__ import annotations

import ast
import fcntl
import hashlib
import json
import os
import random
import re
import subprocess
import sys
import time
from dataclasses import dataclass, field
from fractions import Fraction
from pathlib import Path
from typing import Any, Callable, Dict, Iterable, List, Optional, Tuple

VERIF = Path(__file__).resolve().parents[1]
REPO = Path(os.environ.get("VERIF_REPO", "/repo"))
LEAN = Path(os.environ.get("VERIF_LEAN", VERIF / "lean"))  # a private copy when testing against a mutated worktree
OUT = Path(os.environ.get("VERIF_OUT", VERIF))  # where evidence/ and replays/ go (default: /verif itself)
EVIDENCE = OUT / "evidence"
REPLAYS = OUT / "replays"
CORPUS = VERIF / "corpus"
KNOWN_FINDINGS = VERIF / "known_findings.json"
GUARD = "ARIADNE_CODEGEN_VERIF"

ALLOWED_AXIOMS = {"propext", "Classical.choice", "Quot.sound"}
FORBIDDEN = re.compile(
    r"\bsorry\b|\badmit\b|^\s*axiom\s|\bnative_decide\b|\bbv_decide\b|implemented_by|\bunsafe\s|maxHeartbeats\s+0\b",
    re.M,
)


class Infra(Exception):
    """Infrastructure failure (exit 2): never reported as a violation."""


# --------------------------------------------------------------------------------------------
# context
# --------------------------------------------------------------------------------------------


@dataclass
class Ctx:
    prop: str
    tier: str
    seed: int
    t0: float = field(default_factory=time.time)
    rng: random.Random = None  # type: ignore
    boost: bool = False  # a modelled function changed / the tie broke: use the thorough budget
    notes: List[str] = field(default_factory=list)

    def __post_init__(self) -> None:
        self.rng = random.Random(f"{self.prop}:{self.seed}")

    @property
    def thorough(self) -> bool:
        return self.tier == "thorough" or self.boost

    def budget(self, quick: int, thorough: int) -> int:
        return thorough if self.thorough else quick

    def sub_rng(self, label: str) -> random.Random:
        return random.Random(f"{self.prop}:{self.seed}:{label}")

    def elapsed(self) -> float:
        return time.time() - self.t0

    def log(self, msg: str) -> None:
        print(f"[{self.prop} {self.elapsed():6.1f}s] {msg}", flush=True)


@dataclass
class Failure:
    """The property fails on the REAL code for a concrete input (found by an oracle)."""

    signature: str  # failure class, compared with known_findings[*].signature
    trigger: Optional[str]  # name of the finding-trigger predicate the input satisfies, if any
    input: Any  # concrete replayable input
    detail: str = ""

    def key(self) -> str:
        return f"{self.trigger}|{self.signature}"


@dataclass
class Mismatch:
    """Model and implementation disagree on an input (the tie is broken there)."""

    observation: str  # which correspondence observation
    input: Any
    impl: Any
    model: Any
    trigger: Optional[str] = None  # inside a finding-trigger region (model says `.unmodelled`)?


@dataclass
class Result:
    failures: List[Failure] = field(default_factory=list)
    mismatches: List[Mismatch] = field(default_factory=list)
    # measured coverage, merged into evidence["coverage"]
    evaluations: int = 0
    distinct: set = field(default_factory=set)
    samples: List[Any] = field(default_factory=list)
    distribution: Dict[str, Any] = field(default_factory=dict)
    rule: str = ""
    exhaustive: bool = False
    extra: Dict[str, Any] = field(default_factory=dict)
    oracle_only: List[str] = field(default_factory=list)
    assumptions: List[str] = field(default_factory=list)
    witness_status: Dict[str, str] = field(default_factory=dict)  # finding id -> reproduces / gone

    def count(self, key: str, n: int = 1) -> None:
        self.distribution[key] = self.distribution.get(key, 0) + n

    def seen(self, case: Any, nontrivial: bool = True) -> None:
        self.evaluations += 1
        if nontrivial:
            self.distinct.add(stable_hash(case))

    def sample(self, case: Any, limit: int = 6) -> None:
        if len(self.samples) < limit:
            self.samples.append(case)

    def merge(self, other: "Result") -> None:
        self.failures += other.failures
        self.mismatches += other.mismatches
        self.evaluations += other.evaluations
        self.distinct |= other.distinct
        self.samples += other.samples[: max(0, 8 - len(self.samples))]
        for k, v in other.distribution.items():
            if isinstance(v, int):
                self.distribution[k] = self.distribution.get(k, 0) + v
            else:
                self.distribution[k] = v
        self.extra.update(other.extra)
        self.oracle_only += [x for x in other.oracle_only if x not in self.oracle_only]
        self.assumptions += [x for x in other.assumptions if x not in self.assumptions]
        self.witness_status.update(other.witness_status)
        self.exhaustive = self.exhaustive or other.exhaustive


def stable_hash(obj: Any) -> str:
    return hashlib.sha256(json.dumps(obj, sort_keys=True, default=repr).encode()).hexdigest()[:16]


# --------------------------------------------------------------------------------------------
# strict JSON comparison (bool is not a number; 1 == 1.0)
# --------------------------------------------------------------------------------------------


def canon(x: Any) -> Any:
    if x is None:
        return None
    if isinstance(x, bool):
        return ("b", x)
    if isinstance(x, int):
        return ("n", str(Fraction(x)))
    if isinstance(x, float):
        if x != x or x in (float("inf"), float("-inf")):
            return ("f", repr(x))
        return ("n", str(Fraction(repr(x))))
    if isinstance(x, str):
        return ("s", x)
    if isinstance(x, (list, tuple)):
        return ("a", [canon(i) for i in x])
    if isinstance(x, dict):
        return ("o", [(k, canon(v)) for k, v in x.items()])
    return ("?", repr(x))


def canon_unordered(x: Any) -> Any:
    """like canon, but dict key order is not significant"""
    if isinstance(x, dict):
        return ("o", sorted(((k, canon_unordered(v)) for k, v in x.items()), key=lambda kv: kv[0]))
    if isinstance(x, (list, tuple)):
        return ("a", [canon_unordered(i) for i in x])
    return canon(x)


def same_json(a: Any, b: Any, ordered: bool = False) -> bool:
    return (canon(a) == canon(b)) if ordered else (canon_unordered(a) == canon_unordered(b))


# --------------------------------------------------------------------------------------------
# Lean: build, audit, drivers
# --------------------------------------------------------------------------------------------


def _lake(args: List[str], timeout: int = 3000, lock: str = "global") -> Tuple[int, str]:
    """lake under a file lock.  Builds of *different* properties may run concurrently (lock name =
    property id); the shared prefix (tables, Json, Wire) is built under the global lock first."""
    lock_path = LEAN / f".build.{lock}.lock"
    with open(lock_path, "w") as lk:
        fcntl.flock(lk, fcntl.LOCK_EX)
        try:
            p = subprocess.run(["lake", *args], cwd=LEAN, capture_output=True, text=True, timeout=timeout)
        except subprocess.TimeoutExpired as e:
            raise Infra(f"lake {' '.join(args)} timed out") from e
        finally:
            fcntl.flock(lk, fcntl.LOCK_UN)
    return p.returncode, p.stdout + p.stderr


SHARED_PREFIX = ["AriadneModel.Generated.Tables", "AriadneModel.Model.Json", "AriadneModel.Driver.Wire"]


def build_shared() -> Tuple[int, str]:
    return _lake(["build", *SHARED_PREFIX], lock="global")


def prop_module(prop: str) -> str:
    return f"AriadneModel.Properties.{prop}"


def driver_name(prop: str) -> str:
    return f"drv_{prop.lower()}"


def has_driver(prop: str) -> bool:
    return (LEAN / "AriadneModel" / "Driver" / f"{prop}.lean").exists()


@dataclass
class LeanStatus:
    build_ok: bool
    driver_ok: bool
    log: str
    broken: List[str]  # theorem / file:line descriptions of what no longer checks
    theorems: List[str] = field(default_factory=list)
    axioms: Dict[str, List[str]] = field(default_factory=dict)
    audit_problems: List[str] = field(default_factory=list)
    modules: List[str] = field(default_factory=list)

    @property
    def ok(self) -> bool:
        return self.build_ok and not self.audit_problems


def _strip_comments(src: str) -> str:
    out = []
    i, depth, n = 0, 0, len(src)
    while i < n:
        if src.startswith("/-", i):
            depth += 1
            i += 2
        elif depth and src.startswith("-/", i):
            depth -= 1
            i += 2
        elif depth:
            if src[i] == "\n":
                out.append("\n")
            i += 1
        elif src.startswith("--", i):
            while i < n and src[i] != "\n":
                i += 1
        elif src[i] == '"':
            j = i + 1
            while j < n and src[j] != '"':
                j += 2 if src[j] == "\\" else 1
            out.append('""')
            i = j + 1
        else:
            out.append(src[i])
            i += 1
    return "".join(out)


def module_path(mod: str) -> Path:
    return LEAN / (mod.replace(".", "/") + ".lean")


def import_closure(mod: str) -> List[str]:
    seen: List[str] = []
    todo = [mod]
    while todo:
        m = todo.pop()
        if m in seen or not m.startswith("AriadneModel"):
            continue
        p = module_path(m)
        if not p.exists():
            continue
        seen.append(m)
        for line in p.read_text().splitlines():
            mm = re.match(r"\s*(?:public\s+)?import\s+(\S+)", line)
            if mm:
                todo.append(mm.group(1))
    return seen


def theorem_names(path: Path) -> List[str]:
    """Fully qualified names of the theorems stated in a Lean file (namespace-aware)."""
    src = _strip_comments(path.read_text())
    ns: List[str] = []
    names: List[str] = []
    for line in src.splitlines():
        m = re.match(r"\s*namespace\s+(\S+)", line)
        if m:
            ns.append(m.group(1))
            continue
        m = re.match(r"\s*end\s+(\S+)\s*$", line)
        if m and ns and ns[-1] == m.group(1):
            ns.pop()
            continue
        m = re.match(r"\s*(?:@\[[^\]]*\]\s*)?(?:protected\s+|private\s+)?theorem\s+([^\s:({\[]+)", line)
        if m:
            names.append(".".join(ns + [m.group(1)]))
    return names


def _broken_from_log(log: str) -> List[str]:
    out = []
    for m in re.finditer(r"^error: (\S+\.lean):(\d+):(\d+): (.*)$", log, re.M):
        out.append(f"{m.group(1)}:{m.group(2)}: {m.group(4)[:160]}")
    return out


def _theorem_at(path: Path, line_no: int) -> Optional[str]:
    try:
        lines = path.read_text().splitlines()
    except OSError:
        return None
    for i in range(min(line_no, len(lines)) - 1, -1, -1):
        m = re.match(r"\s*(?:@\[[^\]]*\]\s*)?(?:protected\s+|private\s+)?(theorem|def|example|lemma|instance)\s*([^\s:({\[]*)", lines[i])
        if m:
            return f"{m.group(1)} {m.group(2)}".strip()
    return None


def lean_check(ctx: Ctx) -> LeanStatus:
    """Build the property's theorem module (+ driver) against the regenerated tables; audit it."""
    prop = ctx.prop
    mod = prop_module(prop)
    if not module_path(mod).exists():
        raise Infra(f"{module_path(mod)} missing")
    rc0, log0 = build_shared()
    rc, log = _lake(["build", mod], lock=prop)
    if rc != 0 and not re.search(r"^error: \S+\.lean:\d+:\d+:", log, re.M):
        # no located Lean error: two lake processes building shared modules at the same time can
        # trip over each other's output files; retry once, serialised under the global lock
        rc, log = _lake(["build", mod], lock="global")
    if rc0 != 0:
        log = log0 + log
    build_ok = rc == 0
    broken: List[str] = []
    if not build_ok:
        for m in re.finditer(r"^error: (\S+\.lean):(\d+):(\d+): (.*)$", log, re.M):
            thm = _theorem_at(LEAN / m.group(1), int(m.group(2)))
            broken.append(f"{m.group(1)}:{m.group(2)} [{thm}] {m.group(4)[:140]}")
        if not broken:
            broken.append("lake build failed: " + log.strip().splitlines()[-1][:200] if log.strip() else "lake build failed")
    driver_ok = False
    dlog = ""
    if has_driver(prop):
        rc2, dlog = _lake(["build", driver_name(prop)], lock=prop)
        driver_ok = rc2 == 0 and (LEAN / ".lake/build/bin" / driver_name(prop)).exists()
        if not driver_ok:
            for m in re.finditer(r"^error: (\S+\.lean):(\d+):(\d+): (.*)$", dlog, re.M):
                broken.append(f"driver {m.group(1)}:{m.group(2)} {m.group(4)[:140]}")
    st = LeanStatus(build_ok, driver_ok, log + dlog, broken)
    st.modules = import_closure(mod)
    st.theorems = theorem_names(module_path(mod))
    # textual audit of every module the property depends on
    for m in st.modules:
        src = _strip_comments(module_path(m).read_text())
        for hit in FORBIDDEN.finditer(src):
            st.audit_problems.append(f"{m}: forbidden token {hit.group(0).strip()!r}")
    if build_ok:
        st.axioms = print_axioms(prop, st.theorems)
        for thm, axs in st.axioms.items():
            bad = [a for a in axs if a not in ALLOWED_AXIOMS]
            if bad:
                st.audit_problems.append(f"{thm}: depends on axioms {bad}")
        missing = [t for t in st.theorems if t not in st.axioms]
        if missing:
            st.audit_problems.append(f"#print axioms gave no answer for {missing[:5]}")
    return st


def print_axioms(prop: str, theorems: List[str]) -> Dict[str, List[str]]:
    if not theorems:
        return {}
    audit_dir = LEAN / ".audit"
    audit_dir.mkdir(exist_ok=True)
    f = audit_dir / f"{prop}_{os.getpid()}.lean"
    f.write_text(f"import {prop_module(prop)}\n" + "".join(f"#print axioms {t}\n" for t in theorems))
    try:
        p = subprocess.run(["lake", "env", "lean", str(f)], cwd=LEAN, capture_output=True, text=True, timeout=900)
    finally:
        f.unlink(missing_ok=True)
    out = p.stdout + p.stderr
    res: Dict[str, List[str]] = {}
    for m in re.finditer(r"'([^']+)' depends on axioms: \[([^\]]*)\]", out, re.S):
        res[m.group(1)] = [a.strip() for a in m.group(2).replace("\n", " ").split(",") if a.strip()]
    for m in re.finditer(r"'([^']+)' does not depend on any axioms", out):
        res[m.group(1)] = []
    return res


def leanchecker(ctx: Ctx, st: LeanStatus) -> Optional[str]:
    """thorough tier: re-check the compiled property module with the independent checker"""
    try:
        p = subprocess.run(
            ["lake", "env", "leanchecker", prop_module(ctx.prop)], cwd=LEAN, capture_output=True, text=True, timeout=1800
        )
    except (subprocess.TimeoutExpired, FileNotFoundError) as e:
        return f"leanchecker unavailable: {e}"
    if p.returncode != 0:
        return "leanchecker: " + (p.stdout + p.stderr).strip()[-300:]
    return None


def run_driver(prop: str, lines: List[Dict[str, Any]], chunk: int = 20000) -> List[Any]:
    """Pipe op-lines through the compiled model driver; returns one decoded JSON value per line."""
    exe = LEAN / ".lake/build/bin" / driver_name(prop)
    if not exe.exists():
        raise Infra(f"driver {exe} not built")
    out: List[Any] = []
    for i in range(0, len(lines), chunk):
        part = lines[i : i + chunk]
        payload = "".join(json.dumps(l, separators=(",", ":")) + "\n" for l in part)
        p = subprocess.run([str(exe)], input=payload, capture_output=True, text=True, timeout=1200)
        if p.returncode != 0:
            raise Infra(f"driver {exe.name} exited {p.returncode}: {p.stderr[-300:]}")
        got = [json.loads(l) for l in p.stdout.splitlines() if l.strip()]
        if len(got) != len(part):
            raise Infra(f"driver {exe.name}: {len(part)} lines in, {len(got)} lines out")
        out += got
    for line, o in zip(lines, out):
        if isinstance(o, dict) and "driver_error" in o:
            raise Infra(f"driver {exe.name} rejected {json.dumps(line)[:200]}: {o['driver_error']}")
    return out


# --------------------------------------------------------------------------------------------
# fingerprints of the modelled Python functions
# --------------------------------------------------------------------------------------------


def _find_def(tree: ast.AST, qual: str) -> Optional[ast.AST]:
    node: ast.AST = tree
    for part in qual.split("."):
        found = None
        for child in ast.walk(node) if node is tree else ast.iter_child_nodes(node):
            if isinstance(child, (ast.FunctionDef, ast.AsyncFunctionDef, ast.ClassDef)) and child.name == part:
                found = child
                break
        if found is None:
            # nested function inside a function body
            for child in ast.walk(node):
                if isinstance(child, (ast.FunctionDef, ast.AsyncFunctionDef, ast.ClassDef)) and child.name == part:
                    found = child
                    break
        if found is None:
            return None
        node = found
    return node


def fingerprint(rel_path: str, qual: Optional[str] = None) -> str:
    """sha of the normalised AST (no positions, no docstrings) of a function/class/module in /repo"""
    p = REPO / rel_path
    try:
        tree = ast.parse(p.read_text())
    except (OSError, SyntaxError) as e:
        return f"unreadable:{e.__class__.__name__}"
    node = _find_def(tree, qual) if qual else tree
    if node is None:
        return "missing"
    return hashlib.sha256(ast.dump(node, include_attributes=False).encode()).hexdigest()[:16]


def fingerprints(ctx: Ctx, items: Iterable[Tuple[str, Optional[str]]]) -> Dict[str, str]:
    """Compute fingerprints and compare with the committed baseline fingerprints/<prop>.json.
    A difference is not a failure; it switches the run to the thorough budget (ctx.boost)."""
    cur = {f"{p}::{q or '*'}": fingerprint(p, q) for p, q in items}
    base_file = VERIF / "fingerprints" / f"{ctx.prop}.json"
    changed = []
    if base_file.exists():
        base = json.loads(base_file.read_text())
        changed = [k for k, v in cur.items() if base.get(k) != v]
    if changed:
        ctx.boost = True
        ctx.log(f"modelled source changed since the committed baseline: {changed} -> thorough budget")
    if os.environ.get("VERIF_WRITE_FINGERPRINTS") == "1":
        base_file.parent.mkdir(exist_ok=True)
        base_file.write_text(json.dumps(cur, indent=1, sort_keys=True) + "\n")
    return {"current": cur, "changed": changed}  # type: ignore


# --------------------------------------------------------------------------------------------
# known findings
# --------------------------------------------------------------------------------------------


def load_findings(prop: str) -> List[Dict[str, Any]]:
    if not KNOWN_FINDINGS.exists():
        return []
    data = json.loads(KNOWN_FINDINGS.read_text())
    return [f for f in data.get("findings", []) if f.get("property") == prop]


def match_finding(fail: Failure, findings: List[Dict[str, Any]]) -> Optional[Dict[str, Any]]:
    """A failure is a known finding only if it lies in the finding's trigger region AND shows the
    finding's failure signature AND the finding is open (fixed entries suppress nothing)."""
    for f in findings:
        if f.get("status") != "open":
            continue
        if f.get("trigger") == fail.trigger and fail.trigger is not None:
            sigs = f.get("signature")
            sigs = sigs if isinstance(sigs, list) else [sigs]
            if fail.signature in sigs:
                return f
    return None


# --------------------------------------------------------------------------------------------
# reporting
# --------------------------------------------------------------------------------------------


def write_replay(prop: str, payload: Dict[str, Any]) -> Path:
    REPLAYS.mkdir(parents=True, exist_ok=True)
    h = stable_hash(payload)
    path = REPLAYS / f"{prop}-{h}.json"
    path.write_text(json.dumps(payload, indent=1, default=repr) + "\n")
    return path


def relpath(p: Path) -> str:
    try:
        return str(p.relative_to(OUT))
    except ValueError:
        return str(p)


def write_evidence(ctx: Ctx, st: Optional[LeanStatus], res: Result, violations: int, extra: Dict[str, Any]) -> None:
    EVIDENCE.mkdir(parents=True, exist_ok=True)
    obligations = len(st.theorems) if st else 0
    discharged = 0
    if st and st.build_ok:
        discharged = sum(1 for t in st.theorems if t in st.axioms and set(st.axioms[t]) <= ALLOWED_AXIOMS)
    coverage: Dict[str, Any] = {
        "obligations": obligations,
        "discharged": discharged,
        "checker_cmd": f"cd lean && lake build {prop_module(ctx.prop)} && lake env lean <#print axioms of every theorem>"
        + (" && lake env leanchecker " + prop_module(ctx.prop) if ctx.tier == "thorough" else ""),
        "trusted_base": [
            "Lean 4.33 kernel; axioms allowed: propext, Classical.choice, Quot.sound (checked by #print axioms on every run)",
            "statements in lean/AriadneModel/Properties/%s.lean (human-read)" % ctx.prop,
            "harness/tables.py translator (source tables -> Generated/Tables.lean)",
            "hand-written model tied to /repo by the correspondence check of this run (generators, canonicalisers, driver JSON glue)",
            "reference semantics of third-party libraries in Spec/ are modelled and validated, not verified",
        ],
        "theorems": st.theorems if st else [],
        "axioms_used": sorted({a for axs in (st.axioms.values() if st else []) for a in axs}),
        "lean_modules": st.modules if st else [],
        "evaluations": res.evaluations,
        "distinct_nontrivial": len(res.distinct),
        "rule": res.rule,
        "samples": res.samples[:8] if res.samples else [],
        "exhaustive": res.exhaustive,
        "input_distribution": res.distribution,
        "model_impl_mismatches": len(res.mismatches),
        "oracle_failures_total": len(res.failures),
        "finding_witnesses": res.witness_status,
        "oracle_only_parts": res.oracle_only,
    }
    coverage.update(res.extra)
    coverage.update(extra)
    ev = {
        "property_id": ctx.prop,
        "tier": ctx.tier,
        "seed": ctx.seed,
        "level": "proof",
        "coverage": coverage,
        "assumptions": res.assumptions,
        "wall_s": round(ctx.elapsed(), 2),
        "violations": violations,
    }
    (EVIDENCE / f"{ctx.prop}.json").write_text(json.dumps(ev, indent=1, default=repr) + "\n")


def conclude(
    ctx: Ctx,
    st: Optional[LeanStatus],
    res: Result,
    search: Optional[Callable[[Ctx], Result]] = None,
) -> int:
    """Classify (DESIGN.md §1.4) and print the verdict lines; returns the exit code."""
    findings = load_findings(ctx.prop)
    tie_broken: List[str] = []
    if st is not None:
        if not st.build_ok:
            tie_broken += [f"proof obligation no longer checks: {b}" for b in st.broken]
        if st.audit_problems:
            tie_broken += [f"audit: {a}" for a in st.audit_problems]
        if has_driver(ctx.prop) and st.build_ok and not st.driver_ok:
            tie_broken += [f"driver no longer builds: {b}" for b in st.broken]
    outside = [m for m in res.mismatches if m.trigger is None]
    for m in outside[:10]:
        tie_broken.append(
            f"correspondence '{m.observation}' differs on {json.dumps(m.input, default=repr)[:300]}: impl={json.dumps(m.impl, default=repr)[:200]} model={json.dumps(m.model, default=repr)[:200]}"
        )
    for m in [m for m in res.mismatches if m.trigger is not None][:5]:
        print(f"INFO correspondence differs inside finding region {m.trigger} (observation {m.observation}); not a violation by itself")

    if tie_broken and search is not None:
        ctx.log(f"tie broken ({len(tie_broken)} item(s)); searching the implementation for a failing input")
        ctx.boost = True
        try:
            res.merge(search(ctx))
        except Infra:
            raise
        except Exception as e:  # the search itself must not turn into a false alarm
            ctx.log(f"search raised {e!r}")

    unknown: List[Failure] = []
    known_hit: Dict[str, int] = {}
    for f in res.failures:
        hit = match_finding(f, findings)
        if hit is None:
            unknown.append(f)
        else:
            known_hit[hit["id"]] = known_hit.get(hit["id"], 0) + 1

    exit_code = 0
    violations = 0
    # one replay per distinct (trigger, signature)
    seen_keys = set()
    for f in unknown:
        if f.key() in seen_keys:
            continue
        seen_keys.add(f.key())
        violations += 1
        path = write_replay(
            ctx.prop,
            {
                "property": ctx.prop,
                "kind": "failing-input",
                "signature": f.signature,
                "trigger": f.trigger,
                "input": f.input,
                "detail": f.detail,
                "seed": ctx.seed,
                "tier": ctx.tier,
                "replay": f"./check {ctx.prop} --replay <this file>",
                "tie_broken": tie_broken[:10],
            },
        )
        print(f"VIOLATION property={ctx.prop} replay={relpath(path)}")
        exit_code = 1
    if tie_broken and not unknown:
        violations += 1
        path = write_replay(
            ctx.prop,
            {
                "property": ctx.prop,
                "kind": "broken-tie",
                "no_longer_checks": tie_broken,
                "mismatches": [dict(observation=m.observation, input=m.input, impl=m.impl, model=m.model) for m in outside[:5]],
                "searched": {"evaluations": res.evaluations, "distinct": len(res.distinct)},
                "seed": ctx.seed,
                "tier": ctx.tier,
                "note": "the property is no longer shown to hold; no concrete failing input was found by the search",
            },
        )
        print(f"VIOLATION property={ctx.prop} replay={relpath(path)} no-failing-input-found")
        exit_code = 1

    # known findings: one line per listed open finding (witness replayed in this run)
    for f in findings:
        if f.get("status") == "open":
            status = res.witness_status.get(f["id"])
            if status == "gone":
                print(f"INFO finding {f['id']} no longer reproduces on its witness")
            else:
                print(f"KNOWN-FINDING: property={ctx.prop} {f['id']} {f.get('what', '')}")
    extra = {
        "known_findings_hit": known_hit,
        "tie_broken": tie_broken[:20],
        "unknown_failures": [dict(signature=f.signature, trigger=f.trigger, detail=f.detail[:300]) for f in unknown[:10]],
    }
    write_evidence(ctx, st, res, violations, extra)
    if exit_code == 0:
        ctx.log(
            f"OK: {len(st.theorems) if st else 0} theorem(s) checked, {res.evaluations} evaluations, "
            f"{len(res.distinct)} distinct non-trivial, {len(res.mismatches)} mismatches, "
            f"{len(res.failures)} oracle failures (all known)"
        )
    return exit_code
