"""Translator for the plugin machinery (C15; DESIGN.md §1.3a): the *data* of plugins/manager.py and
plugins/base.py is re-extracted from /repo's working tree on every check run and written to
lean/AriadneModel/Generated/PluginTables.lean (a file of its own, so that the shared Tables.lean and
everything built on it stays untouched):

  managerWrappers   one row per public method of `PluginManager`:
                    (method name, hook name handed to `_apply_plugins_on_object`, name of the object argument,
                     the method's parameters after `self`, the keyword arguments of the dispatch as "k=v,...")
                    — read off the one call `self._apply_plugins_on_object("<hook>", <obj>, k=v, ...)` inside the
                    method (or off the one `plugin.<hook>(obj)` call of a method that loops itself); empty strings
                    when there is no such single call
  pluginBaseHooks   one row per public method of `plugins.base.Plugin`:
                    (hook name, parameters after `self`, the parameter name its body returns — "" when the body
                     is anything but `return <parameter>`)
  nonUniformWrappers  the public methods that do not go through `_apply_plugins_on_object` but loop over the plugins
                    themselves (`process_schema`): (name, note)

The loop `_apply_plugins_on_object` itself is LOGIC: it is modelled by hand (`applyAll`) and tied to the code by driving
the real PluginManager with synthetic plugins through every wrapper of the table (harness/c15.py manager_cases).

Called from tables.regenerate().
"""
from __future__ import annotations

import ast
import os
from typing import Any, Dict, List, Optional, Tuple

from . import common
from .tables import llist, lstr


def _class(tree: ast.AST, name: str) -> Optional[ast.ClassDef]:
    for n in ast.walk(tree):
        if isinstance(n, ast.ClassDef) and n.name == name:
            return n
    return None


def _params(fn: ast.AST) -> List[str]:
    a = fn.args  # type: ignore[attr-defined]
    names = [x.arg for x in a.posonlyargs + a.args]
    if a.vararg:
        names.append("*" + a.vararg.arg)
    names += [x.arg for x in a.kwonlyargs]
    if a.kwarg:
        names.append("**" + a.kwarg.arg)
    return names[1:] if names and names[0] == "self" else names


def _body(fn: ast.AST) -> List[ast.stmt]:
    body = list(fn.body)  # type: ignore[attr-defined]
    if body and isinstance(body[0], ast.Expr) and isinstance(body[0].value, ast.Constant) and isinstance(body[0].value.value, str):
        body = body[1:]  # docstring
    return body


def collect() -> Dict[str, Any]:
    t: Dict[str, Any] = {"managerWrappers": [], "pluginBaseHooks": [], "applyLoop": [], "nonUniformWrappers": [], "_problems": []}
    root = common.REPO / "ariadne_codegen" / "plugins"
    try:
        mtree = ast.parse((root / "manager.py").read_text())
        cls = _class(mtree, "PluginManager")
        if cls is None:
            raise ValueError("class PluginManager not found")
        for fn in cls.body:
            if not isinstance(fn, (ast.FunctionDef, ast.AsyncFunctionDef)):
                continue
            if fn.name.startswith("_"):
                continue
            hook, obj, kws = "", "", ""
            body = _body(fn)
            # the ONE call of `self._apply_plugins_on_object(...)` anywhere in the method (robust against local refactors);
            # a method that loops over the plugins itself (`process_schema`) is read off its `plugin.<hook>(...)` call
            calls = [n for s_ in body for n in ast.walk(s_) if isinstance(n, ast.Call) and isinstance(n.func, ast.Attribute)]
            applies = [c for c in calls if c.func.attr == "_apply_plugins_on_object"]
            if len(applies) == 1:
                call = applies[0]
                if (len(call.args) == 2 and isinstance(call.args[0], ast.Constant) and isinstance(call.args[0].value, str)
                        and isinstance(call.args[1], ast.Name) and all(k.arg is not None and isinstance(k.value, ast.Name) for k in call.keywords)):
                    hook, obj = call.args[0].value, call.args[1].id
                    kws = ",".join(f"{k.arg}={k.value.id}" for k in call.keywords)  # type: ignore[attr-defined]
            elif not applies:
                own = [c for c in calls if isinstance(c.func.value, ast.Name) and c.func.value.id == "plugin" and len(c.args) >= 1]
                if len(own) == 1 and not own[0].keywords:
                    hook = own[0].func.attr
                    params = _params(fn)
                    obj = params[0] if params else ""
                    t["nonUniformWrappers"].append((fn.name, "own loop over self.plugins"))
            t["managerWrappers"].append((fn.name, hook, obj, ",".join(_params(fn)), kws))
        t["managerWrappers"].sort()
    except Exception as e:  # noqa: BLE001
        t["_problems"].append(f"manager.py: {e!r}")
    try:
        btree = ast.parse((root / "base.py").read_text())
        cls = _class(btree, "Plugin")
        if cls is None:
            raise ValueError("class Plugin not found")
        for fn in cls.body:
            if not isinstance(fn, (ast.FunctionDef, ast.AsyncFunctionDef)) or fn.name.startswith("_"):
                continue
            body = _body(fn)
            ret = ""
            if len(body) == 1 and isinstance(body[0], ast.Return) and isinstance(body[0].value, ast.Name):
                ret = body[0].value.id
            t["pluginBaseHooks"].append((fn.name, ",".join(_params(fn)), ret))
        t["pluginBaseHooks"].sort()
    except Exception as e:  # noqa: BLE001
        t["_problems"].append(f"base.py: {e!r}")
    return t


def _tuples(xs: List[Tuple[str, ...]]) -> str:
    if not xs:
        return "[]"
    return "\n  [" + ",\n   ".join("(" + ", ".join(lstr(str(a)) for a in row) + ")" for row in xs) + "]"


def render(t: Dict[str, Any]) -> str:
    L: List[str] = []
    L.append("/-")
    L.append("  GENERATED by harness/tables_plugins.py from /repo's working tree on every check run. DO NOT EDIT.")
    L.append("  Data of plugins/manager.py and plugins/base.py that the model of the plugin manager (C15) depends on.")
    L.append("-/")
    L.append("namespace Ariadne.PluginTables")
    L.append("")
    L.append("/-- public methods of `PluginManager`: (name, hook handed to `_apply_plugins_on_object`, object argument,")
    L.append("    parameters after `self`, keyword arguments of the dispatch) -/")
    L.append(f"def managerWrappers : List (String × String × String × String × String) := {_tuples(t['managerWrappers'])}")
    L.append("")
    L.append("/-- public methods of `plugins.base.Plugin`: (hook, parameters after `self`, the parameter the body returns) -/")
    L.append(f"def pluginBaseHooks : List (String × String × String) := {_tuples(t['pluginBaseHooks'])}")
    L.append("")
    L.append("/-- public methods of `PluginManager` that loop over the plugins themselves instead of calling `_apply_plugins_on_object`: (name, note) -/")
    L.append(f"def nonUniformWrappers : List (String × String) := {_tuples(t['nonUniformWrappers'])}")
    L.append("")
    L.append("end Ariadne.PluginTables")
    return "\n".join(L) + "\n"


def regenerate() -> str:
    t = collect()
    text = render(t)
    target = common.LEAN / "AriadneModel" / "Generated" / "PluginTables.lean"
    target.parent.mkdir(parents=True, exist_ok=True)
    old = target.read_text() if target.exists() else None
    if old != text:
        tmp = target.with_suffix(f".tmp{os.getpid()}")
        tmp.write_text(text)
        os.replace(tmp, target)
    probs = t.get("_problems")
    return f"; plugin tables problems: {probs}" if probs else ""


if __name__ == "__main__":
    print(regenerate())
