"""Source text of the helper plugin module the C15 check makes importable (written into the scratch
directory of a case as `verif_c15_plugins.py`, the scratch directory is put on sys.path of the forked
child).  It is *text* so that the module ariadne-codegen's plugin explorer imports is a real file.

  IdentityPlugin   overrides no hook (the property's "plugin overriding no hook").
  RecorderFirst    an identity plugin too, but every hook *observes*: it appends a canonical snapshot
  RecorderLast     of the object it is handed (and of the hook's extra arguments it needs) to
                   the module-level EVENTS lists.  Placed first in the plugin
                   list it sees what the generator hands to the plugin manager; placed last it sees
                   what the configured plugins made of it.  Snapshots are taken at hook time because the
                   bundled plugins mutate the ASTs in place afterwards.
"""

SRC = r'''
import ast, json, os
from ariadne_codegen.plugins.base import Plugin


class IdentityPlugin(Plugin):
    pass


def _text(node):
    """canonical text of a node the plugins never look into (same for generator-built and re-parsed trees)"""
    try:
        return type(node).__name__ + ":" + ast.unparse(node)
    except Exception:
        return ast.dump(node)


def _loads(node):
    out = []
    for n in ast.walk(node):
        if isinstance(n, ast.Name) and n.id not in out:
            out.append(n.id)
    return out


def ex(node):
    """ast.expr -> IR (see lean/AriadneModel/Model/PyIR.lean)"""
    if node is None:
        return None
    if isinstance(node, list):  # the generator puts a *Python list* of Constant nodes into gql(...)'s args
        if all(isinstance(x, ast.Constant) and isinstance(x.value, str) for x in node):
            return {"strs": [x.value for x in node]}
        return {"o": "pylist:" + repr([ast.dump(x) if isinstance(x, ast.AST) else repr(x) for x in node]), "l": []}
    if isinstance(node, ast.Name):
        return {"n": node.id}
    if isinstance(node, ast.Constant) and isinstance(node.value, str):
        return {"c": node.value}
    if isinstance(node, ast.Subscript):
        return {"s": [ex(node.value), ex(node.slice)]}
    if isinstance(node, ast.Tuple):
        return {"t": [ex(e) for e in node.elts]}
    if isinstance(node, ast.Attribute):
        return {"a": [ex(node.value), node.attr]}
    if isinstance(node, ast.Call):
        return {"call": [ex(node.func), [ex(a) for a in node.args], [[k.arg, ex(k.value)] for k in node.keywords]]}
    if isinstance(node, ast.Await):
        return {"aw": ex(node.value)}
    if isinstance(node, ast.Yield):
        return {"y": ex(node.value)}
    if isinstance(node, ast.AST):
        return {"o": _text(node), "l": _loads(node)}
    return {"o": "py:" + repr(node), "l": []}


def imp(node):
    return {"module": node.module, "names": [[a.name, a.asname] for a in node.names], "level": node.level or 0}


def stmt(node):
    if isinstance(node, ast.ImportFrom):
        return {"k": "importFrom", "imp": imp(node)}
    if isinstance(node, ast.Import):
        return {"k": "import", "dump": _text(node)}
    if isinstance(node, ast.Assign) and len(node.targets) == 1 and isinstance(node.targets[0], ast.Name):
        v = node.value
        if isinstance(v, ast.List) and all(isinstance(e, ast.Constant) and isinstance(e.value, str) for e in v.elts):
            return {"k": "assignList", "target": node.targets[0].id, "elts": [e.value for e in v.elts]}
        return {"k": "assign", "target": node.targets[0].id, "value": ex(node.value)}
    if isinstance(node, ast.AnnAssign):
        return {"k": "annAssign", "target": ex(node.target), "ann": ex(node.annotation),
                "value": ex(node.value) if node.value is not None else None}
    if isinstance(node, ast.Return):
        return {"k": "ret", "value": ex(node.value) if node.value is not None else None}
    if isinstance(node, ast.Expr):
        return {"k": "expr", "value": ex(node.value)}
    if isinstance(node, ast.AsyncFor):
        body = node.body if isinstance(node.body, list) else [node.body]
        return {"k": "asyncFor", "target": ex(node.target), "iter": ex(node.iter), "body": [stmt(b) for b in body],
                "bodyList": isinstance(node.body, list), "orelse": len(node.orelse or [])}
    if isinstance(node, ast.If):
        return {"k": "if", "test": ex(node.test), "body": [stmt(b) for b in node.body], "orelse": len(node.orelse or [])}
    if isinstance(node, (ast.FunctionDef, ast.AsyncFunctionDef)):
        return {"k": "def", "m": method(node)}
    if isinstance(node, ast.ClassDef):
        return {"k": "class", "c": klass(node)}
    if isinstance(node, ast.AST):
        return {"k": "other", "dump": _text(node), "l": _loads(node)}
    return {"k": "other", "dump": "py:" + repr(node), "l": []}


def method(node):
    a = node.args
    rest = ast.arguments(posonlyargs=a.posonlyargs, args=[], vararg=a.vararg, kwonlyargs=a.kwonlyargs,
                         kw_defaults=a.kw_defaults, kwarg=a.kwarg, defaults=a.defaults)
    return {"async": isinstance(node, ast.AsyncFunctionDef), "name": node.name,
            "args": [[x.arg, ex(x.annotation)] for x in a.args],
            "rest": {"o": _text(rest), "l": _loads(rest)},
            "decorators": len(node.decorator_list or []),
            "returns": ex(node.returns), "body": [stmt(s) for s in node.body]}


def klass(node):
    return {"name": node.name, "bases": [ex(b) for b in node.bases], "keywords": len(node.keywords or []),
            "body": [stmt(s) for s in node.body]}


def module(node):
    return {"body": [stmt(s) for s in node.body]}


EVENTS = {"first": [], "last": []}   # read by the harness from sys.modules after the generation (also after a crash)


class _Recorder(Plugin):
    TAG = "x"

    def __init__(self, schema, config_dict):
        super().__init__(schema, config_dict)
        self._events = EVENTS[self.TAG]

    @staticmethod
    def _caller():
        """class of the generator object that called the plugin manager (several generators share
        the hook `generate_client_import`)"""
        import sys as _sys
        f = _sys._getframe(2)
        while f is not None:
            obj = f.f_locals.get("self")
            if obj is not None and not isinstance(obj, Plugin) and type(obj).__name__ != "PluginManager":
                return type(obj).__name__
            f = f.f_back
        return None

    def _rec(self, hook, payload, **ctx):
        self._events.append({"hook": hook, "payload": payload, "caller": self._caller(), **ctx})

    @staticmethod
    def _op(defn):
        name = getattr(getattr(defn, "name", None), "value", None)
        kind = getattr(getattr(defn, "operation", None), "value", None)  # None for fragments
        return {"op": name, "kind": kind}

    def generate_init_module(self, module_):
        self._rec("generate_init_module", module(module_))
        return module_

    def generate_init_import(self, import_):
        self._rec("generate_init_import", imp(import_))
        return import_

    def generate_client_module(self, module_):
        self._rec("generate_client_module", module(module_))
        return module_

    def generate_gql_function(self, function_def):
        self._rec("generate_gql_function", method(function_def))
        return function_def

    def generate_client_class(self, class_def):
        self._rec("generate_client_class", klass(class_def))
        return class_def

    def generate_client_import(self, import_):
        self._rec("generate_client_import", imp(import_))
        return import_

    def generate_client_method(self, method_def, operation_definition):
        self._rec("generate_client_method", method(method_def), **self._op(operation_definition))
        return method_def

    def generate_result_types_module(self, module_, operation_definition):
        self._rec("generate_result_types_module", module(module_), **self._op(operation_definition))
        return module_

    def generate_operation_str(self, operation_str, operation_definition):
        self._rec("generate_operation_str", operation_str, **self._op(operation_definition))
        return operation_str

    def generate_result_class(self, class_def, operation_definition, selection_set):
        self._rec("generate_result_class", klass(class_def), **self._op(operation_definition))
        return class_def

    def generate_fragments_module(self, module_, fragments_definitions):
        self._rec("generate_fragments_module", module(module_))
        return module_


class RecorderFirst(_Recorder):
    TAG = "first"


class RecorderLast(_Recorder):
    TAG = "last"
'''
