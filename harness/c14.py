"""C14 — the custom operation builder emits valid, faithful, history-free documents.

Tie (DESIGN.md §3 C14):
  model   lean/AriadneModel/Model/CustomGen.lean  (schema -> generated builder classes)
          lean/AriadneModel/Model/Builder.lean    (GraphQLField objects, shared class-level objects in a
                                                   store, to_ast / get_formatted_variables, client assembly)
          lean/AriadneModel/Model/BuilderLet.lean (programs with PYTHON VARIABLES: objects that outlive an operation)
          lean/AriadneModel/Spec/BuilderDoc.lean  (validator, resolved documents, finding triggers)
          lean/AriadneModel/Spec/BuilderLetDoc.lean (F6 trigger)
  impl    random schema -> REAL generator (enable_custom_operations, sync and async) in a forked child ->
          the generated classes are inspected with `ast` (which accessor is a class-level object, which a
          classmethod; field_name constants; recorded argument types) -> random builder expressions and
          random HISTORIES are evaluated against the real generated classes, each sequence in its own
          forked grandchild (pristine class-level state), the request is captured through
          httpx.MockTransport and the sent query is parsed with graphql-core into a document IR.
          flavours of sequences: clean / wild / one finding region at a time / deep / deliberately ill-formed /
          directed (objects with arguments kept in variables and re-used in later operations under other top-level
          indices) / varmut (alias applied through a variable in an ASSIGNMENT: model compared, oracle off) /
          crowded (2-3 top-level fields whose trees repeat argument names).
  compared  (a) package table  (b) per operation: the request (document IR + variables JSON + operationName), or the
            exception class
            (c) finding triggers (Lean predicates vs the Python classifier)
            (d) Spec validator vs graphql-core `validate` (all rules but OverlappingFieldsCanBeMerged)
  oracle    the property itself, independent of the Lean model: the sent document parses, validates under the
            full rule set, every used variable is declared once with the argument's exact type and carries
            the caller's value, None arguments are omitted, names are GraphQL names, a reference executor
            receives the caller's values, and the document after a history equals the document built in a
            fresh process.
"""
from __future__ import annotations

import ast
import asyncio
import copy
import json
import random
import sys
from pathlib import Path
from typing import Any, Dict, List, Optional, Tuple

from . import common, engine, wire
from .common import Ctx, Failure, LeanStatus, Mismatch, Result

CG = "ariadne_codegen/client_generators"
FINGERPRINT_ITEMS: List[Tuple[str, Optional[str]]] = [
    (f"{CG}/dependencies/base_operation.py", "GraphQLArgument.to_ast"),
    (f"{CG}/dependencies/base_operation.py", "GraphQLField.__init__"),
    (f"{CG}/dependencies/base_operation.py", "GraphQLField.alias"),
    (f"{CG}/dependencies/base_operation.py", "GraphQLField._build_field_name"),
    (f"{CG}/dependencies/base_operation.py", "GraphQLField._build_selections"),
    (f"{CG}/dependencies/base_operation.py", "GraphQLField._format_variable_name"),
    (f"{CG}/dependencies/base_operation.py", "GraphQLField._collect_all_variables"),
    (f"{CG}/dependencies/base_operation.py", "GraphQLField.to_ast"),
    (f"{CG}/dependencies/base_operation.py", "GraphQLField.get_formatted_variables"),
    (f"{CG}/custom_fields.py", "CustomFieldsGenerator._parse_object_type_definitions"),
    (f"{CG}/custom_fields.py", "CustomFieldsGenerator._generate_class_def_body"),
    (f"{CG}/custom_fields.py", "CustomFieldsGenerator._get_combined_fields"),
    (f"{CG}/custom_fields.py", "CustomFieldsGenerator._get_field_name"),
    (f"{CG}/custom_fields.py", "CustomFieldsGenerator._generate_class_field"),
    (f"{CG}/custom_fields.py", "CustomFieldsGenerator._generate_fields_method"),
    (f"{CG}/custom_fields.py", "CustomFieldsGenerator._generate_on_method"),
    (f"{CG}/custom_fields.py", "CustomFieldsGenerator._generate_alias_method"),
    (f"{CG}/custom_fields.py", "CustomFieldsGenerator.generate_product_type_method"),
    (f"{CG}/custom_arguments.py", "ArgumentGenerator.generate_arguments"),
    (f"{CG}/custom_arguments.py", "ArgumentGenerator._accumulate_method_arguments"),
    (f"{CG}/custom_arguments.py", "ArgumentGenerator._accumulate_return_arguments"),
    (f"{CG}/custom_arguments.py", "ArgumentGenerator._generate_return_arg_value"),
    (f"{CG}/custom_arguments.py", "ArgumentGenerator.generate_clear_arguments_section"),
    (f"{CG}/custom_operation.py", "CustomOperationGenerator.generate"),
    (f"{CG}/custom_operation.py", "CustomOperationGenerator._generate_method"),
    (f"{CG}/custom_operation.py", "CustomOperationGenerator._get_return_type_and_from"),
    (f"{CG}/custom_fields_typing.py", "CustomFieldsTypingGenerator._filter_types"),
    (f"{CG}/custom_fields_typing.py", "CustomFieldsTypingGenerator._generate_field_class"),
    (f"{CG}/custom_fields_typing.py", "CustomFieldsTypingGenerator._generate_on_method"),
    (f"{CG}/custom_fields_typing.py", "CustomFieldsTypingGenerator._generate_alias_method"),
    (f"{CG}/custom_generator_utils.py", "TypeCollector"),
    (f"{CG}/custom_generator_utils.py", "get_final_type"),
    (f"{CG}/client.py", "ClientGenerator.create_combine_variables_method"),
    (f"{CG}/client.py", "ClientGenerator.create_build_variable_definitions_method"),
    (f"{CG}/client.py", "ClientGenerator.create_build_operation_ast_method"),
    (f"{CG}/client.py", "ClientGenerator.create_execute_custom_operation_method"),
    (f"{CG}/client.py", "ClientGenerator.create_build_selection_set"),
    (f"{CG}/client.py", "ClientGenerator.create_custom_operation_method"),
    (f"{CG}/client.py", "ClientGenerator._create_sync_operation_method"),
    (f"{CG}/client.py", "ClientGenerator._create_async_operation_method"),
]

TRIGGERS = ["listArg", "pyName", "sharedMut", "nameClash", "ownedReuse"]
# C14-F2 ("deepVars": an argument below level 2 was never declared) was repaired by /repo dfbc7ef: its old
# trigger is no trigger any more.  The predicate is kept (here and in the Lean driver) only to MEASURE how
# many generated operations lie in the region the theorem gained (`region:old-F2 ...`).
# failure signature -> finding triggers that may explain it, most specific first
SIGNATURE_TRIGGERS: Dict[str, List[str]] = {
    "var-type-not-exact": ["listArg", "nameClash", "sharedMut"],
    "var-undeclared": ["sharedMut", "ownedReuse"],
    "field-name-not-graphql": ["pyName", "sharedMut"],
    "var-declared-twice": [],
    "document-does-not-parse": [],
    "operation-name-lost": [],
    "server-rejects-valid-document": [],
    "generation-fails": [],
    "var-shared-between-uses": ["nameClash", "sharedMut"],
    "var-not-bound-to-callers-value": ["nameClash", "sharedMut"],
    "server-receives-other-value": ["nameClash", "sharedMut"],
    "history-dependent": ["sharedMut", "ownedReuse"],
    "alias-not-as-written": ["sharedMut"],
    "selection-differs": ["sharedMut"],
    "argument-set-differs": ["sharedMut"],
    "builder-raises": ["sharedMut"],
    "validation-error": ["sharedMut", "ownedReuse"],
    "var-declared-unused": ["sharedMut"],
}

# --------------------------------------------------------------------------------------------
# type references
# --------------------------------------------------------------------------------------------

BUILTIN = ["String", "Int", "Float", "Boolean", "ID"]


def T_named(n: str) -> Dict[str, Any]:
    return {"n": n}


def T_final(t: Dict[str, Any]) -> str:
    while "n" not in t:
        t = t.get("l") or t.get("nn")
    return t["n"]


def T_str(t: Dict[str, Any]) -> str:
    if "n" in t:
        return t["n"]
    if "l" in t:
        return "[" + T_str(t["l"]) + "]"
    return T_str(t["nn"]) + "!"


def T_has_list(t: Dict[str, Any]) -> bool:
    if "n" in t:
        return False
    if "l" in t:
        return True
    return T_has_list(t["nn"])


def T_nonnull(t: Dict[str, Any]) -> bool:
    return "nn" in t


# --------------------------------------------------------------------------------------------
# schema generator (IR is what the Lean driver reads; python names are filled in by the child with
# the REAL process_name / str_to_snake_case)
# --------------------------------------------------------------------------------------------

OBJ_NAMES = ["User", "Post", "Comment", "Tag", "Group", "Item", "Page", "Media"]
IFACE_NAMES = ["Node", "Named", "Entity"]
UNION_NAMES = ["SearchResult", "Feed", "Pet"]
ENUM_NAMES = ["Role", "Order", "Color"]
ENUM_VALUES = ["ADMIN", "USER", "ASC", "DESC", "RED", "GREEN"]
INPUT_NAMES = ["Filter", "Paging", "RangeInput"]
SCALAR_NAMES = ["DateTime", "JSON"]
LEAF_SIMPLE = ["name", "title", "count", "ratio", "active", "kind", "score", "label", "status", "code"]
LEAF_CAMEL = ["createdAt", "displayName", "isOpen", "lastSeenAt", "viewCount", "HTMLBody"]
LEAF_SNAKE = ["legacy_code", "old_title"]
COMP_SIMPLE = ["owner", "parent", "author", "items", "children", "target", "pet", "node", "group"]
COMP_CAMEL = ["bestFriend", "topItems", "ownerGroup", "relatedPosts", "mainTarget"]
ARG_SIMPLE = ["first", "after", "lang", "limit", "text", "upper", "min", "where"]
ARG_CAMEL = ["orderBy", "maxLen", "includeAll", "sortKey"]
ARG_TRICKY = ["n_0", "first_1", "x_0_1", "limit_0", "n"]
ROOT_SIMPLE = ["me", "user", "users", "search", "node", "version", "feed", "item", "stats"]
ROOT_CAMEL = ["topUsers", "currentUser", "allItems", "serverTime"]
MUT_NAMES = ["createUser", "updateItem", "deletePost", "touch"]


def wrap_out(rng: random.Random, base: Dict[str, Any]) -> Dict[str, Any]:
    t = base
    if rng.random() < 0.4:
        t = {"nn": t}
    if rng.random() < 0.3:
        t = {"l": t}
        if rng.random() < 0.5:
            t = {"nn": t}
    return t


def wrap_arg(rng: random.Random, base: Dict[str, Any], p_list: float, p_required: float) -> Dict[str, Any]:
    t = base
    if rng.random() < p_list:
        if rng.random() < 0.6:
            t = {"nn": t}
        t = {"l": t}
        if rng.random() < 0.2:
            t = {"l": {"nn": t}} if rng.random() < 0.5 else {"l": t}
    if rng.random() < p_required:
        t = {"nn": t}
    return t


def gen_schema(rng: random.Random) -> Dict[str, Any]:
    p_camel = rng.choice([0.0, 0.25, 0.5])
    p_list = rng.choice([0.0, 0.15, 0.35])
    p_tricky = rng.choice([0.0, 0.0, 0.3])
    n_obj = rng.randint(2, 5)
    objs = rng.sample(OBJ_NAMES, n_obj)
    ifaces = rng.sample(IFACE_NAMES, rng.randint(0, 2))
    unions = rng.sample(UNION_NAMES, rng.randint(0, 2))
    enums = rng.sample(ENUM_NAMES, rng.randint(1, 2))
    inputs = rng.sample(INPUT_NAMES, rng.randint(1, 2))
    scalars = rng.sample(SCALAR_NAMES, rng.randint(0, 1))
    types: List[Dict[str, Any]] = []
    for s in BUILTIN + scalars:
        types.append({"name": s, "kind": "scalar"})
    enum_vals: Dict[str, List[str]] = {}
    for e in enums:
        enum_vals[e] = rng.sample(ENUM_VALUES, rng.randint(2, 3))
        types.append({"name": e, "kind": "enum", "values": enum_vals[e]})
    arg_leaf_types = BUILTIN + scalars + enums
    p_default = rng.choice([0.0, 0.3, 0.6])

    def default_literal(base: str) -> Optional[str]:
        """SDL literal of a schema default (`limit: Int! = 10`) for builtin scalars and enums"""
        if base in enum_vals:
            return enum_vals[base][0]
        return {"Int": "10", "Float": "1.5", "Boolean": "true", "String": '"dflt"', "ID": '"1"'}.get(base)

    def pick_arg_name(used: List[str]) -> str:
        pool = ARG_TRICKY if rng.random() < p_tricky else (ARG_CAMEL if rng.random() < p_camel else ARG_SIMPLE)
        cand = [a for a in pool if a not in used] or [a for a in ARG_SIMPLE + ARG_CAMEL + ARG_TRICKY if a not in used]
        return rng.choice(cand)

    for i, inp in enumerate(inputs):
        fields = []
        used: List[str] = []
        for _ in range(rng.randint(1, 3)):
            nm = pick_arg_name(used)
            used.append(nm)
            base = rng.choice(arg_leaf_types + inputs[:i])
            fields.append({"name": nm, "ty": wrap_arg(rng, T_named(base), 0.2, 0.2)})
        types.append({"name": inp, "kind": "input", "inputFields": fields})

    def gen_args(n_max: int) -> List[Dict[str, Any]]:
        out: List[Dict[str, Any]] = []
        used: List[str] = []
        for _ in range(rng.randint(1, n_max)):
            nm = pick_arg_name(used)
            used.append(nm)
            base = rng.choice(arg_leaf_types + inputs)
            arg = {"name": nm, "ty": wrap_arg(rng, T_named(base), p_list, 0.3)}
            # a NON-NULL argument with a schema default (`limit: Int! = 10`): still a required parameter of the generated
            # classmethod, still declared `Int!` (the harness always passes it, so the default never takes effect)
            if T_nonnull(arg["ty"]) and not T_has_list(arg["ty"]) and default_literal(base) is not None and rng.random() < p_default:
                arg["default"] = default_literal(base)
            out.append(arg)
        return out

    def leaf_field(used: List[str]) -> Dict[str, Any]:
        r = rng.random()
        pool = LEAF_CAMEL if r < p_camel else (LEAF_SNAKE if r < p_camel + 0.05 else LEAF_SIMPLE)
        cand = [n for n in pool if n not in used] or [n for n in LEAF_SIMPLE + LEAF_CAMEL if n not in used]
        nm = rng.choice(cand)
        used.append(nm)
        base = rng.choice(BUILTIN + scalars + enums)
        return {"name": nm, "ty": wrap_out(rng, T_named(base)), "args": gen_args(2) if rng.random() < 0.35 else []}

    def comp_field(used: List[str], targets: List[str]) -> Dict[str, Any]:
        pool = COMP_CAMEL if rng.random() < p_camel else COMP_SIMPLE
        cand = [n for n in pool if n not in used] or [n for n in COMP_SIMPLE + COMP_CAMEL if n not in used]
        nm = rng.choice(cand)
        used.append(nm)
        return {"name": nm, "ty": wrap_out(rng, T_named(rng.choice(targets))), "args": gen_args(2) if rng.random() < 0.45 else []}

    composite_targets = objs + ifaces + unions
    iface_defs: Dict[str, Dict[str, Any]] = {}
    iface_used = ["id"]  # interfaces share no field name but `id` (an object may implement several of them)
    for itf in ifaces:
        used = iface_used
        fields = [{"name": "id", "ty": {"nn": T_named("ID")}, "args": []}]
        for _ in range(rng.randint(0, 2)):
            fields.append(leaf_field(used) if rng.random() < 0.7 else comp_field(used, composite_targets))
        iface_defs[itf] = {"name": itf, "kind": "interface", "fields": fields, "interfaces": []}
    obj_defs: List[Dict[str, Any]] = []
    impl_of = {o: [i for i in ifaces if rng.random() < 0.6] for o in objs}
    for i in ifaces:  # every interface has at least one implementing object type
        if not any(i in v for v in impl_of.values()):
            impl_of[rng.choice(objs)].append(i)
    for o in objs:
        impl = [i for i in ifaces if i in impl_of[o]]
        used = ["id"]
        fields = [{"name": "id", "ty": {"nn": T_named("ID")}, "args": []}]
        for i in impl:
            for f in iface_defs[i]["fields"]:
                if f["name"] in used:
                    continue
                used.append(f["name"])
                g = copy.deepcopy(f)
                if g["args"] and rng.random() < 0.2:  # objects may add optional arguments to an interface field
                    extra = pick_arg_name([a["name"] for a in g["args"]])
                    g["args"].append({"name": extra, "ty": T_named("Int")})
                fields.append(g)
        for _ in range(rng.randint(1, 4)):
            fields.append(leaf_field(used) if rng.random() < 0.55 else comp_field(used, composite_targets))
        rng.shuffle(fields)
        obj_defs.append({"name": o, "kind": "object", "fields": fields, "interfaces": impl})
    # an interface nobody implements is not a valid target for expressions but is legal SDL
    for itf in ifaces:
        types.append(iface_defs[itf])
    types += obj_defs
    for u in unions:
        types.append({"name": u, "kind": "union", "members": rng.sample(objs, rng.randint(1, min(3, len(objs))))})

    def root_fields(names_simple: List[str], names_camel: List[str], n: int) -> List[Dict[str, Any]]:
        used: List[str] = []
        out = []
        for _ in range(n):
            pool = names_camel if rng.random() < max(p_camel, 0.2) else names_simple
            cand = [x for x in pool if x not in used] or [x for x in names_simple + names_camel if x not in used]
            nm = rng.choice(cand)
            used.append(nm)
            if rng.random() < 0.15:
                ty = wrap_out(rng, T_named(rng.choice(BUILTIN + enums)))
            else:
                ty = wrap_out(rng, T_named(rng.choice(composite_targets)))
            out.append({"name": nm, "ty": ty, "args": gen_args(3) if rng.random() < 0.65 else []})
        return out

    qname = "Query"
    types.append({"name": qname, "kind": "object", "fields": root_fields(ROOT_SIMPLE, ROOT_CAMEL, rng.randint(3, 5)), "interfaces": []})
    mname = None
    if rng.random() < 0.5:
        mname = "Mutation"
        types.append({"name": mname, "kind": "object", "fields": root_fields(MUT_NAMES, MUT_NAMES, rng.randint(1, 2)), "interfaces": []})
    return {"types": types, "query": qname, "mutation": mname}


def to_sdl(s: Dict[str, Any]) -> str:
    out: List[str] = []
    for t in s["types"]:
        k = t["kind"]
        if k == "scalar":
            if t["name"] not in BUILTIN:
                out.append(f"scalar {t['name']}")
        elif k == "enum":
            out.append(f"enum {t['name']} {{ " + " ".join(t["values"]) + " }")
        elif k == "input":
            out.append(f"input {t['name']} {{ " + " ".join(f"{f['name']}: {T_str(f['ty'])}" for f in t["inputFields"]) + " }")
        elif k == "union":
            out.append(f"union {t['name']} = " + " | ".join(t["members"]))
        else:
            head = ("interface " if k == "interface" else "type ") + t["name"]
            if t.get("interfaces"):
                head += " implements " + " & ".join(t["interfaces"])
            fs = []
            for f in t["fields"]:
                a = ""
                if f["args"]:
                    a = "(" + ", ".join(f"{x['name']}: {T_str(x['ty'])}" + (f" = {x['default']}" if x.get("default") else "")
                                        for x in f["args"]) + ")"
                fs.append(f"  {f['name']}{a}: {T_str(f['ty'])}")
            out.append(head + " {\n" + "\n".join(fs) + "\n}")
    roots = f"schema {{ query: {s['query']}" + (f" mutation: {s['mutation']}" if s.get("mutation") else "") + " }"
    return roots + "\n" + "\n".join(out) + "\n"


def schema_for_lean(s: Dict[str, Any]) -> Dict[str, Any]:
    types = []
    for t in s["types"]:
        types.append({
            "name": t["name"], "kind": t["kind"],
            "fields": [{"name": f["name"], "py": f["py"], "opPy": f["opPy"], "ty": f["ty"],
                        "args": [{"name": a["name"], "py": a["py"], "ty": a["ty"]} for a in f["args"]]} for f in t.get("fields", [])],
            "interfaces": t.get("interfaces", []), "members": t.get("members", []),
        })
    return {"types": types, "query": s["query"], "mutation": s.get("mutation")}


def type_index(s: Dict[str, Any]) -> Dict[str, Dict[str, Any]]:
    return {t["name"]: t for t in s["types"]}


def combined_fields(s: Dict[str, Any], tname: str) -> List[Dict[str, Any]]:
    """what the generated class of `tname` exposes (interface versions win) — the harness's own reading, used
    only to know which schema field an accessor stands for"""
    idx = type_index(s)
    t = idx[tname]
    d = {f["name"]: f for f in t["fields"]}
    for i in t.get("interfaces", []):
        for f in idx[i]["fields"]:
            d[f["name"]] = f
    return list(d.values())


# --------------------------------------------------------------------------------------------
# inspection of the generated code with `ast` (no import)
# --------------------------------------------------------------------------------------------


def _const(node: Any) -> Any:
    return node.value if isinstance(node, ast.Constant) else None


def extract_table(pkg_dir: Path) -> List[Dict[str, Any]]:
    """classes of the builder API as the REAL generated code defines them"""
    classes: List[Dict[str, Any]] = []
    base_has = {"fields": False, "on": False, "alias": False}
    base_src = ast.parse((pkg_dir / "base_operation.py").read_text())
    for node in base_src.body:
        if isinstance(node, ast.ClassDef) and node.name == "GraphQLField":
            for fn in node.body:
                if isinstance(fn, ast.FunctionDef) and fn.name in base_has:
                    base_has[fn.name] = True
    classes.append({"name": "GraphQLField", "accessors": [], "fields": base_has["fields"], "on": base_has["on"], "alias": base_has["alias"]})
    for fname in ("custom_fields.py", "custom_typing_fields.py", "custom_queries.py", "custom_mutations.py"):
        p = pkg_dir / fname
        if not p.exists():
            continue
        tree = ast.parse(p.read_text())
        for node in tree.body:
            if not isinstance(node, ast.ClassDef):
                continue
            derives = any(isinstance(b, ast.Name) and b.id == "GraphQLField" for b in node.bases)
            entry: Dict[str, Any] = {"name": node.name, "accessors": [],
                                     "fields": derives and base_has["fields"], "on": derives and base_has["on"],
                                     "alias": derives and base_has["alias"]}
            for item in node.body:
                if isinstance(item, ast.AnnAssign) and isinstance(item.target, ast.Name) and isinstance(item.value, ast.Call):
                    call = item.value
                    acc = {"attr": item.target.id, "kind": "shared", "cls": getattr(call.func, "id", "?"),
                           "fieldName": _const(call.args[0]) if call.args else None, "args": []}
                    if len(call.args) != 1 or call.keywords:
                        acc["anomaly"] = "shared constructor call has unexpected arguments"
                    entry["accessors"].append(acc)
                elif isinstance(item, ast.FunctionDef):
                    is_cm = any(isinstance(d, ast.Name) and d.id == "classmethod" for d in item.decorator_list)
                    if not is_cm:
                        if item.name in ("fields", "on", "alias"):
                            entry[item.name] = True
                        continue
                    entry["accessors"].append(_method_accessor(item))
            classes.append(entry)
    return classes


def _method_accessor(fn: ast.FunctionDef) -> Dict[str, Any]:
    acc: Dict[str, Any] = {"attr": fn.name, "kind": "method", "cls": "?", "fieldName": None, "args": []}
    positional = [a.arg for a in fn.args.args[1:]]
    kwonly = [a.arg for a in fn.args.kwonlyargs]
    kw_defaults_none = all(isinstance(d, ast.Constant) and d.value is None for d in fn.args.kw_defaults)
    if fn.args.defaults or not kw_defaults_none or fn.args.vararg or fn.args.kwarg:
        acc["anomaly"] = "unexpected signature"
    arguments_dict: Optional[ast.Dict] = None
    cleared_ok = False
    ret: Optional[ast.Call] = None
    for st in fn.body:
        if isinstance(st, ast.AnnAssign) and isinstance(st.target, ast.Name) and st.target.id == "arguments" and isinstance(st.value, ast.Dict):
            arguments_dict = st.value
        elif isinstance(st, ast.Assign) and isinstance(st.targets[0], ast.Name) and st.targets[0].id == "cleared_arguments":
            src = ast.unparse(st.value).replace('"', "'")
            cleared_ok = src == "{key: value for key, value in arguments.items() if value['value'] is not None}"
        elif isinstance(st, ast.Return) and isinstance(st.value, ast.Call):
            ret = st.value
    if ret is None:
        acc["anomaly"] = "no return call"
        return acc
    acc["cls"] = getattr(ret.func, "id", "?")
    kws = {k.arg: k.value for k in ret.keywords}
    if ret.args:
        acc["fieldName"] = _const(ret.args[0])
    elif "field_name" in kws:
        acc["fieldName"] = _const(kws["field_name"])
    if arguments_dict is not None:
        for k, v in zip(arguments_dict.keys, arguments_dict.values):
            key = _const(k)
            ty = None
            param = None
            if isinstance(v, ast.Dict):
                for kk, vv in zip(v.keys, v.values):
                    if _const(kk) == "type":
                        ty = _const(vv)
                    elif _const(kk) == "value":
                        if isinstance(vv, ast.Name):
                            param = vv.id
                        elif isinstance(vv, ast.Call) and vv.args and isinstance(vv.args[0], ast.Name):
                            param = vv.args[0].id
            acc["args"].append({"key": key, "ty": ty, "param": param, "required": param in positional})
            if param not in positional and param not in kwonly:
                acc["anomaly"] = f"argument value {param!r} is not a parameter"
        passed = kws.get("arguments")
        if not (cleared_ok and isinstance(passed, ast.Name) and passed.id == "cleared_arguments"):
            acc["anomaly"] = "arguments are not cleared of None values as modelled"
        if sorted(positional + kwonly) != sorted(a["param"] for a in acc["args"]):
            acc["anomaly"] = "parameters and arguments dict disagree"
    elif positional or kwonly or "arguments" in kws:
        acc["anomaly"] = "parameters without an arguments dict"
    return acc


# --------------------------------------------------------------------------------------------
# builder expressions at the schema level (SE) and their translation
# --------------------------------------------------------------------------------------------


class ExprGen:
    """Random builder expressions over the REAL generated classes (table) of a schema."""

    def __init__(self, rng: random.Random, schema: Dict[str, Any], table: List[Dict[str, Any]]) -> None:
        self.rng = rng
        self.s = schema
        self.idx = type_index(schema)
        self.table = {c["name"]: c for c in table}
        self.alias_counter = 0
        self.mode: Dict[str, Any] = {}
        # python variables of the current sequence: name -> {"cls": class whose accessor built the object, "resp":
        # response name, "root": built by a Query/Mutation accessor}; `pending` = assignments of the current operation
        self.vars: Dict[str, Dict[str, Any]] = {}
        self.pending: List[List[Any]] = []
        self.var_counter = 0
        self.p_hoist = 0.0
        self.p_reuse = 0.0

    # -- classes / accessors ------------------------------------------------------------------
    def class_for(self, tname: str) -> Optional[str]:
        k = self.idx[tname]["kind"]
        name = tname + {"object": "Fields", "interface": "Interface", "union": "Union"}.get(k, "")
        return name if k in ("object", "interface", "union") and name in self.table else None

    def accessors(self, cls: str, tname: str, root: bool) -> List[Tuple[Dict[str, Any], Dict[str, Any]]]:
        """(accessor of the real table, schema field) pairs of a field class"""
        fields = self.idx[tname]["fields"] if root else combined_fields(self.s, tname)
        out = []
        for acc in self.table[cls]["accessors"]:
            # an accessor whose generated body deviates from what the model reads (`anomaly`) is reported through the
            # package-table observation; it is still used here, so that the oracle sees what it does to real documents
            if acc.get("fieldName") is None or acc.get("cls") == "?":
                continue
            for f in fields:
                if (f["opPy"] if root else f["py"]) == acc["attr"]:
                    out.append((acc, f))
                    break
        return out

    def usable(self, acc: Dict[str, Any], f: Dict[str, Any], depth: int) -> bool:
        fin = T_final(f["ty"])
        kind = self.idx[fin]["kind"]
        m = self.mode
        if kind in ("object", "interface", "union"):
            if acc["cls"] not in self.table:
                return False  # the generated method names a class that was never generated
            if not self.has_leafy_selection(fin):
                return False
            if kind == "union" and acc["kind"] == "shared" and m["clean"]:
                return False  # selecting from a class-level union object needs `.on`, which mutates it
            if kind == "interface" and not self.possible(fin) and not self.leaf_accessors(fin):
                return False
        if m["avoid_camel"] and acc["kind"] == "method" and acc["fieldName"] != f["name"]:
            return False
        if m["avoid_list"] and any(T_has_list(a["ty"]) and T_nonnull(a["ty"]) for a in f["args"]):
            return False
        return True

    def possible(self, tname: str) -> List[str]:
        t = self.idx[tname]
        if t["kind"] == "union":
            return [m for m in t["members"] if self.class_for(m)]
        if t["kind"] == "interface":
            return [o["name"] for o in self.s["types"] if o["kind"] == "object" and tname in o.get("interfaces", []) and self.class_for(o["name"])]
        return [tname]

    def leaf_accessors(self, tname: str) -> List[Tuple[Dict[str, Any], Dict[str, Any]]]:
        cls = self.class_for(tname)
        if not cls or self.idx[tname]["kind"] == "union":
            return []
        return [(a, f) for a, f in self.accessors(cls, tname, False)
                if self.idx[T_final(f["ty"])]["kind"] in ("scalar", "enum") and not any(T_nonnull(x["ty"]) for x in f["args"])]

    def has_leafy_selection(self, tname: str) -> bool:
        k = self.idx[tname]["kind"]
        if k == "union":
            return any(self.leaf_accessors(m) for m in self.possible(tname))
        return bool(self.leaf_accessors(tname)) or (k == "interface" and any(self.leaf_accessors(m) for m in self.possible(tname)))

    # -- values ---------------------------------------------------------------------------------
    def value(self, t: Dict[str, Any], depth: int = 0) -> Any:
        rng = self.rng
        if "nn" in t:
            return self.value(t["nn"], depth)
        if "l" in t:
            return [self.value(t["l"], depth + 1) for _ in range(rng.randint(0, 2))]
        n = t["n"]
        td = self.idx[n]
        if td["kind"] == "enum":
            return rng.choice(td["values"])
        if td["kind"] == "input":
            out: Dict[str, Any] = {}
            for f in td["inputFields"]:
                if T_nonnull(f["ty"]) or rng.random() < 0.5:
                    out[f["name"]] = self.value(f["ty"], depth + 1) if (T_nonnull(f["ty"]) or rng.random() < 0.8) else None
            return out
        if n == "Int":
            return rng.choice([0, 1, 2, 7, 42, -3])
        if n == "Float":
            return rng.choice([0.5, 1.5, 2, -1.25])
        if n == "Boolean":
            return rng.choice([True, False])
        if n in ("String", "ID"):
            return rng.choice(["a", "b", "xyz", "", "42"])
        return rng.choice(["2020-01-01", "tok", "{}"])  # custom scalar without configuration: passed through

    def conv(self, t: Dict[str, Any]) -> Optional[Dict[str, str]]:
        td = self.idx[T_final(t)]
        if td["kind"] == "enum":
            return {"enum": td["name"]}
        if td["kind"] == "input":
            return {"input": td["name"]}
        return None

    # -- nodes ----------------------------------------------------------------------------------
    def fresh_alias(self) -> str:
        self.alias_counter += 1
        return f"al{self.alias_counter}"

    def node(self, cls: str, acc: Dict[str, Any], f: Dict[str, Any], depth: int, max_depth: int, taken: set) -> Optional[Dict[str, Any]]:
        rng = self.rng
        m = self.mode
        args: List[List[Any]] = []
        for a in f["args"]:
            if not any(s["key"] == a["name"] for s in acc["args"]):
                continue  # the generated signature does not expose this argument
            required = T_nonnull(a["ty"])
            give = required or rng.random() < (m.get("p_arg_deep", m["p_arg"]) if depth >= 3 else m["p_arg"])
            if not required and m["avoid_list"] and T_has_list(a["ty"]):
                give = False
            args.append([a["name"], self.value(a["ty"]) if give else None])
        se: Dict[str, Any] = {"cls": cls, "attr": acc["attr"], "field": f["name"], "args": args, "calls": [],
                              "explicitNone": rng.random() < 0.5}
        fin = T_final(f["ty"])
        kind = self.idx[fin]["kind"]
        calls: List[List[Any]] = []
        if kind in ("object", "interface"):
            child_cls = self.class_for(fin)
            assert child_cls
            scope: set = set()
            n_calls = 1 if rng.random() < 0.85 else 2
            for _ in range(n_calls):
                children = self.children(child_cls, fin, depth + 1, max_depth, scope)
                if children:
                    calls.append(["fields", children])
            if kind == "interface" and self.possible(fin) and (not calls or rng.random() < 0.5):
                calls += self.on_calls(fin, depth, max_depth, scope)
            if not calls:
                return None
        elif kind == "union":
            calls += self.on_calls(fin, depth, max_depth, set())
            if not calls:
                return None
        rng.shuffle(calls) if rng.random() < 0.2 else None
        # alias: forced when the response name is taken; class-level objects are aliased only in wild mode
        name_taken = f["name"] in taken
        can_alias = acc["kind"] == "method" or not m["clean"]
        if name_taken and not can_alias:
            return None
        if name_taken or (can_alias and rng.random() < m["p_alias"]):
            al = self.fresh_alias()
            pos = rng.randint(0, len(calls))
            calls.insert(pos, ["alias", al])
            if rng.random() < 0.08:
                calls.insert(pos, ["alias", self.fresh_alias()])  # overwritten by the later call
            taken.add(al)
        else:
            taken.add(f["name"])
        if acc["kind"] == "shared" and any(c[0] == "fields" for c in calls):
            return None
        se["calls"] = calls
        se["kind"] = acc["kind"]
        # keep the object in a python variable (`v3 = UserFields.friends(first=2).fields(...)`) and use the variable
        # here; later selections - of this and of later operations - may use the same OBJECT again.  Only objects a
        # classmethod returned, built without touching a class-level object (those have their own finding, F4).
        if acc["kind"] == "method" and self.p_hoist and rng.random() < self.p_hoist and not se_mutates_shared(se):
            self.var_counter += 1
            name = f"v{self.var_counter}"
            self.vars[name] = {"cls": cls, "resp": se_resp_name(se), "root": depth == 1}
            self.pending.append([name, se])
            return {"var": name}
        return se

    def reuse(self, cls: str, root: bool, taken: set) -> Optional[Dict[str, Any]]:
        """a variable assigned earlier in the sequence whose object fits here (same class of accessors, response name free)"""
        if not self.p_reuse or self.rng.random() >= self.p_reuse:
            return None
        cands = [n for n, v in self.vars.items() if v["cls"] == cls and v["root"] == root and v["resp"] not in taken]
        if not cands:
            return None
        name = self.rng.choice(cands)
        taken.add(self.vars[name]["resp"])
        return {"var": name}

    def on_calls(self, tname: str, depth: int, max_depth: int, scope: set) -> List[List[Any]]:
        rng = self.rng
        poss = [p for p in self.possible(tname) if self.has_leafy_selection(p)]
        rng.shuffle(poss)
        out: List[List[Any]] = []
        for p in poss[: rng.randint(1, 2)]:
            cls = self.class_for(p)
            assert cls
            children = self.children(cls, p, depth + 1, max_depth, scope)
            if children:
                out.append(["on", p, children])
        if out and rng.random() < 0.06:
            # a second .on for the same type replaces the first
            p = out[0][1]
            children = self.children(self.class_for(p), p, depth + 1, max_depth, scope)  # type: ignore
            if children:
                out.append(["on", p, children])
        return out

    def children(self, cls: str, tname: str, depth: int, max_depth: int, scope: set) -> List[Dict[str, Any]]:
        rng = self.rng
        if self.idx[tname]["kind"] == "union":
            return []
        cands = [(a, f) for a, f in self.accessors(cls, tname, False) if self.usable(a, f, depth)]
        if depth >= max_depth:
            cands = [(a, f) for a, f in cands if self.idx[T_final(f["ty"])]["kind"] in ("scalar", "enum")]
        if not cands:
            return []
        out: List[Dict[str, Any]] = []
        for _ in range(rng.randint(1, 3)):
            v = self.reuse(cls, False, scope)
            if v is not None:
                out.append(v)
                continue
            a, f = rng.choice(cands)
            n = self.node(cls, a, f, depth, max_depth, scope)
            if n is not None:
                out.append(n)
        return out

    def top(self, root_cls: str, root_type: str, max_depth: int, taken: set) -> Optional[Dict[str, Any]]:
        v = self.reuse(root_cls, True, taken)
        if v is not None:
            return v
        cands = [(a, f) for a, f in self.accessors(root_cls, root_type, True) if self.usable(a, f, 1)]
        if not cands:
            return None
        a, f = self.rng.choice(cands)
        return self.node(root_cls, a, f, 1, max_depth, taken)

    def op(self, name: str) -> Optional[Dict[str, Any]]:
        rng = self.rng
        use_mut = self.s.get("mutation") and "Mutation" in self.table and rng.random() < 0.2
        root_cls, root_type, op_type = ("Mutation", self.s["mutation"], "mutation") if use_mut else ("Query", self.s["query"], "query")
        if root_cls not in self.table:
            return None
        taken: set = set()
        fields = []
        self.pending = []
        for _ in range(rng.choice(self.mode.get("n_top", [1, 1, 2, 2, 3]))):
            n = self.top(root_cls, root_type, rng.choice(self.mode["depths"]), taken)
            if n is not None:
                fields.append(n)
        if not fields:
            # the assignments already written stay (they were executed), as an operation of their own would not be sent
            for name, _ in self.pending:
                self.vars.pop(name, None)
            self.pending = []
            return None
        out = {"type": op_type, "name": name, "fields": fields}
        if self.pending:
            out["lets"] = self.pending
            self.pending = []
        return out

    def set_mode(self, flavour: str) -> None:
        rng = self.rng
        # no flavour avoids arguments below level 2 any more (C14-F2 is fixed: the property is claimed there)
        if flavour == "clean":
            self.mode = {"clean": True, "avoid_camel": True, "avoid_list": True, "p_arg": 0.6,
                         "p_alias": 0.3, "depths": [1, 2, 3, 4, 5]}
        elif flavour == "wild":
            self.mode = {"clean": False, "avoid_camel": False, "avoid_list": False, "p_arg": 0.6,
                         "p_alias": 0.35, "depths": [2, 3, 4]}
        elif flavour == "directed":  # objects that OUTLIVE an operation: kept in variables, given arguments, used again
            self.mode = {"clean": True, "avoid_camel": True, "avoid_list": True, "p_arg": 0.9, "p_arg_deep": 0.9,
                         "p_alias": 0.2, "depths": [2, 3, 4]}
        elif flavour == "crowded":  # several top-level fields whose trees repeat argument names: the variable-name machinery
            self.mode = {"clean": True, "avoid_camel": True, "avoid_list": True, "p_arg": 0.95, "p_arg_deep": 0.95,
                         "p_alias": 0.3, "depths": [2, 3, 4], "n_top": [2, 3, 3]}
        elif flavour == "deep":  # inside the old F2 region, outside every open trigger: deep trees, arguments given low down
            self.mode = {"clean": True, "avoid_camel": True, "avoid_list": True, "p_arg": 0.5, "p_arg_deep": 0.95,
                         "p_alias": 0.3, "depths": [3, 4, 5, 6]}
        else:  # one finding region at a time
            self.mode = {"clean": True, "avoid_camel": True, "avoid_list": True, "p_arg": 0.7,
                         "p_alias": 0.3, "depths": [2, 3, 4]}
            key = {"list": "avoid_list", "camel": "avoid_camel", "shared": "clean"}[flavour]
            self.mode[key] = False
        _ = rng

    def sequence(self, flavour: str) -> List[Dict[str, Any]]:
        self.set_mode("wild" if flavour == "illformed" else "directed" if flavour == "varmut" else flavour)
        self.vars = {}
        self.pending = []
        # python variables: in 40 % of the sequences (never in the deliberately ill-formed ones) objects returned by
        # classmethods are kept in variables and used again - in the same operation and in later ones
        directed = flavour in ("directed", "varmut")
        with_vars = directed or (flavour != "illformed" and self.rng.random() < 0.4)
        self.p_hoist = (0.6 if directed else 0.3) if with_vars else 0.0
        self.p_reuse = (0.8 if directed else 0.5) if with_vars else 0.0
        n_hist = self.rng.choice([1, 2, 2, 3]) if with_vars else self.rng.choice([0, 1, 1, 2, 3])
        ops = []
        for i in range(n_hist + 1):
            o = self.op(f"Op{i}")
            if o is not None:
                if flavour == "illformed" and self.rng.random() < 0.6:
                    self.break_op(o)
                ops.append(o)
        if flavour == "varmut":
            self.mutate_through_variables(ops)
        return ops

    def mutate_through_variables(self, ops: List[Dict[str, Any]]) -> None:
        """`w = v.alias("z")` in an ASSIGNMENT: the object of `v` is mutated in place (and gets a second name).  The model
        (evalP / mutate on a store object) is compared on every operation of such a sequence; the oracle is not applied:
        what `v` means afterwards is the caller's business (the theorem history_free_owned covers these programs)."""
        rng = self.rng
        known: List[str] = []
        n = 0
        for o in ops:
            known += [name for name, _ in o.get("lets", [])]
            if known and rng.random() < 0.7:
                n += 1
                v = rng.choice(known)
                o.setdefault("lets", []).append([f"w{n}", {"var": v, "calls": [["alias", f"z{n}"]]}])
                known.append(f"w{n}")
        if n:
            for o in ops:
                o["modelOnly"] = True

    def break_op(self, op: Dict[str, Any]) -> None:
        """make the expression ill-formed for the generated classes (compared with the model's AttributeError /
        TypeError branches; never judged by the oracle)"""
        rng = self.rng
        nodes = [se for f in op["fields"] for se, _ in walk_se(f)]
        se = rng.choice(nodes)
        cls_of_result = None
        acc = next((a for a in self.table[se["cls"]]["accessors"] if a["attr"] == se["attr"]), None)
        if acc:
            cls_of_result = self.table.get(acc["cls"])
        kind = rng.choice(["fields", "on", "kw", "required"])
        leaf = {"cls": "Query", "attr": "no_such_accessor", "field": "x", "args": [], "calls": []}
        some_leaf = next((n for n in nodes if not n["calls"]), leaf)
        child = copy.deepcopy(some_leaf)
        if kind == "fields" and cls_of_result is not None and not cls_of_result["fields"]:
            se["calls"].append(["fields", [child]])
        elif kind == "on" and cls_of_result is not None and not cls_of_result["on"]:
            se["calls"].append(["on", "Nothing", [child]])
        elif kind == "kw" and acc and acc["kind"] == "method":
            se["args"].append(["bogusArgument", 1])
        elif kind == "required" and acc and any(a["required"] for a in acc["args"]):
            req = next(a["key"] for a in acc["args"] if a["required"])
            se["args"] = [x for x in se["args"] if x[0] != req]
        else:
            se["calls"].append(["fields", [leaf]])  # a class without that accessor
        op["illFormed"] = True


def is_var(se: Dict[str, Any]) -> bool:
    return "var" in se


def se_resp_name(se: Dict[str, Any]) -> str:
    al = None
    for c in se["calls"]:
        if c[0] == "alias":
            al = c[1]
    return al or se["field"]


def se_mutates_shared(se: Dict[str, Any]) -> bool:
    """a class-level object inside the tree has alias/on applied to it (variables inside are clean by construction)"""
    if is_var(se):
        return False
    if se.get("kind") == "shared" and se["calls"]:
        return True
    return any(se_mutates_shared(c) for c in se_children(se))


def defs_upto(ops: List[Dict[str, Any]], k: int) -> Dict[str, Dict[str, Any]]:
    """variable -> the SE it was assigned, for every assignment executed up to (and including) operation k"""
    out: Dict[str, Dict[str, Any]] = {}
    for o in ops[: k + 1]:
        for name, se in o.get("lets", []):
            out[name] = se
    return out


def expand_se(se: Dict[str, Any], defs: Dict[str, Dict[str, Any]]) -> Dict[str, Any]:
    """the tree the expression denotes: every variable replaced by (a copy of) the expression that built its object;
    the root of every copy is marked with `fromVar`"""
    if is_var(se):
        out = expand_se(defs[se["var"]], defs)
        if not is_var(defs[se["var"]]):  # `w = v.alias(...)` gives the OBJECT of v one more name: its identity stays v
            out["fromVar"] = se["var"]
        if se.get("calls"):
            out["calls"] = out["calls"] + [list(c) for c in se["calls"]]
        return out
    out = dict(se)
    out.pop("fromVar", None)
    calls = []
    for c in se["calls"]:
        if c[0] == "fields":
            calls.append(["fields", [expand_se(x, defs) for x in c[1]]])
        elif c[0] == "on":
            calls.append(["on", c[1], [expand_se(x, defs) for x in c[2]]])
        else:
            calls.append(list(c))
    out["calls"] = calls
    return out


def expand_op(op: Dict[str, Any], defs: Dict[str, Dict[str, Any]]) -> Dict[str, Any]:
    out = {k: v for k, v in op.items() if k != "lets"}
    out["fields"] = [expand_se(f, defs) for f in op["fields"]]
    return out


def owned_reuse(xop: Dict[str, Any]) -> bool:
    """F6 trigger on the EXPANDED operation: the object of one variable is rendered twice and its tree carries a
    non-None argument"""
    occ: Dict[str, List[Dict[str, Any]]] = {}
    for f in xop["fields"]:
        for se, _ in walk_se(f):
            if se.get("fromVar"):
                occ.setdefault(se["fromVar"], []).append(se)
    for name, nodes in occ.items():
        if len(nodes) >= 2 and any(v is not None for se, _ in walk_se(nodes[0]) for _, v in se["args"]):
            return True
    return False


def se_to_expr(se: Dict[str, Any]) -> Dict[str, Any]:
    """the python expression (as the JSON the Lean driver and the interpreter below both read)"""
    if is_var(se):
        e: Dict[str, Any] = {"k": "var", "x": se["var"]}
    elif se["kind"] == "shared":
        e = {"k": "attr", "cls": se["cls"], "attr": se["attr"]}
    else:
        kw = []
        for name, val in se["args"]:
            if val is None and not se.get("explicitNone"):
                continue
            kw.append([se["params"][name], wire.enc(val), se["convs"].get(name)])
        e = {"k": "call", "cls": se["cls"], "attr": se["attr"], "kw": kw}
    for c in se.get("calls", []):
        if c[0] == "alias":
            e = {"k": "alias", "e": e, "a": c[1]}
        elif c[0] == "fields":
            e = {"k": "fields", "e": e, "cs": [se_to_expr(x) for x in c[1]]}
        else:
            e = {"k": "on", "e": e, "ty": c[1], "cs": [se_to_expr(x) for x in c[2]]}
    return e


def se_children(se: Dict[str, Any]) -> List[Dict[str, Any]]:
    out: List[Dict[str, Any]] = []
    for c in se.get("calls", []):
        if c[0] == "fields":
            out += c[1]
        elif c[0] == "on":
            out += c[2]
    return out


def expected_rsel(se: Dict[str, Any]) -> Dict[str, Any]:
    """what the expression says, read locally (every object as if it were fresh): the property's reference"""
    alias = None
    subs: List[Dict[str, Any]] = []
    frags: Dict[str, List[Dict[str, Any]]] = {}
    for c in se["calls"]:
        if c[0] == "alias":
            alias = c[1]
        elif c[0] == "fields":
            subs += [expected_rsel(x) for x in c[1]]
        else:
            frags[c[1]] = [expected_rsel(x) for x in c[2]]
    args = [[n, T_str(se["argTypes"].get(n, {"n": "?"})), v] for n, v in se["args"] if v is not None]
    sels = subs + [{"on": t, "sels": xs} for t, xs in frags.items()]
    return {"f": se["field"], "a": alias or None, "args": args, "set": bool(sels), "sels": sels}


# ---- the Python classifier of the finding triggers (independent of the Lean predicates) -------------


def walk_se(se: Dict[str, Any], depth: int = 1) -> List[Tuple[Dict[str, Any], int]]:
    out = [(se, depth)]
    for c in se_children(se):
        out += walk_se(c, depth + 1)
    return out


def shared_occurrences(op: Dict[str, Any]) -> List[Tuple[str, str, bool]]:
    """class-level accessor occurrences in evaluation order: receiver first, then arguments"""
    out: List[Tuple[str, str, bool]] = []

    def go(se: Dict[str, Any]) -> None:
        if se["kind"] == "shared":
            out.append((se["cls"], se["attr"], bool(se["calls"])))
        for c in se["calls"]:
            if c[0] == "fields":
                for x in c[1]:
                    go(x)
            elif c[0] == "on":
                for x in c[2]:
                    go(x)

    for f in op["fields"]:
        go(f)
    return out


def format_names(names: List[str], idx: int) -> List[str]:
    used: set = set()
    out = []
    for n in names:
        base = f"{n}_{idx}"
        u = base
        c = 1
        while u in used:
            u = f"{base}_{c}"
            c += 1
        used.add(u)
        out.append(u)
    return out


def deep_region(op: Dict[str, Any]) -> bool:
    """region of the FIXED finding C14-F2: a field at depth >= 3 carries a non-None argument (twin of Lean's
    trigDeepList 1; measured, not a trigger)"""
    nodes = [nd for f in op["fields"] for nd in walk_se(f)]
    return any(d >= 3 and any(v is not None for _, v in se["args"]) for se, d in nodes)


def classify(history: List[Dict[str, Any]], op: Dict[str, Any]) -> Dict[str, bool]:
    """history and op are EXPANDED operations (expand_op): variables written out"""
    nodes = [nd for f in op["fields"] for nd in walk_se(f)]
    list_arg = any(v is not None and T_has_list(se["argTypes"].get(n, {"n": "?"})) for se, _ in nodes for n, v in se["args"])
    py_name = any(se["kind"] == "method" and se["cls"] not in ("Query", "Mutation") and se["py"] != se["field"] for se, _ in nodes)
    hist = [o for h in history for o in shared_occurrences(h)]
    own = shared_occurrences(op)
    shared = False
    for i, (c, a, _) in enumerate(own):
        if any(m and c2 == c and a2 == a for c2, a2, m in hist):
            shared = True
        if any(j != i and m and c2 == c and a2 == a for j, (c2, a2, m) in enumerate(own)):
            shared = True
    return {"listArg": list_arg, "pyName": py_name, "sharedMut": shared, "nameClash": syntactic_clash(op),
            "ownedReuse": owned_reuse(op)}


def rsel_arg_names(r: Dict[str, Any]) -> List[str]:
    out = [a[0] for a in r.get("args", [])]
    for c in r["sels"]:
        out += rsel_arg_names(c)
    return out


def syntactic_clash(op: Dict[str, Any]) -> bool:
    """names `_format_variable_name` hands out when the expression is read locally (to_ast order: own arguments,
    sub-fields, then inline fragments): do two top-level fields get a common one?"""
    per_field = [set(format_names(rsel_arg_names(expected_rsel(f)), i)) for i, f in enumerate(op["fields"])]
    return any(per_field[i] & per_field[j] for i in range(len(per_field)) for j in range(i + 1, len(per_field)))


def doc_clash(ir: Optional[Dict[str, Any]]) -> bool:
    """F5 trigger as the Lean side states it: the sent document uses one variable name in two top-level fields"""
    if not ir or "sels" not in ir:
        return False
    per_field = [set(doc_vars([s])) for s in ir["sels"]]
    return any(per_field[i] & per_field[j] for i in range(len(per_field)) for j in range(i + 1, len(per_field)))


# --------------------------------------------------------------------------------------------
# child side: generate, inspect, evaluate sequences in pristine grandchildren
# --------------------------------------------------------------------------------------------


def _gen_one(root: str, sdl: str, package: str, is_async: bool) -> List[str]:
    g = engine.generate_client(Path(root), sdl, None, {"enable_custom_operations": True, "async_client": is_async,
                                                      "target_package_name": package})
    return g.files


def _interp(mods: Dict[str, Any], pkg: Any, e: Dict[str, Any], env: Optional[Dict[str, Any]] = None) -> Any:
    k = e["k"]
    if k == "var":
        return (env or {})[e["x"]]  # the OBJECT assigned earlier, not a copy
    if k == "attr":
        return getattr(mods[e["cls"]], e["attr"])
    if k == "call":
        kwargs = {}
        for item in e["kw"]:
            kwargs[item[0]] = _conv(pkg, wire.dec(item[1]), item[2] if len(item) > 2 else None)
        return getattr(mods[e["cls"]], e["attr"])(**kwargs)
    if k == "alias":
        return _interp(mods, pkg, e["e"], env).alias(e["a"])
    if k == "fields":
        recv = _interp(mods, pkg, e["e"], env)
        meth = recv.fields
        return meth(*[_interp(mods, pkg, c, env) for c in e["cs"]])
    if k == "on":
        recv = _interp(mods, pkg, e["e"], env)
        meth = recv.on
        return meth(e["ty"], *[_interp(mods, pkg, c, env) for c in e["cs"]])
    raise ValueError(k)


def _conv(pkg: Any, v: Any, conv: Optional[Dict[str, str]]) -> Any:
    if conv is None or v is None:
        return v
    if isinstance(v, list):
        return [_conv(pkg, x, conv) for x in v]
    if "enum" in conv:
        return getattr(pkg, conv["enum"])(v)
    return getattr(pkg, conv["input"]).model_validate(v)


def _class_map(pkg_name: str) -> Dict[str, Any]:
    import importlib

    out: Dict[str, Any] = {}
    for m in ("custom_typing_fields", "custom_fields", "custom_queries", "custom_mutations"):
        try:
            mod = importlib.import_module(f"{pkg_name}.{m}")
        except ModuleNotFoundError:
            continue
        for k, v in vars(mod).items():
            if isinstance(v, type) and v.__module__ == mod.__name__:
                out[k] = v
    return out


def inline_expr(e: Dict[str, Any], defs: Dict[str, Dict[str, Any]]) -> Dict[str, Any]:
    """the expression with every variable replaced by the expression that built its object (fresh objects)"""
    if e["k"] == "var":
        return copy.deepcopy(defs[e["x"]])
    if e["k"] in ("attr", "call"):
        return e
    out = dict(e)
    out["e"] = inline_expr(e["e"], defs)
    if "cs" in e:
        out["cs"] = [inline_expr(c, defs) for c in e["cs"]]
    return out


def inline_ops(ops: List[Dict[str, Any]], key: str) -> List[Dict[str, Any]]:
    """every operation of a sequence written out without variables (`key` = "exprs" or "fields")"""
    defs: Dict[str, Dict[str, Any]] = {}
    out = []
    for o in ops:
        for name, ex in o.get("lets", []):
            defs[name] = inline_expr(ex, defs)
        out.append({"type": o["type"], "name": o["name"], key: [inline_expr(e, defs) for e in o[key]]})
    return out


def _run_sequence(pkg_name: str, is_async: bool, ops: List[Dict[str, Any]]) -> List[Dict[str, Any]]:
    """in a grandchild forked right after the import: evaluate and send every operation of the sequence"""
    import httpx

    pkg = sys.modules[pkg_name]
    mods = _class_map(pkg_name)
    sent: List[Dict[str, Any]] = []

    def handler(request: Any) -> Any:
        sent.append(json.loads(request.content))
        return httpx.Response(200, json={"data": {}})

    client = engine.make_generated_client(pkg, handler, is_async=is_async)
    out: List[Dict[str, Any]] = []
    env: Dict[str, Any] = {}  # python variables of the script: they live as long as the process
    for op in ops:
        before = len(sent)
        try:
            for name, ex in op.get("lets", []):
                env[name] = _interp(mods, pkg, ex, env)
            fields = [_interp(mods, pkg, e, env) for e in op["exprs"]]
            meth = getattr(client, op["type"])
            if is_async:
                asyncio.run(meth(*fields, operation_name=op["name"]))
            else:
                meth(*fields, operation_name=op["name"])
        except RecursionError:
            out.append({"error": "RecursionError"})
            continue
        except Exception as e:  # noqa: BLE001 - the exception class is the observation
            out.append({"error": type(e).__name__, "msg": str(e)[:200]})
            continue
        if len(sent) != before + 1:
            out.append({"error": f"requests-sent:{len(sent) - before}"})
            continue
        body = sent[-1]
        out.append({"query": body.get("query"), "variables": body.get("variables"), "operationName": body.get("operationName")})
    return out


def doc_ir(query: str, variables: Any) -> Dict[str, Any]:
    from graphql import FieldNode, InlineFragmentNode, OperationDefinitionNode, VariableNode, parse, print_ast

    doc = parse(query)
    if len(doc.definitions) != 1 or not isinstance(doc.definitions[0], OperationDefinitionNode):
        return {"parseError": "not exactly one operation definition"}
    od = doc.definitions[0]

    def sel(n: Any) -> Dict[str, Any]:
        if isinstance(n, FieldNode):
            args = []
            for a in n.arguments:
                args.append([a.name.value, a.value.name.value if isinstance(a.value, VariableNode) else "<literal:" + print_ast(a.value) + ">"])
            return {"f": n.name.value, "a": n.alias.value if n.alias else None, "args": args, "set": n.selection_set is not None,
                    "sels": [sel(x) for x in n.selection_set.selections] if n.selection_set else []}
        if isinstance(n, InlineFragmentNode):
            return {"on": n.type_condition.name.value if n.type_condition else None, "sels": [sel(x) for x in n.selection_set.selections]}
        return {"other": type(n).__name__}

    return {"type": od.operation.value, "name": od.name.value if od.name else None,
            "varDefs": [[v.variable.name.value, print_ast(v.type)] for v in od.variable_definitions],
            "sels": [sel(x) for x in od.selection_set.selections], "values": variables if variables is not None else {}}


def analyse(schema_obj: Any, sdl_index: Dict[str, Any], raw: Dict[str, Any]) -> Dict[str, Any]:
    """graphql-core's view of one sent request (child side; JSON-able)"""
    from graphql import GraphQLError, parse, specified_rules, validate
    from graphql.validation import OverlappingFieldsCanBeMergedRule

    if "error" in raw:
        return {"error": raw["error"], "msg": raw.get("msg", "")}
    out: Dict[str, Any] = {"query": raw["query"], "operationName": raw["operationName"]}
    try:
        doc = parse(raw["query"])
        out["ir"] = doc_ir(raw["query"], raw["variables"])
    except GraphQLError as e:
        out["parseError"] = str(e)[:200]
        return out
    errs = validate(schema_obj, doc)
    out["validation"] = [e.message for e in errs]
    sub = [r for r in specified_rules if r is not OverlappingFieldsCanBeMergedRule]
    out["validSubset"] = not validate(schema_obj, doc, rules=sub)
    if not errs:
        out["executed"] = execute_recording(schema_obj, raw)
    return out


def execute_recording(schema_obj: Any, raw: Dict[str, Any]) -> Dict[str, Any]:
    """execute the sent request with graphql-core; the resolver records the arguments every field receives"""
    from graphql import GraphQLEnumType, GraphQLList, GraphQLNonNull, get_named_type, graphql_sync, is_abstract_type, is_composite_type

    recorded: List[Dict[str, Any]] = []

    def plain(v: Any) -> Any:
        if isinstance(v, dict):
            return {k: plain(x) for k, x in v.items()}
        if isinstance(v, list):
            return [plain(x) for x in v]
        return v

    def synth(t: Any) -> Any:
        if isinstance(t, GraphQLNonNull):
            return synth(t.of_type)
        if isinstance(t, GraphQLList):
            return [synth(t.of_type)]
        if is_composite_type(t):
            return {}
        if isinstance(t, GraphQLEnumType):
            return list(t.values.keys())[0]
        return {"Int": 1, "Float": 1.5, "Boolean": True}.get(t.name, "s")

    def resolver(source: Any, info: Any, **args: Any) -> Any:
        path = [p for p in info.path.as_list() if isinstance(p, str)]
        recorded.append({"path": path, "field": info.field_name, "args": plain(args)})
        return synth(info.return_type)

    def type_resolver(value: Any, info: Any, abstract_type: Any) -> str:
        return sorted(t.name for t in info.schema.get_possible_types(abstract_type))[0]

    res = graphql_sync(schema_obj, raw["query"], variable_values=raw["variables"], operation_name=raw["operationName"],
                       field_resolver=resolver, type_resolver=type_resolver)
    return {"errors": [e.message for e in (res.errors or [])], "recorded": recorded}


@engine.with_scratch
def schema_case(root: Path, seed: str, budget: Dict[str, int], fixed: Optional[Dict[str, Any]] = None) -> Dict[str, Any]:
    """everything that touches the generator / generated packages for ONE schema (runs in a forked child)"""
    import warnings

    from graphql import build_schema

    from ariadne_codegen.utils import process_name, str_to_snake_case

    warnings.filterwarnings("ignore", message=".*multi-threaded.*", category=DeprecationWarning)
    rng = random.Random(seed)
    schema = copy.deepcopy(fixed["schema"]) if fixed else gen_schema(rng)
    for t in schema["types"]:
        for f in t.get("fields", []):
            f["py"] = process_name(f["name"], convert_to_snake_case=True)
            f["opPy"] = str_to_snake_case(f["name"])
            for a in f["args"]:
                a["py"] = process_name(a["name"], convert_to_snake_case=True)
    sdl = to_sdl(schema)
    out: Dict[str, Any] = {"seed": seed, "schema": schema, "sdl": sdl}
    try:
        from graphql import assert_valid_schema

        schema_obj = build_schema(sdl)
        assert_valid_schema(schema_obj)
    except Exception as e:  # noqa: BLE001 - generator of this harness made an invalid schema: skip, count
        out["skipped"] = f"invalid schema from the harness generator: {e}"
        return out
    tables = {}
    for kind, is_async in (("sync", False), ("async", True)):
        status, val = engine.forked(_gen_one, str(root), sdl, f"gen_{kind}", is_async, timeout=900)
        if status != "ok":
            out["generation"] = {"kind": kind, "status": status, "detail": val}
            return out
        try:
            tables[kind] = extract_table(root / f"gen_{kind}")
        except (OSError, SyntaxError) as e:
            out["generation"] = {"kind": kind, "status": "exc", "detail": ("Inspect", repr(e), "")}
            return out
    out["tables"] = tables
    table = tables["sync"]
    # expressions
    if fixed:
        seqs = copy.deepcopy(fixed["seqs"])
    else:
        gen = ExprGen(rng, schema, table)
        flavours = (["clean"] * budget["clean"] + ["wild"] * budget["wild"] + ["list", "camel", "shared"] * budget["each"]
                    + ["deep"] * budget.get("deep", 3 * budget["each"]) + ["illformed"] * budget.get("ill", 1)
                    + ["directed"] * budget.get("directed", 0) + ["varmut"] * budget.get("varmut", 0)
                    + ["crowded"] * budget.get("crowded", 0))
        seqs = []
        for fl in flavours:
            ops = gen.sequence(fl)
            if ops:
                seqs.append({"flavour": fl, "ops": ops})
    finish_se(schema, table, seqs)
    out["seqs"] = seqs
    # import both packages once; every sequence then runs in a grandchild forked from this pristine state
    sys.path.insert(0, str(root))
    import importlib

    try:
        for kind in ("sync", "async"):
            importlib.import_module(f"gen_{kind}")
            _class_map(f"gen_{kind}")
    except Exception as e:  # noqa: BLE001
        out["generation"] = {"kind": "import", "status": "exc", "detail": (type(e).__name__, str(e)[:500], "")}
        return out
    runs: List[Dict[str, Any]] = []
    for si, sq in enumerate(seqs):
        ops = [{"type": o["type"], "name": o["name"], "exprs": [se_to_expr(f) for f in o["fields"]],
                "lets": [[name, se_to_expr(d)] for name, d in o.get("lets", [])]} for o in sq["ops"]]
        # reference: the same expression built from fresh objects (variables written out) in a fresh process
        alone = inline_ops(ops, "exprs")
        per_kind: Dict[str, Any] = {}
        for kind, is_async in (("sync", False), ("async", True)):
            status, val = engine.forked(_run_sequence, f"gen_{kind}", is_async, ops, timeout=600)
            hist = [analyse(schema_obj, {}, r) for r in val] if status == "ok" else None
            fresh = []
            if kind == "sync" or si % 4 == 0:  # the fresh-process document does not depend on the client flavour; sampled for async
                for o in alone:
                    st2, v2 = engine.forked(_run_sequence, f"gen_{kind}", is_async, [o], timeout=600)
                    fresh.append(analyse(schema_obj, {}, v2[0]) if st2 == "ok" else {"error": f"harness:{st2}"})
            per_kind[kind] = {"status": status, "hist": hist, "fresh": fresh, "detail": None if status == "ok" else val}
        runs.append(per_kind)
    out["runs"] = runs
    return out


def finish_se(schema: Dict[str, Any], table: List[Dict[str, Any]], seqs: List[Dict[str, Any]]) -> None:
    """attach to every SE node what the REAL generated code / the schema say about its accessor: class-level object
    or classmethod (`kind`), python parameter names, value conversions, argument types, python name"""
    tab = {c["name"]: {a["attr"]: a for a in c["accessors"]} for c in table}
    idx = type_index(schema)

    def schema_field(cls: str, gql: str) -> Optional[Dict[str, Any]]:
        if cls == "Query":
            fields = idx[schema["query"]]["fields"]
        elif cls == "Mutation":
            fields = idx[schema["mutation"]]["fields"] if schema.get("mutation") else []
        else:
            tname = cls[: -len("Fields")] if cls.endswith("Fields") else cls[: -len("Interface")] if cls.endswith("Interface") else cls
            fields = combined_fields(schema, tname) if tname in idx else []
        for f in fields:
            if f["name"] == gql:
                return f
        return None

    def conv(t: Dict[str, Any]) -> Optional[Dict[str, str]]:
        td = idx.get(T_final(t), {"kind": "scalar"})
        if td["kind"] == "enum":
            return {"enum": td["name"]}
        if td["kind"] == "input":
            return {"input": td["name"]}
        return None

    def go(se: Dict[str, Any]) -> None:
        if is_var(se):
            return
        acc = tab.get(se["cls"], {}).get(se["attr"])
        f = schema_field(se["cls"], se["field"])
        se["kind"] = acc["kind"] if acc else "method"
        se["params"] = {a["key"]: a["param"] for a in acc["args"]} if acc else {}
        for n, _ in se["args"]:
            se["params"].setdefault(n, n)
        se["argTypes"] = {a["name"]: a["ty"] for a in f["args"]} if f else {}
        se["convs"] = {a["name"]: conv(a["ty"]) for a in f["args"]} if f else {}
        se["py"] = f["py"] if f else se["attr"]
        se.setdefault("explicitNone", False)
        for c in se_children(se):
            go(c)

    for sq in seqs:
        for o in sq["ops"]:
            for _, d in o.get("lets", []):
                go(d)
            for f in o["fields"]:
                go(f)


# --------------------------------------------------------------------------------------------
# parent side: model comparison and the oracle
# --------------------------------------------------------------------------------------------


def canon_table(classes: List[Dict[str, Any]]) -> Dict[str, Any]:
    return {c["name"]: {k: v for k, v in c.items() if k != "name"} for c in classes}


def strip_expr(e: Dict[str, Any]) -> Dict[str, Any]:
    """the expression as the Lean driver reads it (value conversions are a Python-only side channel)"""
    if e["k"] == "call":
        return {"k": "call", "cls": e["cls"], "attr": e["attr"], "kw": [[x[0], x[1]] for x in e["kw"]]}
    if e["k"] in ("attr", "var"):
        return e
    out = dict(e)
    out["e"] = strip_expr(e["e"])
    if "cs" in e:
        out["cs"] = [strip_expr(c) for c in e["cs"]]
    return out


def lean_line(case: Dict[str, Any]) -> Dict[str, Any]:
    seqs = []
    for sq in case["seqs"]:
        ops = [{"type": o["type"], "name": o["name"], "fields": [strip_expr(se_to_expr(f)) for f in o["fields"]],
                "lets": [[name, strip_expr(se_to_expr(d))] for name, d in o.get("lets", [])]} for o in sq["ops"]]
        seqs.append(ops)
        for o in inline_ops(ops, "fields"):  # the same operation alone, variables written out, from a fresh state
            seqs.append([o])
    return {"op": "case", "schema": schema_for_lean(case["schema"]), "seqs": seqs}


def model_doc(r: Dict[str, Any]) -> Dict[str, Any]:
    if r.get("error"):
        return {"error": r["error"]}
    d = dict(r["doc"])
    d["values"] = wire.dec(d["values"])
    return d


def impl_obs(a: Dict[str, Any]) -> Dict[str, Any]:
    if "error" in a:
        return {"error": a["error"]}
    if "parseError" in a:
        return {"parseError": a["parseError"], "query": a["query"]}
    if "parseError" in a["ir"]:
        return a["ir"]
    # the request as `execute` received it: document IR + variables ("values") + operationName of the payload
    return {**a["ir"], "operationName": a.get("operationName")}


def compare_rsel(doc: Dict[str, Any], want: List[Dict[str, Any]]) -> List[str]:
    """the sent document with variables substituted vs what the expression says"""
    sigs: List[str] = []
    defs: Dict[str, List[str]] = {}
    for n, t in doc["varDefs"]:
        defs.setdefault(n, []).append(t)
    values = doc["values"]

    def go(got: Dict[str, Any], exp: Dict[str, Any]) -> None:
        if ("on" in got) != ("on" in exp):
            sigs.append("selection-differs")
            return
        if "on" in got:
            if got["on"] != exp["on"]:
                sigs.append("selection-differs")
                return
        else:
            if got["f"] != exp["f"]:
                sigs.append("field-name-not-graphql")
            if got["a"] != exp["a"]:
                sigs.append("alias-not-as-written")
            if [a[0] for a in got["args"]] != [a[0] for a in exp["args"]]:
                sigs.append("argument-set-differs")
            else:
                for (k, u), (_, ty, val) in zip(got["args"], exp["args"]):
                    if len(defs.get(u, [])) != 1:
                        sigs.append("var-undeclared" if not defs.get(u) else "var-declared-twice")
                        continue
                    if defs[u][0] != ty:
                        sigs.append("var-type-not-exact")
                    if u not in values or not common.same_json(values[u], val):
                        sigs.append("var-not-bound-to-callers-value")
            if got["set"] != exp["set"]:
                sigs.append("selection-differs")
                return
        pairs(got["sels"], exp["sels"])

    def key(x: Dict[str, Any]) -> Tuple[str, str]:
        return ("on", x["on"]) if "on" in x else ("f", x["a"] or x["f"])

    def pairs(gs: List[Dict[str, Any]], es: List[Dict[str, Any]]) -> None:
        """siblings are matched by response name / type condition when that is unambiguous (the property does not
        fix the order of selections), positionally otherwise"""
        if len(gs) != len(es):
            sigs.append("selection-differs")
            return
        gk, ek = [key(x) for x in gs], [key(x) for x in es]
        if gk != ek and sorted(gk) == sorted(ek) and len(set(gk)) == len(gk):
            gs = sorted(gs, key=key)
            es = sorted(es, key=key)
        for g, e in zip(gs, es):
            go(g, e)

    pairs(doc["sels"], want)
    return sigs


def all_sels(sels: List[Dict[str, Any]]) -> List[Dict[str, Any]]:
    out: List[Dict[str, Any]] = []
    for s in sels:
        out.append(s)
        out += all_sels(s["sels"])
    return out


def doc_vars(sels: List[Dict[str, Any]]) -> List[str]:
    out: List[str] = []
    for s in sels:
        if "f" in s:
            out += [a[1] for a in s["args"]]
        out += doc_vars(s["sels"])
    return out


def classify_validation(msg: str) -> str:
    if "used in position expecting type" in msg:
        return "var-type-not-exact"
    if "is not defined by operation" in msg:
        return "var-undeclared"
    if msg.startswith("Cannot query field"):
        return "field-name-not-graphql"
    if "is never used in operation" in msg:
        return "var-declared-unused"
    return "validation-error"


def expected_server_args(want: List[Dict[str, Any]]) -> Dict[str, List[Dict[str, Any]]]:
    """response path -> list of expected {arg: value} of the fields that can answer at that path"""
    out: Dict[str, List[Dict[str, Any]]] = {}

    def go(sels: List[Dict[str, Any]], prefix: Tuple[str, ...]) -> None:
        for s in sels:
            if "on" in s:
                go(s["sels"], prefix)
            else:
                p = prefix + (s["a"] or s["f"],)
                out.setdefault("/".join(p), []).append({a[0]: a[2] for a in s["args"]})
                go(s["sels"], p)

    go(want, ())
    return out


def judge_op(analysis: Dict[str, Any], fresh: Optional[Dict[str, Any]], want: List[Dict[str, Any]], op_name: str) -> List[Tuple[str, str]]:
    """The property, stated directly on what was sent.  Returns (signature, detail) pairs."""
    out: List[Tuple[str, str]] = []
    if "error" in analysis:
        return [("builder-raises", analysis["error"])]
    if "parseError" in analysis:
        return [("document-does-not-parse", analysis["parseError"])]
    ir = analysis["ir"]
    if "parseError" in ir:
        return [("document-does-not-parse", ir["parseError"])]
    if analysis["operationName"] != op_name or ir["name"] != op_name:
        out.append(("operation-name-lost", f"{analysis['operationName']!r} / {ir['name']!r}"))
    for m in analysis["validation"]:
        out.append((classify_validation(m), m[:160]))
    for s in compare_rsel(ir, want):
        out.append((s, "document with variables substituted differs from the expression"))
    used = doc_vars(ir["sels"])
    if len(set(used)) != len(used):
        out.append(("var-shared-between-uses", str(sorted(u for u in set(used) if used.count(u) > 1))))
    for n, _ in ir["varDefs"]:
        if n not in used:
            out.append(("var-declared-unused", n))
    ex = analysis.get("executed")
    if ex is not None:
        if ex["errors"]:
            out.append(("server-rejects-valid-document", "; ".join(ex["errors"])[:200]))
        exp = expected_server_args(want)
        for rec in ex["recorded"]:
            cands = exp.get("/".join(rec["path"]))
            if cands and len(cands) == 1 and not common.same_json(rec["args"], cands[0]):
                out.append(("server-receives-other-value", f"{rec['path']}: got {json.dumps(rec['args'])[:120]} want {json.dumps(cands[0])[:120]}"))
    if fresh is not None:
        if not common.same_json(impl_obs(analysis), impl_obs(fresh)):
            out.append(("history-dependent", "document after the history differs from the document built in a fresh process"))
    # one entry per signature
    seen = set()
    uniq = []
    for s, d in out:
        if s and s not in seen:
            seen.add(s)
            uniq.append((s, d))
    return uniq


def attribute(sig: str, trig: Dict[str, bool]) -> Optional[str]:
    for t in SIGNATURE_TRIGGERS.get(sig, []):
        if trig.get(t):
            return t
    return None


def process_case(ctx: Ctx, res: Result, case: Dict[str, Any], model: Optional[Dict[str, Any]], label: str) -> None:
    """compare one schema case with the model's answer and judge it with the oracle"""
    if "skipped" in case:
        res.count("schema:skipped-invalid")
        return
    if "generation" in case:
        g = case["generation"]
        res.count("schema:generation-failed")
        res.failures.append(Failure("generation-fails", None, {"seed": case["seed"], "sdl": case["sdl"]}, f"{g['kind']}: {g['status']} {str(g['detail'])[:300]}"))
        return
    res.count("schema:generated")
    base_input = {"seed": case["seed"], "label": label}
    # (a) package table
    for kind in ("sync", "async"):
        tab = canon_table(case["tables"][kind])
        anomalies = [(c, a["attr"], a["anomaly"]) for c, v in tab.items() for a in v["accessors"] if a.get("anomaly")]
        if model is not None:
            mtab = canon_table(model["package"])
            if not common.same_json(tab, mtab):
                diff = [c for c in sorted(set(tab) | set(mtab)) if not common.same_json(tab.get(c), mtab.get(c))]
                c0 = diff[0]
                res.mismatches.append(Mismatch("package-table", {**base_input, "client": kind, "class": c0, "sdl": case["sdl"]},
                                               tab.get(c0), mtab.get(c0)))
        elif anomalies:
            res.count("table:anomalies", len(anomalies))
    res.seen(["table", case["seed"]], True)
    # (b)-(d) operations
    mi = 0
    for si, sq in enumerate(case["seqs"]):
        ops = sq["ops"]
        # what every operation denotes: variables written out (expand_op); the raw operations are what is run
        xops = [expand_op(o, defs_upto(ops, k)) for k, o in enumerate(ops)]
        wants = [[expected_rsel(f) for f in xo["fields"]] for xo in xops]
        has_vars = any(o.get("lets") for o in ops)
        if has_vars:
            res.count("vars:sequence-assigns-objects-to-python-variables")
        rendered_at: Dict[str, set] = {}  # variable (object with arguments) -> top-level indices it was rendered under
        m_hist = model["seqs"][mi] if model is not None else None
        m_fresh = [model["seqs"][mi + 1 + k][0] for k in range(len(ops))] if model is not None else None
        mi += 1 + len(ops)
        res.count("sequence:" + sq["flavour"])
        res.count("history-length:%d" % (len(ops) - 1))
        for kind in ("sync", "async"):
            run = case["runs"][si][kind]
            if run["status"] != "ok":
                raise common.Infra(f"C14 grandchild failed: {run['status']} {str(run['detail'])[:300]}")
            for k, o in enumerate(ops):
                a = run["hist"][k]
                fresh = run["fresh"][k] if run["fresh"] else None
                if fresh is not None and str(fresh.get("error", "")).startswith("harness:"):
                    raise common.Infra(f"C14 fresh-process run failed: {fresh['error']}")
                xo = xops[k]
                trig = classify(xops[:k], xo)  # decided on the input alone; used to attribute failures to findings
                lean_view = dict(trig)       # the Lean side states F5 on the document the operation produces
                lean_view["nameClash"] = doc_clash(a.get("ir"))
                skip_oracle = bool(o.get("illFormed") or o.get("modelOnly"))
                if lean_view["nameClash"] != trig["nameClash"] and not trig["sharedMut"] and not skip_oracle:
                    res.mismatches.append(Mismatch("nameClash: names simulated on the expression vs names in the sent document",
                                                   {**base_input, "client": kind, "sequence": si, "op": k}, lean_view["nameClash"], trig["nameClash"]))
                inp = {**base_input, "client": kind, "sequence": si, "op": k, "flavour": sq["flavour"],
                       "triggers": [x for x, v in trig.items() if v],
                       "replay": {"schema": strip_py(case["schema"]), "seqs": [{"flavour": sq["flavour"], "ops": ops[: k + 1]}]}}
                res.seen([case["seed"], si, k, kind], True)
                deep = deep_region(xo)
                if kind == "sync":
                    if has_vars:
                        var_measure(res, xo, rendered_at)
                    for t, v in trig.items():
                        if v:
                            res.count("trigger:" + t)
                    if deep and not skip_oracle:
                        res.count("region:old-F2 (argument below level 2; fixed by dfbc7ef)")
                        if not any(trig.values()):
                            res.count("region:old-F2 and outside every open trigger (gained by the theorem)")
                            if any("on" in s for s in all_sels(wants[k])):
                                res.count("region:old-F2, outside every open trigger, with inline fragments")
                    if not any(trig.values()):
                        res.count("ops-outside-every-trigger")
                        # Proved_14: the operation ITSELF applies no mutator to a class-level object (the history is
                        # constrained by the F4 trigger alone: theorem history_free_outside_F4)
                        proved = not any(m for _, _, m in shared_occurrences(xo))
                        res.count("region:theorem (Supported_14 and Proved_14)" if proved
                                  else "region:supported-but-unproved (the operation mutates a class-level object it uses once)")
                        if proved and any(m for h in xops[:k] for _, _, m in shared_occurrences(h)):
                            res.count("region:theorem, after a history that mutated OTHER class-level objects (gained by history_free_outside_F4)")
                    else:
                        res.count("region:finding")
                    res.count("op-depth:%d" % max(d for f in xo["fields"] for _, d in walk_se(f)))
                    res.count("op-top-level-fields:%d" % len(o["fields"]))
                    if "ir" in a:
                        res.count("doc:variables:%d" % min(len(a["ir"]["varDefs"]), 6))
                    elif "error" in a:
                        res.count("doc:raises:" + a["error"])
                # correspondence
                judged = [] if skip_oracle else judge_op(a, fresh, wants[k], o["name"])
                if m_hist is not None:
                    mo = m_hist[k]
                    # DESIGN.md 1.4: a disagreement INSIDE a finding region where the implementation now satisfies the
                    # property is reported as "finding no longer reproduces", not as a broken tie
                    blamed = {attribute(sig, trig) for sig, _ in judged}
                    in_region = next((t for t in TRIGGERS if trig[t] and t not in blamed), None) if None not in blamed else None
                    if not common.same_json(impl_obs(a), model_doc(mo)):
                        res.mismatches.append(Mismatch("document", drop_replay(inp), impl_obs(a), model_doc(mo), trigger=in_region))
                    if fresh is not None and not common.same_json(impl_obs(fresh), model_doc(m_fresh[k])):
                        res.mismatches.append(Mismatch("document-fresh", drop_replay(inp), impl_obs(fresh), model_doc(m_fresh[k])))
                    if kind == "sync":
                        if not common.same_json(lean_view, mo["trig"]):
                            res.mismatches.append(Mismatch("triggers", drop_replay(inp), lean_view, mo["trig"]))
                        if bool(mo.get("deepVars")) != deep:
                            res.mismatches.append(Mismatch("region-old-F2", drop_replay(inp), deep, mo.get("deepVars")))
                        if "ir" in a and "validSubset" in a and not mo.get("error") and bool(a["validSubset"]) != bool(mo["valid"]):
                            res.mismatches.append(Mismatch("spec-validator-vs-graphql-core", drop_replay(inp),
                                                           {"valid": a["validSubset"], "messages": a["validation"][:4]}, {"valid": mo["valid"]}))
                        if len(res.samples) < 4 and "ir" in a and a["ir"]["varDefs"] and not any(trig.values()):
                            res.sample({"query": a["query"], "variables": a["ir"]["values"], "model": model_doc(mo)})
                # oracle
                if o.get("modelOnly"):
                    res.count("op:of a sequence that mutates through a variable in an assignment (model compared, oracle not applicable)")
                    continue
                if o.get("illFormed"):
                    res.count("op:deliberately-ill-formed (model compared, oracle not applicable)")
                    continue
                for sig, detail in judged:
                    t = attribute(sig, trig)
                    res.failures.append(Failure(sig, t, inp, f"{kind} client, {detail}; triggers={[x for x, v in trig.items() if v]}; query={a.get('query', '')[:300]!r}"))


def var_measure(res: Result, xo: Dict[str, Any], rendered_at: Dict[str, set]) -> None:
    """how often the generated histories exercise re-use of one owned object (measured on the expanded operation)"""
    here: Dict[str, List[int]] = {}
    for i, f in enumerate(xo["fields"]):
        for se, _ in walk_se(f):
            if se.get("fromVar"):
                with_args = any(v is not None for x, _ in walk_se(se) for _, v in x["args"])
                res.count("vars:use-of-a-variable" + (" (object with arguments)" if with_args else " (no arguments)"))
                if with_args:
                    here.setdefault(se["fromVar"], []).append(i)
    if here:
        res.count("vars:op-renders-a-variable-object-with-arguments")
    for name, idxs in here.items():
        if len(idxs) >= 2:
            res.count("vars:object-with-arguments-rendered-twice-in-one-operation (F6 region)")
        before = rendered_at.get(name)
        if before:
            res.count("vars:object-with-arguments-rendered-again-in-a-later-operation")
            if set(idxs) - before:
                res.count("vars:... under another top-level index (other variable suffix)")
        rendered_at.setdefault(name, set()).update(idxs)


def strip_py(schema: Dict[str, Any]) -> Dict[str, Any]:
    s = copy.deepcopy(schema)
    for t in s["types"]:
        for f in t.get("fields", []):
            f.pop("py", None)
            f.pop("opPy", None)
            for a in f["args"]:
                a.pop("py", None)
    return s


def drop_replay(inp: Dict[str, Any]) -> Dict[str, Any]:
    return inp


def run_cases(ctx: Ctx, st: Optional[LeanStatus], res: Result, jobs: List[tuple], label: str) -> None:
    results = engine.pmap_forked(schema_case, jobs, timeout=3000)
    cases = []
    for (status, val), job in zip(results, jobs):
        if status != "ok":
            raise common.Infra(f"C14 child for {job[0]!r} failed: {status} {str(val)[:500]}")
        cases.append(val)
    models: List[Optional[Dict[str, Any]]] = [None] * len(cases)
    if st is not None and st.driver_ok:
        idxs = [i for i, c in enumerate(cases) if "seqs" in c and "runs" in c]
        outs = common.run_driver(ctx.prop, [lean_line(cases[i]) for i in idxs], chunk=50)
        for i, o in zip(idxs, outs):
            models[i] = o
    for c, m in zip(cases, models):
        process_case(ctx, res, c, m, label)


def formatter_table(ctx: Ctx, st: Optional[LeanStatus], res: Result) -> None:
    """`_format_variable_name` of the REAL base class vs the model, on name lists built to collide"""
    import importlib

    mod = importlib.import_module("ariadne_codegen.client_generators.dependencies.base_operation")
    rng = ctx.sub_rng("formatter")
    lines = []
    expect = []
    pool = ["n", "n_0", "n_0_1", "n_1", "x", "x_1", "first", "first_0", "a_0_2"]
    for _ in range(ctx.budget(300, 3000)):
        idx = rng.choice([0, 0, 1, 2, 10, 11])
        names = [rng.choice(pool) for _ in range(rng.randint(0, 7))]
        try:
            f = mod.GraphQLField("f")
            used: set = set()
            got = [f._format_variable_name(idx, n, used) for n in names]
        except (AttributeError, TypeError) as e:
            res.mismatches.append(Mismatch("format-variable-name", {"idx": idx, "names": names}, f"observer: {e!r}", None))
            return
        lines.append({"op": "formatNames", "idx": idx, "names": names})
        expect.append(got)
        res.seen(["fmt", idx, names], len(set(names)) < len(names))
        if len(set(got)) != len(got):
            res.failures.append(Failure("formatter-hands-out-a-name-twice", None, {"idx": idx, "names": names}, str(got)))
    if st is not None and st.driver_ok:
        outs = common.run_driver(ctx.prop, lines)
        for l, e, o in zip(lines, expect, outs):
            if o != e:
                res.mismatches.append(Mismatch("format-variable-name", {"idx": l["idx"], "names": l["names"]}, e, o))
    res.count("formatter-name-lists", len(lines))


def corpus_cases() -> List[Tuple[str, Dict[str, Any]]]:
    d = common.CORPUS / "C14"
    out = []
    if d.exists():
        for p in sorted(d.glob("*.json")):
            out.append((p.stem, json.loads(p.read_text())))
    return out


def replay_corpus(ctx: Ctx, st: Optional[LeanStatus], res: Result) -> None:
    """every witness / minimised past failure first: model comparison + oracle, and finding status"""
    findings = common.load_findings(ctx.prop)
    items = corpus_cases()
    jobs = [(f"corpus:{name}", {"clean": 0, "wild": 0, "each": 0}, payload["input"]) for name, payload in items]
    before = len(res.failures)
    sub = Result()
    run_cases(ctx, st, sub, jobs, "corpus")
    by_witness: Dict[str, List[Failure]] = {}
    for f in sub.failures:
        by_witness.setdefault(f.input["seed"], []).append(f)
    for name, payload in items:
        fid = payload.get("finding")
        if not fid:
            continue
        entry = [x for x in findings if x["id"] == fid]
        fails = by_witness.get(f"corpus:{name}", [])
        sigs = set(payload.get("expect_signatures", []))
        hit = [f for f in fails if f.signature in sigs and f.input["op"] == payload.get("judge_op", f.input["op"])]
        res.extra.setdefault("witness_files", {})[name] = "reproduces" if hit else "gone"
        if hit or fid not in res.witness_status:
            res.witness_status[fid] = "reproduces" if hit else "gone"
        if entry and entry[0].get("status") == "fixed" and hit:
            for f in hit:
                f.trigger = None
    res.merge(sub)
    _ = before


def run(ctx: Ctx, st: Optional[LeanStatus]) -> Result:
    res = Result()
    res.rule = ("one evaluation = one operation of one sequence on one client flavour (document IR + variables compared with the "
                "model, then judged by the oracle); all are non-trivial (every operation has a composite selection); distinct = "
                "distinct (schema seed, sequence, operation, client). The package table of every schema and the formatter name lists "
                "are counted separately in input_distribution.")
    res.extra["fingerprints"] = common.fingerprints(ctx, FINGERPRINT_ITEMS)
    replay_corpus(ctx, st, res)
    formatter_table(ctx, st, res)
    n_schemas = ctx.budget(28, 240)
    budget = {"clean": ctx.budget(8, 10), "wild": ctx.budget(6, 8), "each": ctx.budget(1, 2), "directed": ctx.budget(1, 2),
              "varmut": ctx.budget(1, 2), "crowded": ctx.budget(1, 2)}
    jobs = [(f"{ctx.prop}:{ctx.seed}:schema:{i}", budget, None) for i in range(n_schemas)]
    if ctx.tier == "thorough":
        run_cases(ctx, st, res, jobs, "random")
    else:
        # quick tier (the budget may have been boosted by a changed fingerprint): in slices, and no further once a
        # concrete failing input that no finding explains is on the table - the verdict is settled, the replay exists
        for lo in range(0, n_schemas, 28):
            if unexplained(ctx, res):
                ctx.log(f"a failing input outside every finding is known after {lo} schemas: random budget cut short")
                break
            run_cases(ctx, st, res, jobs[lo: lo + 28], "random")
    res.oracle_only += [
        "serialisation of argument values (enum members, input models) into the variables JSON is the base client's (C03/C11); here the sent JSON is compared with the caller's JSON value",
        "print_ast / parse of graphql-core: the document IR is read back from the query text that was sent",
        "OverlappingFieldsCanBeMerged is judged only by graphql-core's validate (the harness's expressions give repeated fields distinct aliases)",
    ]
    d = res.distribution
    n_ops = sum(v for k, v in d.items() if k.startswith("op-depth:"))
    res.extra["fixed_finding_region"] = {
        "finding": "C14-F2 (fixed by dfbc7ef): an argument below level 2",
        "operations_judged": n_ops,
        "inside_old_region": d.get("region:old-F2 (argument below level 2; fixed by dfbc7ef)", 0),
        "inside_old_region_and_outside_every_open_trigger": d.get("region:old-F2 and outside every open trigger (gained by the theorem)", 0),
        "of_those_with_inline_fragments": d.get("region:old-F2, outside every open trigger, with inline fragments", 0),
        "note": "the theorem region (Supported_14 and Proved_14) now contains these operations; the witness of the fixed "
                "finding is replayed on every run and a failure on it is reported with trigger=None (VIOLATION)",
    }
    res.extra["unproved_region"] = ("C14_partial is proved under Proved_14 (the operation itself applies no alias/on to a class-level object; the "
                                    "history is constrained by the F4 trigger alone since history_free_outside_F4); operations outside every finding "
                                    "trigger that apply alias/on to a class-level accessor they use exactly once are covered by correspondence and "
                                    "oracle only (counted as region:supported-but-unproved). Programs with python variables: history-freedom is "
                                    "proved (history_free_owned); that the document of re-used objects equals the document of the written-out "
                                    "expression outside the F6 trigger is covered by correspondence and oracle only")
    res.assumptions += [
        "objects returned by generated classmethods are used once OR kept in python variables and used again unchanged, any number of times, in the same and in later operations (no alias/fields/on applied THROUGH a variable); class-level objects may be used anywhere, any number of times",
        "expression depth stays far below CPython's recursion limit",
        "python names of fields/arguments are inputs of the generator model (computed with the real process_name / str_to_snake_case; C18 owns them)",
    ]
    return res


def unexplained(ctx: Ctx, res: Result) -> List[Failure]:
    """oracle failures that no open finding explains"""
    findings = common.load_findings(ctx.prop)
    return [f for f in res.failures if common.match_finding(f, findings) is None]


def search(ctx: Ctx) -> Result:
    """after a broken proof / correspondence: judge the real code (oracle only), most specific generators first, stop at
    the first failing input no finding explains, and shrink it.
      phase 1  DIRECTED at the state C14 names: (a) objects that outlive an operation (_alias/_subfields/_inline_fragments/
               formatted_variables on field objects): every sequence keeps objects with arguments in python variables and
               uses them again in later operations under other top-level indices (other variable suffixes); (b) the set of
               used variable names: "crowded" operations of 2-3 top-level fields whose trees repeat argument names;
      phase 2  the general generators (all flavours), in slices."""
    res = Result()
    found: List[Failure] = []
    for rnd in range(3):
        budget = {"clean": 0, "wild": 0, "each": 0, "deep": 0, "ill": 0, "directed": 7, "crowded": 7}
        jobs = [(f"{ctx.prop}:{ctx.seed}:search-directed:{rnd}:{i}", budget, None) for i in range(8)]
        sub = Result()
        run_cases(ctx, None, sub, jobs, "search-directed")
        res.merge(sub)
        found = unexplained(ctx, sub)
        if found:
            break
    if not found:
        budget = {"clean": 10, "wild": 8, "each": 2, "directed": 2}
        for sl in range(6):
            jobs = [(f"{ctx.prop}:{ctx.seed}:search:{i}", budget, None) for i in range(sl * 20, sl * 20 + 20)]
            sub = Result()
            run_cases(ctx, None, sub, jobs, "search")
            res.merge(sub)
            found = unexplained(ctx, sub)
            if found:
                break
    # shrink one failing input per signature and put it FIRST (it becomes the replay of that signature); inputs outside
    # every finding region before inputs inside one
    found.sort(key=lambda f: len(f.input.get("triggers", [])) if isinstance(f.input, dict) else 0)
    shrunk: List[Failure] = []
    seen = set()
    for f in found:
        if f.key() in seen or len(shrunk) >= 3:
            continue
        seen.add(f.key())
        try:
            g = shrink_failure(ctx, f)
        except Exception as e:  # noqa: BLE001 - shrinking is a convenience, never a verdict
            ctx.log(f"shrinking raised {e!r}")
            g = None
        if g is not None:
            shrunk.append(g)
    res.failures = shrunk + res.failures
    return res


def _fails_like(ctx: Ctx, fixed: Dict[str, Any], want: Failure) -> Optional[Failure]:
    """does the LAST operation of the (one) sequence of `fixed` still fail with the same signature, unexplained?"""
    status, case = engine.forked(schema_case, "shrink", {"clean": 0, "wild": 0, "each": 0}, fixed, timeout=600)
    if status != "ok" or "runs" not in case:
        return None
    sub = Result()
    try:
        process_case(ctx, sub, case, None, "shrink")
    except common.Infra:
        return None
    last = len(fixed["seqs"][0]["ops"]) - 1
    for f in unexplained(ctx, sub):
        if f.signature == want.signature and f.input.get("op") == last and f.input.get("client") == want.input.get("client"):
            return f
    return None


def _vars_used(se: Dict[str, Any]) -> List[str]:
    if is_var(se):
        return [se["var"]]
    out: List[str] = []
    for c in se_children(se):
        out += _vars_used(c)
    return out


def _strip_se(se: Dict[str, Any]) -> Dict[str, Any]:
    """an SE as the generator wrote it (without what finish_se attached)"""
    if is_var(se):
        return {"var": se["var"], "calls": [list(c) for c in se["calls"]]} if se.get("calls") else {"var": se["var"]}
    out = {k: se[k] for k in ("cls", "attr", "field", "args", "explicitNone") if k in se}
    calls = []
    for c in se["calls"]:
        if c[0] == "fields":
            calls.append(["fields", [_strip_se(x) for x in c[1]]])
        elif c[0] == "on":
            calls.append(["on", c[1], [_strip_se(x) for x in c[2]]])
        else:
            calls.append(list(c))
    out["calls"] = calls
    return out


def render_program(ops: List[Dict[str, Any]]) -> List[str]:
    """the sequence as the python script it stands for (for the reader of a replay file)"""
    def show(se: Dict[str, Any]) -> str:
        if is_var(se):
            out = se["var"]
        else:
            shared = se.get("kind") == "shared"
            args = ", ".join(f"{se.get('params', {}).get(k, k)}={v!r}" for k, v in se.get("args", [])
                             if v is not None or se.get("explicitNone"))
            out = f"{se['cls']}.{se['attr']}" + ("" if shared else f"({args})")
        for c in se.get("calls", []):
            if c[0] == "alias":
                out += f".alias({c[1]!r})"
            elif c[0] == "fields":
                out += ".fields(" + ", ".join(show(x) for x in c[1]) + ")"
            else:
                out += f".on({c[1]!r}, " + ", ".join(show(x) for x in c[2]) + ")"
        return out

    lines: List[str] = []
    for o in ops:
        for name, d in o.get("lets", []):
            lines.append(f"{name} = {show(d)}")
        lines.append(f"client.{o['type']}(" + ", ".join(show(x) for x in o["fields"]) + f", operation_name={o['name']!r})")
    return lines


def shrink_failure(ctx: Ctx, f: Failure, max_runs: int = 30) -> Optional[Failure]:
    """greedy: drop whole earlier operations (their assignments move to the next one), drop top-level fields, drop
    assignments nobody reads - as long as the last operation keeps failing the same way on the REAL code"""
    rp = f.input.get("replay") if isinstance(f.input, dict) else None
    if not rp or not rp.get("seqs"):
        return None
    schema = rp["schema"]
    ops = [{"type": o["type"], "name": o["name"], "fields": [_strip_se(x) for x in o["fields"]],
            "lets": [[n, _strip_se(d)] for n, d in o.get("lets", [])]} for o in rp["seqs"][0]["ops"]]
    runs = 0

    def attempt(cand: List[Dict[str, Any]]) -> Optional[Failure]:
        nonlocal runs
        runs += 1
        fixed = {"schema": copy.deepcopy(schema), "seqs": [{"flavour": "shrunk", "ops": copy.deepcopy(cand)}]}
        return _fails_like(ctx, fixed, f)

    best = attempt(ops)
    if best is None:
        return None
    progress = True
    while progress and runs < max_runs:
        progress = False
        # (a) drop an earlier operation; what it assigned stays assigned
        for i in range(len(ops) - 1):
            cand = copy.deepcopy(ops)
            gone = cand.pop(i)
            cand[i]["lets"] = gone.get("lets", []) + cand[i].get("lets", [])
            g = attempt(cand) if runs < max_runs else None
            if g is not None:
                ops, best, progress = cand, g, True
                break
        if progress:
            continue
        # (b) drop a top-level field
        for i, o in enumerate(ops):
            if len(o["fields"]) < 2:
                continue
            for j in range(len(o["fields"])):
                cand = copy.deepcopy(ops)
                del cand[i]["fields"][j]
                g = attempt(cand) if runs < max_runs else None
                if g is not None:
                    ops, best, progress = cand, g, True
                    break
            if progress:
                break
        if progress:
            continue
        # (c) drop an assignment nobody reads
        used = set()
        for o in ops:
            for _, d in o.get("lets", []):
                used.update(_vars_used(d))
            for x in o["fields"]:
                used.update(_vars_used(x))
        for i, o in enumerate(ops):
            keep = [l for l in o.get("lets", []) if l[0] in used]
            if len(keep) != len(o.get("lets", [])):
                cand = copy.deepcopy(ops)
                cand[i]["lets"] = keep
                g = attempt(cand) if runs < max_runs else None
                if g is not None:
                    ops, best, progress = cand, g, True
                    break
    best.detail = f"(shrunk by the search in {runs} runs of the real code) " + best.detail
    if isinstance(best.input, dict) and best.input.get("replay"):
        best.input["program"] = render_program(best.input["replay"]["seqs"][0]["ops"])
    return best


def replay(ctx: Ctx, payload: Dict[str, Any]) -> int:
    inp = payload.get("input")
    if not inp or "replay" not in inp and "schema" not in inp:
        print(json.dumps(payload, indent=1)[:3000])
        return 1
    fixed = inp.get("replay") or inp
    status, case = engine.forked(schema_case, "replay", {"clean": 0, "wild": 0, "each": 0}, fixed, timeout=300)
    if status != "ok":
        print("replay failed:", status, str(case)[:500])
        return 2
    res = Result()
    process_case(ctx, res, case, None, "replay")
    want_sig = payload.get("signature")
    rc = 0
    for f in res.failures:
        mark = "*" if f.signature == want_sig else " "
        print(f"{mark} {f.signature} [trigger={f.trigger}] op={f.input.get('op')} {f.detail[:400]}")
        if f.trigger is None or f.signature == want_sig:
            rc = 1
    if not res.failures:
        print("no oracle failure on this input")
    return rc
