"""C13 — subscriptions follow the graphql-transport-ws protocol for every frame sequence.

Tie (DESIGN.md §3 C13):
  * model `Ariadne.WsClient.run` / `Ariadne.WsClientOT.run` (lean/AriadneModel/Model/WsClient*.lean,
    driven over the regenerated enum tables) vs the REAL `execute_ws` of `AsyncBaseClient` and
    `AsyncBaseClientOpenTelemetry` (tracer unset / set) on a scripted connection object with the
    send/recv/close/async-iteration semantics of `websockets.ClientConnection`: every frame
    sequence over the property's alphabet up to a length bound, plus seeded random longer ones,
    x configurations x variables.  Compared: the full interleaved event log
    (connect arguments, every message sent, every frame delivered, every item yielded, close) and
    the terminal outcome.  Also compared: the Lean frame classifier / finding triggers with the
    Python twins used by the oracle.
  * oracle (independent of the model): the clauses of the property stated over the recorded real
    trace (`oracle`), and the REAL handshake: the real `execute_ws` against an in-process
    `websockets.serve` server on 127.0.0.1 (finding C13-F1 today).

No sleeps anywhere; every case runs under `asyncio.run(asyncio.wait_for(..))`, a hang is reported
as the failure signature "hang".
"""
from __future__ import annotations

import asyncio
import importlib
import itertools
import json
import re
from typing import Any, Dict, List, Optional, Tuple

from . import clients, common, wire
from .common import Ctx, Failure, LeanStatus, Mismatch, Result

PROP = "C13"
PLAIN_MOD = f"{clients.DEP}.async_base_client"
OT_MOD = f"{clients.DEP}.async_base_client_open_telemetry"
VARIANTS: List[Tuple[str, bool]] = [("plain", False), ("ot", False), ("ot", True)]  # (client, tracer set)
CASE_TIMEOUT = 10.0
SUBPROTOCOL = "graphql-transport-ws"  # the protocol's token (not read from /repo)
PROTO = {
    "init": "connection_init", "ack": "connection_ack", "ping": "ping", "pong": "pong",
    "subscribe": "subscribe", "next": "next", "error": "error", "complete": "complete",
}
PROTO_NAMES = set(PROTO.values())
OP_ID = "<id>"
UUID4 = re.compile(r"^[0-9a-f]{8}-[0-9a-f]{4}-4[0-9a-f]{3}-[89ab][0-9a-f]{3}-[0-9a-f]{12}$")
QUERY = "subscription S($a: Int) { counter(a: $a) }"
URL = "ws://verif.test/graphql"

# --------------------------------------------------------------------------------------------
# inputs: frames
# --------------------------------------------------------------------------------------------
# a frame spec is {"t": "json", "j": <value>[, "bin": true]} | {"t": "text", "s": <str>} | {"t": "bytes", "hex": <hex>}


def fj(j: Any, binary: bool = False) -> Dict[str, Any]:
    d: Dict[str, Any] = {"t": "json", "j": j}
    if binary:
        d["bin"] = True
    return d


def ft(s: str) -> Dict[str, Any]:
    return {"t": "text", "s": s}


def fb(hexs: str) -> Dict[str, Any]:
    return {"t": "bytes", "hex": hexs}


ERR_FULL = {"message": "boom", "locations": [{"line": 1, "column": 2}], "path": ["a", 0], "extensions": {"code": "X"}}
ERR_MIN = {"message": "m"}
ERR_EXTRA = {"message": "", "foo": [1, 2], "path": None}

ACK = fj({"type": "connection_ack"})
NEXT1 = fj({"id": "1", "type": "next", "payload": {"data": {"counter": 1}}})
PING = fj({"type": "ping"})
PONG = fj({"type": "pong"})
COMPLETE = fj({"id": "1", "type": "complete"})
ERROR1 = fj({"id": "1", "type": "error", "payload": [ERR_FULL]})
NONJSON = ft("not json")
UNKNOWN = fj({"type": "foo"})
MISSING = fj({"id": "1", "payload": {"data": {"counter": 9}}})
NEXT_NODATA = fj({"id": "1", "type": "next", "payload": {"errors": []}})

# the ten letters of the property's quantifier, one representative each
BASE10 = [ACK, NEXT1, PING, PONG, COMPLETE, ERROR1, NONJSON, UNKNOWN, MISSING, NEXT_NODATA]
# variants enumerated exhaustively in the quick tier as well
NEXT_FALSY = [fj({"id": "1", "type": "next", "payload": {"data": d}}) for d in ({}, None, 0, "")]
ERROR2 = fj({"id": "1", "type": "error", "payload": [ERR_MIN, ERR_EXTRA]})
ERROR_EMPTY = fj({"id": "1", "type": "error", "payload": []})  # the error letter with no entries: still ends the stream
ERROR_NOPAYLOAD = fj({"id": "1", "type": "error"})
BADBYTES = fb("ff")
BASE16 = BASE10 + NEXT_FALSY + [ERROR2, BADBYTES, ERROR_EMPTY, ERROR_NOPAYLOAD]  # (18 letters; the name is historical)

VARIANT_LETTERS: List[Dict[str, Any]] = BASE16 + [
    fj({"type": "connection_ack", "payload": {"server": "x"}}),
    fj({"id": "1", "type": "next", "payload": {"data": {"counter": 2, "nested": {"a": [1, None, 2.5]}}, "extensions": {"t": 1}}}),
    fj({"id": "1", "type": "next", "payload": {"data": [1, 2]}}),
    fj({"id": "1", "type": "next", "payload": {"data": "text"}}),
    fj({"id": "1", "type": "next", "payload": {"data": 7}}),
    fj({"id": "1", "type": "next", "payload": {"data": True}}),
    fj({"id": "1", "type": "next", "payload": {"data": False}}),
    fj({"id": "1", "type": "next", "payload": {"data": []}}),
    fj({"id": "1", "type": "next", "payload": {"data": 0.0}}),
    fj({"id": "2", "type": "next", "payload": {"data": {"counter": 3}, "errors": [ERR_MIN]}}),
    fj({"id": "1", "type": "next", "payload": {"data": {"counter": 4}}}, binary=True),
    fj({"type": "ping", "payload": {"k": 1}}),
    fj({"type": "pong", "payload": {}}),
    fj({"id": "1", "type": "error", "payload": [ERR_FULL, ERR_MIN, ERR_EXTRA]}),
    fj({"id": "1", "type": "error", "payload": []}),
    ft(""), ft("{"), ft("{'type': 'next'}"), ft('{"type": "next"'), fb("c328"), fb("80616263"),
    fj({"type": "NEXT"}), fj({"type": "data"}), fj({"type": "connection-ack"}), fj({"type": 5}), fj({"type": True}),
    fj({"type": ""}), fj({"type": 0}), fj({"type": False}), fj({"type": []}), fj({"type": {}}), fj({"type": 2.5}),
    fj({}), fj({"type": None}), fj({"payload": {"data": 1}}),
    fj({"id": "1", "type": "next"}), fj({"id": "1", "type": "next", "payload": {}}),
    fj({"type": "subscribe", "id": "1", "payload": {"query": "q"}}), fj({"type": "connection_init"}),
    # outside the property's alphabet (DESIGN.md §3.0): compared with the model, never judged
    fj([1]), fj(None), fj(5), fj("str"), fj(True),
    fj({"type": "next", "payload": None}), fj({"type": "next", "payload": "xdatax"}), fj({"type": "next", "payload": "x"}),
    fj({"type": "next", "payload": ["data"]}), fj({"type": "next", "payload": [1]}), fj({"type": "next", "payload": 5}),
    fj({"type": "next", "payload": []}), fj({"type": "next", "payload": True}),
    fj({"type": "error", "payload": {"message": "x"}}), fj({"type": "error", "payload": None}), fj({"type": "error"}),
    fj({"type": "error", "payload": ""}), fj({"type": "error", "payload": "ab"}), fj({"type": "error", "payload": {}}),
    fj({"type": "error", "payload": [{"msg": 1}]}), fj({"type": "error", "payload": [ERR_MIN, "x"]}), fj({"type": "error", "payload": 3}),
    fj({"type": [1]}), fj({"type": {"a": 1}}),
]


def raw_frame(spec: Dict[str, Any]) -> Any:
    """what the socket hands to the client: str for text messages, bytes for binary ones"""
    if spec["t"] == "json":
        text = json.dumps(spec["j"])
        return text.encode() if spec.get("bin") else text
    if spec["t"] == "text":
        return spec["s"]
    return bytes.fromhex(spec["hex"])


def check_frame_spec(spec: Dict[str, Any]) -> None:
    """the harness's own promise to the model: text = JSONDecodeError, bytes = UnicodeDecodeError"""
    raw = raw_frame(spec)
    if spec["t"] == "json":
        if not common.same_json(json.loads(raw), spec["j"], ordered=True):
            raise common.Infra(f"frame spec does not round-trip: {spec}")
        return
    try:
        json.loads(raw)
    except json.JSONDecodeError:
        if spec["t"] != "text":
            raise common.Infra(f"bytes frame spec is a JSONDecodeError: {spec}")
        return
    except UnicodeDecodeError:
        if spec["t"] != "bytes":
            raise common.Infra(f"text frame spec is a UnicodeDecodeError: {spec}")
        return
    raise common.Infra(f"frame spec decodes as JSON: {spec}")


def frame_line(spec: Dict[str, Any]) -> Dict[str, Any]:
    if spec["t"] == "json":
        return {"t": "json", "j": wire.enc(spec["j"])}
    if spec["t"] == "text":
        return {"t": "text", "s": spec["s"]}
    return {"t": "bytes"}


# --------------------------------------------------------------------------------------------
# the Python twin of Spec/GraphqlTransportWs.lean `letter` (used by the oracle; compared with Lean)
# --------------------------------------------------------------------------------------------


def err_shaped(x: Any) -> bool:
    return isinstance(x, dict) and "message" in x


def letter(spec: Dict[str, Any]) -> Tuple[str, Any]:
    if spec["t"] in ("text", "bytes"):
        return ("nonJson", None)
    j = spec["j"]
    if not isinstance(j, dict):
        return ("outside", None)
    if "type" not in j or j["type"] is None:
        return ("missingType", None)
    ty = j["type"]
    if isinstance(ty, str):
        if ty == "connection_ack":
            return ("ack", None)
        if ty == "next":
            if "payload" not in j:
                return ("nextNoData", None)
            p = j["payload"]
            if isinstance(p, dict):
                return ("next", p["data"]) if "data" in p else ("nextNoData", None)
            return ("outside", None)
        if ty in ("ping", "pong", "complete"):
            return (ty, None)
        if ty == "error":
            if "payload" not in j:
                return ("error", [])  # an error message without payload: the error letter, no entries
            p = j["payload"]
            if isinstance(p, list) and all(err_shaped(e) for e in p):
                return ("error", p)
            return ("outside", None)
        if ty in ("connection_init", "subscribe"):
            return ("clientMsg", None)
        return ("unknownType", None)
    if isinstance(ty, (list, dict)) and len(ty) > 0:
        return ("outside", None)
    return ("unknownType", None)


CONTINUES = {"ack", "next", "ping", "pong", "clientMsg"}
INVALID_LETTERS = {"nonJson", "unknownType", "missingType", "nextNoData"}


def py_truthy(x: Any) -> bool:
    return bool(x)


def prefix_until_terminal(frames: List[Dict[str, Any]]) -> Tuple[List[Dict[str, Any]], Optional[Dict[str, Any]]]:
    pre: List[Dict[str, Any]] = []
    for f in frames:
        if letter(f)[0] in CONTINUES:
            pre.append(f)
        else:
            return pre, f
    return pre, None


# --------------------------------------------------------------------------------------------
# inputs: variables (spec -> real Python objects / model line / expected serialisation)
# --------------------------------------------------------------------------------------------
# pv spec: ["null"] ["bool", b] ["num", n] ["str", s] ["unset"] ["model", {"cls": name, "kw": {field: pv}}]
#          ["list", [pv...]] ["dict", [[k, pv]...]];   variables spec: None | [[k, pv], ...]

_MODEL_CLASSES: Dict[str, Any] = {}
# python field name -> alias, per class (the oracle's own statement of "dump by GraphQL names")
MODEL_ALIASES = {"Inner": {"x": "x", "y_val": "yVal"}, "Outer": {"id": "id", "inner": "inner", "tag_list": "tagList", "n": "n", "others": "others"},
                 "Stamped": {"since": "since", "label": "label", "inner": "inner"}}


def model_classes() -> Dict[str, Any]:
    if _MODEL_CLASSES:
        return _MODEL_CLASSES
    from pydantic import Field

    base = clients.base_model_module().BaseModel

    class Inner(base):  # type: ignore[misc,valid-type]
        x: int
        y_val: Optional[str] = Field(alias="yVal", default=None)

    class Outer(base):  # type: ignore[misc,valid-type]
        id: str
        inner: Optional[Inner] = None
        tag_list: Optional[List[str]] = Field(alias="tagList", default=None)
        n: Optional[int] = None
        others: Optional[List[Inner]] = None

    import datetime as _dt

    class Stamped(base):  # type: ignore[misc,valid-type]
        since: _dt.datetime
        label: Optional[str] = None
        inner: Optional[Inner] = None

    _MODEL_CLASSES.update({"Inner": Inner, "Outer": Outer, "Stamped": Stamped})
    return _MODEL_CLASSES


def foreign_build(pv: List[Any]) -> Any:
    """["foreign", kind, text]: a Python object json.dumps (no default=) rejects"""
    import datetime as _dt
    import decimal
    import io
    import uuid

    kind = pv[1]
    if kind == "datetime":
        return _dt.datetime.fromisoformat(pv[2])
    if kind == "date":
        return _dt.date.fromisoformat(pv[2])
    if kind == "decimal":
        return decimal.Decimal(pv[2])
    if kind == "uuid":
        return uuid.UUID(pv[2])
    if kind == "upload":
        return clients.base_model_module().Upload(filename="a.txt", content=io.BytesIO(b"x"), content_type="text/plain")
    raise common.Infra(f"bad foreign spec {pv}")


def foreign_expected(pv: List[Any]) -> Any:
    """what pydantic's own serialisation sends for it (the oracle's reading; independent of to_jsonable_python)"""
    if pv[1] in ("datetime", "date", "decimal", "uuid"):
        return pv[2]
    raise NotSerialisable("an Upload cannot travel over a websocket")


def jsonable_of(value: Any) -> Any:
    """the `jsonable` an `.foreign` PV carries: pydantic_core.to_jsonable_python, None when it refuses"""
    from pydantic_core import to_jsonable_python

    try:
        return {"j": wire.enc(to_jsonable_python(value))}
    except Exception:
        return None


def py_to_pvline(value: Any) -> List[Any]:
    """a python-mode dump (model_dump) -> the driver's PV encoding"""
    if value is None:
        return ["null"]
    if isinstance(value, bool):
        return ["bool", value]
    if isinstance(value, (int, float)):
        return ["num", value]
    if isinstance(value, str):
        return ["str", value]
    if isinstance(value, list):
        return ["list", [py_to_pvline(x) for x in value]]
    if isinstance(value, dict):
        return ["dict", [[k, py_to_pvline(v)] for k, v in value.items()]]
    return ["foreign", jsonable_of(value)]


def json_native(value: Any) -> bool:
    if value is None or isinstance(value, (bool, int, float, str)):
        return True
    if isinstance(value, list):
        return all(json_native(x) for x in value)
    if isinstance(value, dict):
        return all(isinstance(k, str) and json_native(v) for k, v in value.items())
    return False


def pv_build(pv: List[Any]) -> Any:
    """spec -> the real Python value handed to execute_ws"""
    tag = pv[0]
    if tag == "null":
        return None
    if tag in ("bool", "num", "str"):
        return pv[1]
    if tag == "unset":
        return clients.base_model_module().UNSET
    if tag == "model":
        cls = model_classes()[pv[1]["cls"]]
        return cls(**{k: pv_build(v) for k, v in pv[1]["kw"].items()})
    if tag == "list":
        return [pv_build(x) for x in pv[1]]
    if tag == "dict":
        return {k: pv_build(v) for k, v in pv[1]}
    if tag == "foreign":
        return foreign_build(pv)
    raise common.Infra(f"bad pv spec {pv}")


class NotSerialisable(Exception):
    pass


def pv_expected(pv: List[Any], top: bool, in_dict: bool = False) -> Any:
    """The oracle's reading of "the serialised variables" (DESIGN.md §3.0): JSON scalars as they
    are, generated input models dumped by GraphQL name without unset fields, lists thereof.
    Raises NotSerialisable for shapes outside that reading (UNSET below the top level, a model
    inside a plain dict): there the oracle does not judge."""
    tag = pv[0]
    if tag == "null":
        return None
    if tag in ("bool", "num", "str"):
        return pv[1]
    if tag == "unset":
        raise NotSerialisable("UNSET below the top level")
    if tag == "model":
        if in_dict:
            raise NotSerialisable("model inside a plain dict")
        aliases = MODEL_ALIASES[pv[1]["cls"]]
        return {aliases[k]: pv_expected(v, False) for k, v in pv[1]["kw"].items()}
    if tag == "list":
        return [pv_expected(x, False, in_dict) for x in pv[1]]
    if tag == "dict":
        return {k: pv_expected(v, False, True) for k, v in pv[1]}
    if tag == "foreign":
        return foreign_expected(pv)
    raise common.Infra(f"bad pv spec {pv}")


def vars_expected(vs: Optional[List[Any]]) -> Tuple[str, Any]:
    """("absent", None) | ("present", json) | ("outside", reason)"""
    if not vs:
        return ("absent", None)
    out: Dict[str, Any] = {}
    try:
        for k, pv in vs:
            if pv[0] == "unset":
                continue
            out[k] = pv_expected(pv, True)
    except NotSerialisable as e:
        return ("outside", str(e))
    return ("present", out)


def pv_line(pv: List[Any]) -> List[Any]:
    """spec -> the driver's PV encoding; a model travels as what pydantic dumps for it"""
    tag = pv[0]
    if tag in ("null", "unset"):
        return [tag]
    if tag in ("bool", "num", "str"):
        return [tag, pv[1]]
    if tag == "model":
        inst = pv_build(pv)
        dump = inst.model_dump(by_alias=True, exclude_unset=True)
        if json_native(dump):
            return ["model", wire.enc(dump)]
        return ["modelPy", [[k, py_to_pvline(v)] for k, v in dump.items()]]  # a field holds a datetime / Decimal / ...
    if tag == "list":
        return ["list", [pv_line(x) for x in pv[1]]]
    if tag == "dict":
        return ["dict", [[k, pv_line(v)] for k, v in pv[1]]]
    if tag == "foreign":
        return ["foreign", jsonable_of(pv_build(pv))]
    raise common.Infra(f"bad pv spec {pv}")


M_INNER = ["model", {"cls": "Inner", "kw": {"x": ["num", 1], "y_val": ["str", "y"]}}]
M_INNER_MIN = ["model", {"cls": "Inner", "kw": {"x": ["num", 2]}}]
M_OUTER = ["model", {"cls": "Outer", "kw": {"id": ["str", "o1"], "inner": M_INNER, "tag_list": ["list", [["str", "t1"], ["str", "t2"]]]}}]
M_OUTER_NULLS = ["model", {"cls": "Outer", "kw": {"id": ["str", "o2"], "inner": ["null"], "n": ["num", 0], "others": ["list", [M_INNER_MIN, M_INNER]]}}]

F_DATETIME = ["foreign", "datetime", "2020-01-01T00:00:00"]
F_DECIMAL = ["foreign", "decimal", "1.50"]
F_UUID = ["foreign", "uuid", "12345678-1234-5678-1234-567812345678"]
F_UPLOAD = ["foreign", "upload"]
M_STAMPED = ["model", {"cls": "Stamped", "kw": {"since": F_DATETIME, "label": ["str", "l"]}}]
M_STAMPED_INNER = ["model", {"cls": "Stamped", "kw": {"since": ["foreign", "datetime", "2021-02-03T04:05:06"], "inner": M_INNER_MIN}}]

VARS_TABLE: List[Tuple[str, Optional[List[Any]]]] = [
    ("none", None),
    ("empty", []),
    ("scalars", [["a", ["num", 1]], ["b", ["str", "x"]], ["c", ["null"]], ["d", ["bool", False]], ["e", ["num", 2.5]]]),
    ("unset-top", [["a", ["num", 1]], ["b", ["unset"]], ["c", ["str", ""]]]),
    ("only-unset", [["a", ["unset"]]]),
    ("model", [["input", M_OUTER]]),
    ("model-nulls", [["input", M_OUTER_NULLS], ["skip", ["unset"]]]),
    ("list-of-models", [["items", ["list", [M_INNER, M_INNER_MIN]]], ["nested", ["list", [["list", [M_INNER_MIN]], ["null"]]]]]),
    ("plain-dict", [["filter", ["dict", [["k", ["list", [["num", 1], ["null"]]]], ["m", ["dict", [["z", ["bool", True]]]]]]]]]),
    # outside the reading (json.dumps without default= raises TypeError): compared with the model only
    ("unset-in-list", [["a", ["list", [["num", 1], ["unset"]]]]]),
    ("unset-in-dict", [["a", ["dict", [["k", ["unset"]]]]]]),
    ("model-in-dict", [["a", ["dict", [["k", M_INNER]]]]]),
    ("model-in-dict-in-list", [["a", ["list", [["dict", [["k", M_INNER_MIN]]]]]]]),
    # C13-F4: custom scalars "supported by pydantic" - inside the reading, json.dumps (no default=) raises TypeError
    ("datetime-top", [["since", F_DATETIME], ["n", ["num", 1]]]),
    ("datetime-in-model", [["w", M_STAMPED], ["skip", ["unset"]]]),
    ("decimal-in-list", [["amounts", ["list", [F_DECIMAL, ["null"]]]], ["id", F_UUID]]),
    ("datetime-in-model-in-list", [["ws", ["list", [M_STAMPED, M_STAMPED_INNER]]]]),
    # outside the reading: an Upload cannot be sent over the socket (refused with the same TypeError)
    ("upload-top", [["file", F_UPLOAD]]),
    ("upload-in-list", [["files", ["list", [F_UPLOAD]]], ["a", ["num", 1]]]),
]

INIT_TABLE: List[Tuple[str, Any]] = [
    ("unset", "<absent>"),
    ("set", {"token": "abc"}),
    ("empty", {}),
    ("nested", {"auth": {"scopes": ["a", None], "n": 1}, "v": 2.5}),
]

CFG_TABLE: List[Dict[str, Any]] = [
    {"headers": None, "origin": None, "extraHeaders": "<absent>", "kwargs": {}, "opName": "S"},
    {"headers": {"Authorization": "Bearer t"}, "origin": "https://origin.test", "extraHeaders": "<absent>", "kwargs": {}, "opName": "S"},
    {"headers": {"A": "1", "B": "2"}, "origin": "", "extraHeaders": {"B": "override", "C": "3"}, "kwargs": {"open_timeout": 5}, "opName": None},
    {"headers": {}, "origin": "https://origin.test", "extraHeaders": {}, "kwargs": {"origin": "https://kw.test", "ping_interval": None}, "opName": "S"},
    {"headers": {"A": "1"}, "origin": None, "extraHeaders": {"Z": "26", "A": "one"}, "kwargs": {"origin": None, "max_size": 1024}, "opName": ""},
]
CFG_DUPKW = {"headers": None, "origin": None, "extraHeaders": "<absent>", "kwargs": {"subprotocols": ["x"]}, "opName": "S"}


def make_case(frames: List[Dict[str, Any]], cfg_i: int = 0, init_i: int = 0, vars_i: int = 0, label: str = "") -> Dict[str, Any]:
    cfg = dict(CFG_TABLE[cfg_i % len(CFG_TABLE)])
    cfg["init"] = INIT_TABLE[init_i % len(INIT_TABLE)][1]
    return {"label": label, "cfg": cfg, "vars": VARS_TABLE[vars_i % len(VARS_TABLE)][1], "frames": frames}


def model_lines(case: Dict[str, Any]) -> List[Dict[str, Any]]:
    cfg = case["cfg"]
    c: Dict[str, Any] = {
        "url": URL, "headers": wire.enc(cfg["headers"] or {}), "origin": cfg["origin"], "query": QUERY,
        "opName": cfg["opName"], "kwargs": wire.enc(cfg["kwargs"]), "opId": OP_ID,
    }
    if cfg["init"] != "<absent>":
        c["init"] = wire.enc(cfg["init"])
    if cfg["extraHeaders"] != "<absent>":
        c["extraHeaders"] = wire.enc(cfg["extraHeaders"])
    vs = case["vars"]
    line = {"op": "run", "cfg": c, "vars": None if vs is None else [[k, pv_line(pv)] for k, pv in vs],
            "frames": [frame_line(f) for f in case["frames"]]}
    return [{**line, "client": client, "tracer": tracer} for client, tracer in VARIANTS]


# --------------------------------------------------------------------------------------------
# the scripted connection (semantics of websockets.asyncio.client.ClientConnection)
# --------------------------------------------------------------------------------------------


def _closed_ok() -> Exception:
    from websockets.exceptions import ConnectionClosedOK
    from websockets.frames import Close

    return ConnectionClosedOK(Close(1000, ""), Close(1000, ""), True)


class ScriptedConnection:
    """`async with ws_connect(...) as websocket` yields this object.  Frames are delivered in
    order by `recv()`; `recv()`/`send()` on a socket that is closed (by `close()` or because the
    script ran out = the server closed with 1000) raise ConnectionClosedOK; `__aiter__` is
    websockets' own: `while True: yield await self.recv()` ending on ConnectionClosedOK."""

    def __init__(self, raws: List[Any], events: List[Any]) -> None:
        self.raws = raws
        self.events = events
        self.i = 0
        self.closed = False
        self.entered = 0
        self.exited = 0
        self.last_raw: Any = None

    async def __aenter__(self) -> "ScriptedConnection":
        self.entered += 1
        return self

    async def __aexit__(self, *exc: Any) -> None:
        self.exited += 1
        self.closed = True

    async def send(self, message: Any) -> None:
        if self.closed:
            raise _closed_ok()
        self.events.append(["send", message])

    async def recv(self, decode: Optional[bool] = None) -> Any:
        if self.closed or self.i >= len(self.raws):
            raise _closed_ok()
        raw = self.raws[self.i]
        self.events.append(["recv", self.i])
        self.i += 1
        self.last_raw = raw
        return raw

    async def close(self, code: int = 1000, reason: str = "") -> None:
        self.events.append(["close"])
        self.closed = True

    async def __aiter__(self) -> Any:
        from websockets.exceptions import ConnectionClosedOK

        try:
            while True:
                yield await self.recv()
        except ConnectionClosedOK:
            return


def _client_module(client: str) -> Any:
    return importlib.import_module(PLAIN_MOD if client == "plain" else OT_MOD)


_HTTP: List[Any] = []


def _shared_http() -> Any:
    # constructing httpx.AsyncClient() builds an SSL context (~30 ms); the ws path never touches it
    if not _HTTP:
        import httpx

        _HTTP.append(httpx.AsyncClient(transport=httpx.MockTransport(lambda request: httpx.Response(200, json={"data": None}))))
    return _HTTP[0]


def make_client(client: str, tracer: bool, cfg: Dict[str, Any], ws_url: str = URL) -> Any:
    mod = _client_module(client)
    cls = mod.AsyncBaseClient if client == "plain" else mod.AsyncBaseClientOpenTelemetry
    kwargs: Dict[str, Any] = dict(url="http://verif.test/graphql", http_client=_shared_http(), ws_url=ws_url,
                                  ws_headers=cfg["headers"], ws_origin=cfg["origin"])
    if cfg["init"] != "<absent>":
        kwargs["ws_connection_init_payload"] = cfg["init"]
    if client == "ot":
        kwargs["tracer"] = "verif-c13" if tracer else None
    return cls(**kwargs)


def call_kwargs(cfg: Dict[str, Any]) -> Dict[str, Any]:
    kw = dict(cfg["kwargs"])
    if cfg["extraHeaders"] != "<absent>":
        kw["extra_headers"] = dict(cfg["extraHeaders"])
    return kw


def canon_errors(exc_mod: Any, e: Any) -> Dict[str, Any]:
    return {
        "o": "multi",
        "errors": [{"message": g.message, "locations": g.locations, "path": g.path, "extensions": g.extensions, "original": g.original}
                   for g in e.errors],
        "data": e.data,
    }


async def _drive(cl: Any, case: Dict[str, Any], events: List[Any], conn_box: List[Any]) -> Dict[str, Any]:
    exc_mod = clients.exceptions_module()
    variables = None if case["vars"] is None else {k: pv_build(pv) for k, pv in case["vars"]}
    try:
        agen = cl.execute_ws(query=QUERY, operation_name=case["cfg"]["opName"], variables=variables, **call_kwargs(case["cfg"]))
        async for item in agen:
            events.append(["yield", item])
    except exc_mod.GraphQLClientInvalidMessageFormat as e:
        conn = conn_box[0] if conn_box else None
        msg = getattr(e, "message", None)
        if conn is not None and conn.last_raw is not None and type(msg) is type(conn.last_raw) and msg == conn.last_raw:
            return {"o": "invalid", "arg": "frame"}
        if isinstance(msg, str) and msg.startswith("Invalid message received. Expected: "):
            return {"o": "invalid", "arg": "expected", "value": msg[len("Invalid message received. Expected: "):]}
        return {"o": "invalid", "arg": "other:" + repr(msg)[:80]}
    except exc_mod.GraphQLClientGraphQLMultiError as e:
        return canon_errors(exc_mod, e)
    except Exception as e:  # anything else escaping
        return {"o": "internal", "exc": type(e).__name__, "msg": str(e)[:200]}
    if events and events[-1] == ["close"]:
        return {"o": "completed"}
    return {"o": "exhausted"}


def observe(client: str, tracer: bool, case: Dict[str, Any]) -> Dict[str, Any]:
    """Run the REAL execute_ws on the scripted connection; canonical event log + outcome."""
    mod = _client_module(client)
    events: List[Any] = []
    conn_box: List[Any] = []
    raws = [raw_frame(f) for f in case["frames"]]

    def fake_connect(*args: Any, **kwargs: Any) -> Any:
        events.append(["connect", list(args), dict(kwargs)])
        conn = ScriptedConnection(raws, events)
        conn_box.append(conn)
        return conn

    saved = mod.ws_connect
    mod.ws_connect = fake_connect
    try:
        cl = make_client(client, tracer, case["cfg"])

        async def guarded() -> Dict[str, Any]:
            return await asyncio.wait_for(_drive(cl, case, events, conn_box), CASE_TIMEOUT)

        try:
            outcome = asyncio.run(guarded())
        except asyncio.TimeoutError:
            outcome = {"o": "hang"}
    finally:
        mod.ws_connect = saved
    return canon_observation(events, outcome, conn_box)


def canon_observation(events: List[Any], outcome: Dict[str, Any], conn_box: List[Any]) -> Dict[str, Any]:
    out: List[Any] = []
    ids: List[Any] = []
    problems: List[str] = []
    for ev in events:
        if ev[0] == "connect":
            args, kw = ev[1], dict(ev[2])
            c: Dict[str, Any] = {"url": args[0] if len(args) == 1 else {"positional": [repr(a) for a in args]}}
            sp = kw.pop("subprotocols", "<absent>")
            c["subprotocols"] = [str(s) for s in sp] if isinstance(sp, (list, tuple)) else sp
            c["origin"] = kw.pop("origin", "<absent>")
            c["extra_headers"] = kw.pop("extra_headers", "<absent>")
            c["kwargs"] = kw
            out.append(["connect", c])
        elif ev[0] == "send":
            try:
                msg = json.loads(ev[1])
            except (TypeError, ValueError):
                out.append(["send", {"not-json": repr(ev[1])[:100]}])
                continue
            if isinstance(msg, dict) and "id" in msg:
                ids.append(msg["id"])
                if not (isinstance(msg["id"], str) and UUID4.match(msg["id"])):
                    problems.append("operation id is not a uuid4 string: %r" % (msg["id"],))
                msg = {**msg, "id": OP_ID}
            if not isinstance(ev[1], str):
                problems.append("message sent as %s, not as text" % type(ev[1]).__name__)
            out.append(["send", msg])
        else:
            out.append(ev)
    if len(set(map(str, ids))) > 1:
        problems.append(f"different operation ids within one run: {ids}")
    obs = {"events": out, "outcome": {k: v for k, v in outcome.items() if k != "msg"}}
    if "msg" in outcome:
        obs["exc_msg"] = outcome["msg"]
    obs["conn"] = {"connects": len(conn_box), "entered": sum(c.entered for c in conn_box), "exited": sum(c.exited for c in conn_box)}
    if problems:
        obs["problems"] = problems
    return obs


def decode_model(o: Dict[str, Any]) -> Dict[str, Any]:
    evs = []
    for ev in o["events"]:
        if ev[0] == "connect":
            c = dict(ev[1])
            c["origin"] = wire.dec(c["origin"])
            c["extra_headers"] = wire.dec(c["extra_headers"])
            c["kwargs"] = wire.dec(c["kwargs"])
            evs.append(["connect", c])
        elif ev[0] in ("send", "yield"):
            evs.append([ev[0], wire.dec(ev[1])])
        else:
            evs.append(ev)
    oc = dict(o["outcome"])
    if "data" in oc:
        oc["data"] = wire.dec(oc["data"])
    if "errors" in oc:
        oc["errors"] = [{k: wire.dec(v) for k, v in e.items()} for e in oc["errors"]]
    return {"events": evs, "outcome": oc, "letters": o["letters"], "trig": o["trig"], "connect_accepted": o.get("connect_accepted")}


# --------------------------------------------------------------------------------------------
# triggers (Python twins of Spec/GraphqlTransportWs.lean) and the oracle
# --------------------------------------------------------------------------------------------


def streamed(case: Dict[str, Any]) -> Optional[List[Dict[str, Any]]]:
    frames = case["frames"]
    if not frames or "subprotocols" in case["cfg"]["kwargs"]:
        return None
    if letter(frames[0])[0] != "ack":
        return None
    return frames[1:]  # twin of Spec `streamed`: a function of the configuration and the frames alone


def vars_dumpable(vs: Optional[List[Any]]) -> bool:
    """can json.dumps (no default=) serialise the converted variables? (structural, on the spec)"""
    def raw_ok(pv: List[Any]) -> bool:
        if pv[0] in ("unset", "model", "foreign"):
            return False
        if pv[0] == "list":
            return all(raw_ok(x) for x in pv[1])
        if pv[0] == "dict":
            return all(raw_ok(v) for _, v in pv[1])
        return True

    def conv_ok(pv: List[Any]) -> bool:
        if pv[0] == "model":
            return not spec_has_foreign(pv)
        if pv[0] == "list":
            return all(conv_ok(x) for x in pv[1])
        return raw_ok(pv)

    if not vs:
        return True
    return all(pv[0] == "unset" or conv_ok(pv) for _, pv in vs)


def spec_has_foreign(pv: List[Any]) -> bool:
    """twin of Spec `hasForeign` on the harness's specs (a model's dump holds its fields' values)"""
    if pv[0] == "foreign":
        return True
    if pv[0] == "list":
        return any(spec_has_foreign(x) for x in pv[1])
    if pv[0] == "dict":
        return any(spec_has_foreign(v) for _, v in pv[1])
    if pv[0] == "model":
        return any(spec_has_foreign(v) for v in pv[1]["kw"].values())
    return False


def spec_plain_pf(pv: List[Any]) -> bool:
    """twin of Spec `plainPF`: JSON-native data, possibly with pydantic-serialisable foreign leaves"""
    if pv[0] in ("null", "bool", "num", "str"):
        return True
    if pv[0] == "foreign":
        return pv[1] != "upload"
    if pv[0] == "list":
        return all(spec_plain_pf(x) for x in pv[1])
    if pv[0] == "dict":
        return all(spec_plain_pf(v) for _, v in pv[1])
    return False


def spec_readable(pv: List[Any]) -> bool:
    """twin of Spec `readable`"""
    if pv[0] in ("null", "bool", "num", "str"):
        return True
    if pv[0] == "foreign":
        return pv[1] != "upload"
    if pv[0] == "model":
        # the python-mode dump: nested models are dumped to dicts; it must be plain data (+ foreign leaves)
        def dump_ok(v: List[Any]) -> bool:
            if v[0] == "model":
                return all(dump_ok(x) for x in v[1]["kw"].values())
            if v[0] == "list":
                return all(dump_ok(x) for x in v[1])
            return spec_plain_pf(v)
        return all(dump_ok(v) for v in pv[1]["kw"].values())
    if pv[0] == "list":
        return all(spec_readable(x) for x in pv[1])
    if pv[0] == "dict":
        return all(spec_plain_pf(v) for _, v in pv[1])
    return False  # unset below the top level


def vars_readable(vs: Optional[List[Any]]) -> bool:
    return all(pv[0] == "unset" or spec_readable(pv) for _, pv in (vs or []))


def triggers(case: Dict[str, Any]) -> Dict[str, bool]:
    st = streamed(case)
    falsy = False
    binary = False
    dup = "subprotocols" in case["cfg"]["kwargs"]
    if st is not None:
        pre, term = prefix_until_terminal(st)
        falsy = any(letter(f)[0] == "next" and not py_truthy(letter(f)[1]) for f in pre)
        binary = term is not None and term["t"] == "bytes"
    if not dup and case["frames"] and case["frames"][0]["t"] == "bytes":
        binary = True
    vs = case["vars"]
    need_default = (not dup and bool(case["frames"]) and letter(case["frames"][0])[0] == "ack" and vars_readable(vs)
                    and any(spec_has_foreign(pv) for _, pv in (vs or [])))
    return {"falsyNextData": falsy, "binaryNotUtf8": binary, "varsNeedJsonableDefault": need_default, "extraHeadersKwarg": not dup}


def expected_headers(cfg: Dict[str, Any]) -> Dict[str, Any]:
    h = dict(cfg["headers"] or {})
    if cfg["extraHeaders"] != "<absent>":
        h.update(cfg["extraHeaders"])
    return h


def expected_origin(cfg: Dict[str, Any]) -> Any:
    if "origin" in cfg["kwargs"]:
        return cfg["kwargs"]["origin"]
    return cfg["origin"] if cfg["origin"] else None


def same_subscribe(got: Any, want: Dict[str, Any]) -> bool:
    """equal as protocol messages: an absent, null or empty `variables` member all say "no variables" """
    def norm(m: Any) -> Any:
        if isinstance(m, dict) and isinstance(m.get("payload"), dict) and m["payload"].get("variables", None) in (None, {}):
            return {**m, "payload": {k: v for k, v in m["payload"].items() if k != "variables"}}
        return m

    return common.same_json(norm(got), norm(want))


def oracle(case: Dict[str, Any], obs: Dict[str, Any]) -> List[Tuple[str, Optional[str], str]]:
    """The property, clause by clause, over the recorded REAL trace.  Returns (signature, trigger, detail)
    per failed clause.  Nothing here looks at the Lean model."""
    fails: List[Tuple[str, Optional[str], str]] = []
    trig = triggers(case)
    cfg, frames = case["cfg"], case["frames"]
    evs, outcome = obs["events"], obs["outcome"]

    def fail(sig: str, trigger: Optional[str] = None, detail: str = "") -> None:
        fails.append((sig, trigger, detail))

    if outcome["o"] == "hang":
        fail("hang")
        return fails
    if "subprotocols" in cfg["kwargs"]:
        return fails  # the caller's own duplicate keyword: Python rejects the call, nothing to judge
    for p in obs.get("problems", []):
        fail("malformed-message", None, p)
    # --- opens the socket with the subprotocol and the configured headers / origin
    if not evs or evs[0][0] != "connect" or sum(1 for e in evs if e[0] == "connect") != 1:
        fail("connect-not-first-or-not-once")
        return fails
    c = evs[0][1]
    if c["url"] != case.get("url", URL):
        fail("connect-wrong-url", None, repr(c["url"]))
    if c["subprotocols"] != [SUBPROTOCOL]:
        fail("connect-wrong-subprotocol", None, repr(c["subprotocols"]))
    if c["origin"] != expected_origin(cfg):
        fail("connect-wrong-origin", None, repr(c["origin"]))
    hdrs = c["extra_headers"] if c["extra_headers"] != "<absent>" else c["kwargs"].get("additional_headers", "<absent>")
    if hdrs == "<absent>" or dict(hdrs) != expected_headers(cfg):
        fail("connect-wrong-headers", None, repr(hdrs))
    for k, v in cfg["kwargs"].items():
        if k != "origin" and c["kwargs"].get(k, "<absent>") != v:
            fail("connect-drops-kwarg", None, k)
    if obs["conn"]["entered"] != 1 or obs["conn"]["exited"] != 1:
        fail("socket-not-released-exactly-once", None, repr(obs["conn"]))
    # --- connection_init first, nothing more until the first frame arrived
    rest = evs[1:]
    want_init: Dict[str, Any] = {"type": PROTO["init"]}
    if cfg["init"] != "<absent>" and cfg["init"]:
        want_init["payload"] = cfg["init"]
    if not rest or rest[0][0] != "send" or not common.same_json(rest[0][1], want_init):
        fail("init-not-first", None, repr(rest[:1]))
        return fails
    rest = rest[1:]
    sends = [e[1] for e in evs if e[0] == "send"]
    yields = [e[1] for e in evs if e[0] == "yield"]
    recvs = [e[1] for e in evs if e[0] == "recv"]
    if recvs != list(range(len(recvs))):
        fail("frames-delivered-out-of-order", None, repr(recvs))
    if not frames:
        # the server closed before acknowledging: nothing may be sent beyond the init, nothing yielded
        if len(sends) != 1 or yields or outcome["o"] in ("completed", "exhausted"):
            fail("no-ack-but-proceeds", None, repr(outcome))
        return fails
    if not rest or rest[0] != ["recv", 0]:
        fail("sends-before-ack", None, repr(rest[:2]))
        return fails
    first = letter(frames[0])[0]
    if first != "ack":
        if len(sends) != 1 or yields or len(recvs) != 1:
            fail("proceeds-without-ack", None, f"sends={len(sends)} yields={len(yields)} recvs={len(recvs)}")
        if first == "outside":
            return fails
        if frames[0]["t"] == "bytes":
            if outcome == {"o": "internal", "exc": "UnicodeDecodeError"}:
                fail("non-json-escapes-as-UnicodeDecodeError", "binaryNotUtf8" if trig["binaryNotUtf8"] else None, repr(outcome))
            elif outcome["o"] != "invalid":
                fail("first-frame-not-ack-but-no-invalid-message-error", None, repr(outcome))
            return fails
        if outcome["o"] != "invalid":
            fail("first-frame-not-ack-but-no-invalid-message-error", None, repr(outcome))
        return fails
    # --- after the ack: exactly one subscribe carrying query, operationName, serialised variables
    kind, want_vars = vars_expected(case["vars"])
    if kind == "outside":
        if len([s for s in sends if isinstance(s, dict) and s.get("type") == PROTO["subscribe"]]) > 1:
            fail("more-than-one-subscribe")
        return fails  # variables outside the reading of "serialised variables": not judged further
    rest = rest[1:]
    if trig["varsNeedJsonableDefault"] and outcome == {"o": "internal", "exc": "TypeError"} and len(sends) == 1:
        # inside the reading (a datetime / Decimal / UUID custom scalar), yet json.dumps(payload) raised: no subscribe
        fail("subscribe-not-sent-variables-need-jsonable-default", "varsNeedJsonableDefault", obs.get("exc_msg", ""))
        return fails
    want_payload: Dict[str, Any] = {"query": QUERY, "operationName": cfg["opName"]}
    if kind == "present":
        want_payload["variables"] = want_vars
    want_sub = {"id": OP_ID, "type": PROTO["subscribe"], "payload": want_payload}
    if not rest or rest[0][0] != "send" or not same_subscribe(rest[0][1], want_sub):
        fail("subscribe-missing-or-wrong", None, repr(rest[:1])[:300])
        return fails
    rest = rest[1:]
    subs = [s for s in sends if isinstance(s, dict) and s.get("type") == PROTO["subscribe"]]
    if len(subs) != 1:
        fail("not-exactly-one-subscribe", None, str(len(subs)))
    later = sends[2:]
    if any(not common.same_json(s, {"type": PROTO["pong"]}) for s in later):
        fail("unexpected-message-sent", None, repr(later)[:200])
    # --- streaming: yields in order, one pong per ping, terminal frame decides the outcome
    stream = frames[1:]
    pre, term = prefix_until_terminal(stream)
    want_full = [letter(f)[1] for f in pre if letter(f)[0] == "next"]
    want_truthy = [d for d in want_full if py_truthy(d)]
    if not common.same_json(yields, want_full, ordered=True):
        if trig["falsyNextData"] and common.same_json(yields, want_truthy, ordered=True):
            fail("next-data-dropped", "falsyNextData", f"yielded {len(yields)} of {len(want_full)} next payloads")
        else:
            fail("yields-wrong", None, f"yielded={json.dumps(yields)[:200]} expected={json.dumps(want_full)[:200]}")
    pings = sum(1 for f in pre if letter(f)[0] == "ping")
    if len(later) != pings:
        fail("pong-count-differs-from-ping-count", None, f"pongs={len(later)} pings={pings}")
    # relative order: the event right after the delivery of a ping is its pong, and no pong elsewhere
    for i, ev in enumerate(rest):
        is_ping_recv = ev[0] == "recv" and 1 <= ev[1] <= len(pre) and letter(frames[ev[1]])[0] == "ping"
        nxt = rest[i + 1] if i + 1 < len(rest) else None
        if is_ping_recv and not (nxt is not None and nxt[0] == "send"):
            fail("ping-not-answered-immediately", None, f"event {i}")
            break
        if ev[0] == "send" and not (i > 0 and rest[i - 1][0] == "recv" and letter(frames[rest[i - 1][1]])[0] == "ping"):
            fail("pong-without-ping", None, f"event {i}")
            break
    consumed_want = 1 + len(pre) + (1 if term is not None else 0)
    if len(recvs) != consumed_want:
        fail("consumes-frames-after-termination" if len(recvs) > consumed_want else "stops-early", None,
             f"delivered={len(recvs)} expected={consumed_want}")
    closes = sum(1 for e in evs if e[0] == "close")
    if term is None:
        if outcome["o"] not in ("exhausted",):
            fail("iterator-ended-but-outcome-is-" + outcome["o"], None, repr(outcome)[:200])
        return fails
    tl = letter(term)
    if tl[0] == "outside":
        return fails
    if tl[0] == "complete":
        if outcome["o"] != "completed" or closes != 1:
            fail("complete-does-not-finish", None, repr(outcome)[:200])
    elif tl[0] == "error":
        want = [{"message": e["message"], "locations": e.get("locations"), "path": e.get("path"),
                 "extensions": e.get("extensions"), "original": e} for e in tl[1]]
        if outcome["o"] != "multi":
            fail("error-frame-does-not-raise-multi-error", None, repr(outcome)[:200])
        elif not common.same_json(outcome["errors"], want):
            fail("multi-error-alters-errors", None, repr(outcome)[:200])
    else:  # the four invalid letters
        if term["t"] == "bytes" and outcome == {"o": "internal", "exc": "UnicodeDecodeError"}:
            fail("non-json-escapes-as-UnicodeDecodeError", "binaryNotUtf8" if trig["binaryNotUtf8"] else None, repr(outcome))
        elif outcome["o"] != "invalid":
            fail("invalid-frame-does-not-raise-invalid-message-error", None, f"{tl[0]}: {outcome!r}"[:200])
    if closes and tl[0] != "complete":
        fail("closes-without-complete")
    return fails


# --------------------------------------------------------------------------------------------
# judging a batch of cases
# --------------------------------------------------------------------------------------------

MAX_KEPT_PER_KEY = 40
MAX_KEPT_MISMATCHES = 200  # per batch; the total is counted in the distribution ("mismatch:<observation>")


def add_mismatch(res: Result, m: Mismatch) -> None:
    res.count("mismatch:" + m.observation)
    if len(res.mismatches) < MAX_KEPT_MISMATCHES:
        res.mismatches.append(m)


def strip_obs(obs: Dict[str, Any]) -> Dict[str, Any]:
    oc = {k: v for k, v in obs["outcome"].items()}
    return {"events": obs["events"], "outcome": oc}


def judge_cases(ctx: Ctx, st: Optional[LeanStatus], todo: List[Dict[str, Any]], res: Result, compare: bool = True) -> None:
    model_out: Optional[List[Any]] = None
    if compare and st is not None and st.driver_ok:
        lines: List[Dict[str, Any]] = []
        for case in todo:
            lines += model_lines(case)
        model_out = [decode_model(o) for o in common.run_driver(ctx.prop, lines)]
    kept: Dict[str, int] = {}
    for ci, case in enumerate(todo):
        for f in case["frames"]:
            res.count("letter:" + letter(f)[0])
        trig = triggers(case)
        for k, v in trig.items():
            if v and k != "extraHeadersKwarg":
                res.count("trigger:" + k)
        per_variant: List[Dict[str, Any]] = []
        for vi, (client, tracer) in enumerate(VARIANTS):
            try:
                obs = observe(client, tracer, case)
            except (AttributeError, ImportError, TypeError) as e:
                add_mismatch(res, Mismatch("execute_ws", {**case, "client": client, "tracer": tracer}, f"observer: {e!r}", None))
                continue
            per_variant.append(obs)
            res.count("outcome:" + obs["outcome"]["o"] + (":" + obs["outcome"]["exc"] if obs["outcome"]["o"] == "internal" else ""))
            inp = {**case, "client": client, "tracer": tracer}
            verdicts = oracle(case, obs)
            region = next((k for k in ("falsyNextData", "binaryNotUtf8", "varsNeedJsonableDefault") if trig[k]), None)
            for sig, trigger, detail in verdicts:
                key = f"{trigger}|{sig}"
                kept[key] = kept.get(key, 0) + 1
                res.count("oracle-failure:" + key)
                if kept[key] <= MAX_KEPT_PER_KEY:
                    res.failures.append(Failure(sig, trigger, inp, f"{client}{'+tracer' if tracer else ''}: {detail}"))
            if model_out is not None:
                m = model_out[ci * len(VARIANTS) + vi]
                if not common.same_json(strip_obs(obs), {"events": m["events"], "outcome": m["outcome"]}):
                    # inside a finding region and the oracle sees nothing but listed findings: a listed defect was repaired (INFO, DESIGN.md 1.4)
                    add_mismatch(res, Mismatch("execute_ws", inp, strip_obs(obs), {"events": m["events"], "outcome": m["outcome"]},
                                               trigger=region if region and all(t is not None for _, t, _ in verdicts) else None))
                if vi == 0:
                    if m["letters"] != [letter(f)[0] for f in case["frames"]]:
                        add_mismatch(res, Mismatch("letter", case["frames"], [letter(f)[0] for f in case["frames"]], m["letters"]))
                    if m["trig"] != trig:
                        add_mismatch(res, Mismatch("trigger", case, trig, m["trig"]))
        # the OpenTelemetry variant behaves identically (stated on the real traces)
        if per_variant:
            first = strip_obs(per_variant[0])
            for (client, tracer), obs in zip(VARIANTS, per_variant):
                if not common.same_json(strip_obs(obs), first):
                    key = "None|ot-variant-differs"
                    kept[key] = kept.get(key, 0) + 1
                    if kept[key] <= MAX_KEPT_PER_KEY:
                        res.failures.append(Failure("ot-variant-differs", None, {**case, "client": client, "tracer": tracer},
                                                    f"plain={json.dumps(first, default=repr)[:300]} {client}+tracer={tracer}: {json.dumps(strip_obs(obs), default=repr)[:300]}"))
        st_frames = streamed(case) if vars_dumpable(case["vars"]) else None
        res.seen([case["cfg"], case["vars"], case["frames"]], nontrivial=st_frames is not None and len(st_frames) > 0)
        res.count("len:%d" % min(len(case["frames"]), 13))
        if case.get("label") in ("sample",) and per_variant:
            res.sample({"input": {"frames": case["frames"], "vars": case["vars"]}, "impl": strip_obs(per_variant[0]),
                        "model": ({"events": model_out[ci * 3]["events"], "outcome": model_out[ci * 3]["outcome"]} if model_out else None)})


def fork_map(fn: Any, parts: List[Any], procs: Optional[int] = None, timeout: float = 1500.0) -> List[Tuple[str, Any]]:
    """fn(part) for every part, each in a child forked directly from this (single-threaded) process,
    at most `procs` at a time; results come back pickled over a pipe.  Returns ("ok", value) or
    ("exc", (class name, message, traceback)) per part, in order."""
    import io
    import os
    import pickle
    import selectors
    import sys
    import time
    import traceback

    procs = procs or int(os.environ.get("VERIF_PROCS", "14"))
    results: List[Any] = [None] * len(parts)
    pending = list(enumerate(parts))
    running: Dict[int, List[Any]] = {}
    sel = selectors.DefaultSelector()
    deadline = time.time() + timeout
    try:
        while pending or running:
            while pending and len(running) < procs:
                idx, part = pending.pop(0)
                r, w = os.pipe()
                sys.stdout.flush()
                pid = os.fork()
                if pid == 0:
                    try:
                        os.close(r)
                        sys.stdout = io.StringIO()
                        try:
                            out: Tuple[str, Any] = ("ok", fn(part))
                        except BaseException as e:  # noqa: BLE001 - reported to the parent
                            out = ("exc", (type(e).__name__, str(e)[:2000], traceback.format_exc()[-3000:]))
                        try:
                            data = pickle.dumps(out)
                        except Exception as e:
                            data = pickle.dumps(("exc", ("HarnessPickleError", repr(e), "")))
                        with os.fdopen(w, "wb") as fh:
                            fh.write(data)
                    finally:
                        os._exit(0)
                os.close(w)
                sel.register(r, selectors.EVENT_READ)
                running[r] = [idx, pid, bytearray()]
            for key, _ in sel.select(timeout=5):
                fd = key.fd
                chunk = os.read(fd, 1 << 20)
                if chunk:
                    running[fd][2] += chunk
                    continue
                idx, pid, buf = running.pop(fd)
                sel.unregister(fd)
                os.close(fd)
                os.waitpid(pid, 0)
                results[idx] = pickle.loads(bytes(buf)) if buf else ("exc", ("ChildDied", "no result", ""))
            if time.time() > deadline:
                raise common.Infra("forked correspondence slices timed out")
    finally:
        for fd, (idx, pid, buf) in running.items():
            try:
                os.kill(pid, 9)
                os.waitpid(pid, 0)
                os.close(fd)
            except OSError:
                pass
    return results


def judge_parallel(ctx: Ctx, st: Optional[LeanStatus], todo: List[Dict[str, Any]], res: Result, compare: bool = True,
                   chunk: int = 1000) -> None:
    """judge_cases on slices of `todo` in forked workers (each slice pipes its own lines through the
    driver); results are merged in slice order, so the outcome does not depend on scheduling"""
    if len(todo) <= chunk:
        judge_cases(ctx, st, todo, res, compare)
        return
    slices = [todo[i:i + chunk] for i in range(0, len(todo), chunk)]

    def work(part: List[Dict[str, Any]]) -> Result:
        sub = Result()
        judge_cases(ctx, st, part, sub, compare)
        return sub

    import os

    # the budget is sized for 14 workers; fewer workers (VERIF_PROCS on a shared machine) get proportionally more time
    outs = fork_map(work, slices, timeout=1500.0 * max(1.0, 14.0 / max(1, int(os.environ.get("VERIF_PROCS", "14")))))
    for i, (status, val) in enumerate(outs):
        if status == "ok":
            res.merge(val)
        elif status == "timeout":
            raise common.Infra(f"slice {i} of the correspondence run timed out")
        else:
            cls, msg, tb = val
            if cls == "Infra":
                raise common.Infra(msg)
            raise common.Infra(f"slice {i} of the correspondence run crashed: {cls}: {msg}\n{tb[-1500:]}")
    # at most MAX_KEPT_PER_KEY stored failures per (trigger, signature) over all slices
    kept: Dict[str, int] = {}
    pruned = []
    for f in res.failures:
        kept[f.key()] = kept.get(f.key(), 0) + 1
        if kept[f.key()] <= MAX_KEPT_PER_KEY:
            pruned.append(f)
    res.failures[:] = pruned
    del res.mismatches[MAX_KEPT_MISMATCHES:]
    ctx.log(f"judged {len(todo)} cases x {len(VARIANTS)} variants in {len(slices)} forked slices")


# --------------------------------------------------------------------------------------------
# case generation
# --------------------------------------------------------------------------------------------


def exhaustive_cases(ctx: Ctx) -> List[Dict[str, Any]]:
    """every sequence over the alphabet up to the bound, as the whole script and behind an ack"""
    if ctx.thorough:
        alphabet, bound = BASE10, 5
        extra_alphabet, extra_bound = BASE16, 3
    else:
        alphabet, bound = BASE16, 3
        extra_alphabet, extra_bound = [], 0
    out: List[Dict[str, Any]] = []
    n = ctx.seed  # the seed rotates which configuration / variables a sequence is paired with
    seqs: List[Tuple[Any, ...]] = [()]
    for L in range(1, bound + 1):
        seqs += list(itertools.product(alphabet, repeat=L))
    seen = set()
    for L in range(1, extra_bound + 1):
        seqs += list(itertools.product(extra_alphabet, repeat=L))
    for s in seqs:
        for lead in ((), (ACK,)):
            frames = list(lead) + list(s)
            key = json.dumps(frames, sort_keys=True)
            if key in seen:
                continue
            seen.add(key)
            n += 1
            out.append(make_case(frames, cfg_i=n, init_i=n // 5, vars_i=n // 3, label="exhaustive"))
    return out


def product_cases() -> List[Dict[str, Any]]:
    """{init payload} x {variables} x {configuration} on a few fixed scripts (x the three variants in judge)"""
    scripts = [
        [ACK, NEXT1, PING, NEXT_FALSY[0], NEXT1, COMPLETE, NEXT1],
        [ACK, PING, PING, ERROR2],
        [PING, ACK],
        [ACK],
        [],
    ]
    out = []
    for si, frames in enumerate(scripts):
        for ii in range(len(INIT_TABLE)):
            for vi in range(len(VARS_TABLE)):
                for ci in range(len(CFG_TABLE)):
                    if si >= 2 and (ci + vi + ii) % 3:
                        continue
                    out.append(make_case(frames, ci, ii, vi, label="sample" if (si, ii, vi, ci) in ((0, 1, 5, 1), (1, 0, 3, 2)) else "product"))
    dup = {"label": "dup-kwarg", "cfg": {**CFG_DUPKW, "init": "<absent>"}, "vars": None, "frames": [ACK, NEXT1]}
    out.append(dup)
    return out


def rand_json(rng: Any, depth: int = 0) -> Any:
    r = rng.random()
    if depth > 2 or r < 0.5:
        return rng.choice([None, True, False, 0, 1, -3, 2.5, "", "x", "data", "type", 10**12])
    if r < 0.75:
        return [rand_json(rng, depth + 1) for _ in range(rng.randint(0, 3))]
    keys = rng.sample(["a", "b", "data", "message", "type", "payload", "id"], rng.randint(0, 3))
    return {k: rand_json(rng, depth + 1) for k in keys}


def rand_frame(rng: Any) -> Dict[str, Any]:
    r = rng.random()
    if r < 0.30:
        return fj({"id": "1", "type": "next", "payload": {"data": rand_json(rng) if rng.random() < 0.5 else {"counter": rng.randint(1, 99)}}})
    if r < 0.42:
        return rng.choice([PING, PING, PONG, ACK, VARIANT_LETTERS[27]])
    if r < 0.85:
        return rng.choice(VARIANT_LETTERS)
    if r < 0.93:
        # a random object around the interesting keys
        j: Dict[str, Any] = {}
        if rng.random() < 0.8:
            j["type"] = rng.choice(list(PROTO_NAMES) + ["x", "", None, 1, [], ["next"], {"a": 1}])
        if rng.random() < 0.6:
            j["payload"] = rand_json(rng)
        if rng.random() < 0.5:
            j["id"] = "1"
        return fj(j)
    if r < 0.97:
        return fj({"id": "1", "type": "error", "payload": [rng.choice([ERR_FULL, ERR_MIN, ERR_EXTRA]) for _ in range(rng.randint(1, 4))]})
    return fj(rand_json(rng))


def random_cases(ctx: Ctx, n: int, label: str = "random") -> List[Dict[str, Any]]:
    rng = ctx.sub_rng(label)
    out = []
    for _ in range(n):
        L = rng.randint(4, 12)
        frames: List[Dict[str, Any]] = []
        if rng.random() < 0.9:
            frames.append(ACK if rng.random() < 0.8 else VARIANT_LETTERS[16])
        while len(frames) < L:
            if rng.random() < 0.6:
                frames.append(rng.choice([NEXT1, PING, PONG, NEXT_FALSY[rng.randrange(4)], VARIANT_LETTERS[17], VARIANT_LETTERS[18]]))
            else:
                frames.append(rand_frame(rng))
        out.append(make_case(frames, rng.randrange(len(CFG_TABLE)), rng.randrange(len(INIT_TABLE)), rng.randrange(len(VARS_TABLE)), label=label))
    return out


# --------------------------------------------------------------------------------------------
# the real handshake: real execute_ws against a real websockets server on 127.0.0.1
# --------------------------------------------------------------------------------------------

LOOPBACK_SCRIPTS: List[Tuple[str, List[Dict[str, Any]]]] = [
    ("ack-next-next-complete", [ACK, NEXT1, VARIANT_LETTERS[17], COMPLETE]),
    ("ack-ping-next-ping-error", [ACK, PING, NEXT1, PING, ERROR2]),
    ("ack-next-then-server-closes", [ACK, NEXT1, NEXT1]),
    ("ping-before-ack", [PING]),
    ("ack-then-not-json", [ACK, NEXT1, NONJSON]),
    ("ack-falsy-next", [ACK, NEXT_FALSY[0], NEXT1, COMPLETE]),
    ("ack-binary-json-next-unknown", [ACK, VARIANT_LETTERS[26], UNKNOWN]),
    ("ack-bad-bytes", [ACK, BADBYTES]),
    ("server-closes-before-ack", []),
]


async def _loopback(client: str, tracer: bool, case: Dict[str, Any], shim: bool) -> Dict[str, Any]:
    """One real connection.  The server plays the scripted frames: init <- , first frame ->,
    (subscribe <- if it was the ack), then every frame, waiting for the pong after each ping;
    then closes normally.  Nothing sleeps."""
    import websockets
    from websockets.asyncio.server import serve
    from websockets.exceptions import ConnectionClosed

    frames = case["frames"]
    raws = [raw_frame(f) for f in frames]
    seen: Dict[str, Any] = {"msgs": [], "subprotocol": "<no-connection>", "headers": None, "path": None}
    done = asyncio.Event()

    async def handler(ws: Any) -> None:
        seen["subprotocol"] = ws.subprotocol
        seen["headers"] = {k.lower(): v for k, v in ws.request.headers.raw_items()}
        seen["path"] = ws.request.path
        try:
            seen["msgs"].append(await ws.recv())
            for i, raw in enumerate(raws):
                await ws.send(raw)
                lt = letter(frames[i])[0]
                if i == 0 and lt == "ack":
                    seen["msgs"].append(await ws.recv())
                elif i > 0 and lt == "ping":
                    seen["msgs"].append(await ws.recv())
            await ws.close()
        except ConnectionClosed:
            pass
        finally:
            done.set()

    mod = _client_module(client)
    saved = mod.ws_connect
    events: List[Any] = []
    async with serve(handler, "127.0.0.1", 0, subprotocols=[SUBPROTOCOL]) as server:
        port = server.sockets[0].getsockname()[1]
        cl = make_client(client, tracer, case["cfg"], ws_url=f"ws://127.0.0.1:{port}/graphql")
        if shim:
            # the one-word repair of C13-F1, applied from outside: lets the rest of the real library
            # play against the real client (validates the scripted connection's semantics)
            def shim_connect(url: str, **kw: Any) -> Any:
                kw["additional_headers"] = kw.pop("extra_headers", None)
                return websockets.connect(url, **kw)

            mod.ws_connect = shim_connect
        try:
            outcome = await _drive(cl, case, events, [])
        finally:
            mod.ws_connect = saved
        if seen["subprotocol"] != "<no-connection>":
            await asyncio.wait_for(done.wait(), CASE_TIMEOUT)
    return {"outcome": outcome, "yields": [e[1] for e in events if e[0] == "yield"], "server": seen}


def loopback(client: str, tracer: bool, case: Dict[str, Any], shim: bool) -> Dict[str, Any]:
    async def guarded() -> Dict[str, Any]:
        return await asyncio.wait_for(_loopback(client, tracer, case, shim), CASE_TIMEOUT * 2)

    try:
        return asyncio.run(guarded())
    except asyncio.TimeoutError:
        return {"outcome": {"o": "hang"}, "yields": [], "server": {"msgs": [], "subprotocol": "<hang>", "headers": None}}
    except OSError as e:  # cannot bind / connect on loopback: infrastructure, never a violation
        raise common.Infra(f"loopback websockets server unavailable: {e!r}")


def loopback_oracle(case: Dict[str, Any], got: Dict[str, Any]) -> List[Tuple[str, Optional[str], str]]:
    """'The handshake also succeeds against a real websockets server of the version range the
    project requires': the server must see the subprotocol, the configured headers and origin."""
    fails: List[Tuple[str, Optional[str], str]] = []
    oc, srv = got["outcome"], got["server"]
    if oc["o"] == "hang":
        return [("hang", None, "loopback")]
    if srv["subprotocol"] == "<no-connection>":
        msg = got["outcome"].get("msg", "")
        if oc == {"o": "internal", "exc": "TypeError", "msg": msg} and "extra_headers" in msg:
            return [("connect-rejects-extra_headers", "extraHeadersKwarg", msg)]
        return [("handshake-fails:" + oc.get("exc", oc["o"]), None, msg)]
    if srv["subprotocol"] != SUBPROTOCOL:
        fails.append(("server-sees-wrong-subprotocol", None, repr(srv["subprotocol"])))
    for k, v in expected_headers(case["cfg"]).items():
        if (srv["headers"] or {}).get(k.lower()) != v:
            fails.append(("server-misses-configured-header", None, k))
    if (srv["headers"] or {}).get("origin") != expected_origin(case["cfg"]):
        fails.append(("server-sees-wrong-origin", None, repr((srv["headers"] or {}).get("origin"))))
    return fails


def loopback_expected(case: Dict[str, Any], model: Dict[str, Any]) -> Dict[str, Any]:
    """what the model's trace predicts the server receives / the consumer is yielded / the outcome"""
    return {"msgs": [e[1] for e in model["events"] if e[0] == "send"], "yields": [e[1] for e in model["events"] if e[0] == "yield"],
            "outcome": model["outcome"]}


def run_loopback(ctx: Ctx, st: Optional[LeanStatus], res: Result) -> None:
    base_cfg = {**CFG_TABLE[1], "init": {"token": "abc"}}
    witness_case = {"label": "loopback", "cfg": base_cfg, "vars": VARS_TABLE[2][1], "frames": LOOPBACK_SCRIPTS[0][1]}
    summary: Dict[str, Any] = {"real": {}, "shim": {"cases": 0, "agree": 0}}
    # (1) the real thing, unpatched
    reproduced = False
    for client, tracer in VARIANTS:
        got = loopback(client, tracer, witness_case, shim=False)
        fails = loopback_oracle(witness_case, got)
        summary["real"][f"{client}{'+tracer' if tracer else ''}"] = {"outcome": got["outcome"], "failed_clauses": [f[0] for f in fails]}
        for sig, trigger, detail in fails:
            res.failures.append(Failure(sig, trigger, {"kind": "loopback", "client": client, "tracer": tracer, **witness_case}, detail[:300]))
            reproduced = reproduced or sig == "connect-rejects-extra_headers"
        if not fails:
            # the handshake works: then the whole protocol must hold on the real socket as well
            for name, frames in LOOPBACK_SCRIPTS:
                case = {**witness_case, "frames": frames}
                g = loopback(client, tracer, case, shim=False)
                for sig, trigger, detail in loopback_oracle(case, g) + loopback_protocol_oracle(case, g):
                    res.failures.append(Failure(sig, trigger, {"kind": "loopback", "client": client, "tracer": tracer, **case}, detail[:300]))
        res.seen(["loopback-real", client, tracer])
    res.witness_status["C13-F1"] = "reproduces" if reproduced else "gone"
    # (2) the rest of the real library behind a shim that renames the keyword: validates the scripted
    #     connection (model trace vs what a real server receives / a real consumer is yielded)
    todo = []
    for si, (name, frames) in enumerate(LOOPBACK_SCRIPTS):
        todo.append({"label": "loopback-shim:" + name, "cfg": {**CFG_TABLE[(si + ctx.seed) % 3], "init": INIT_TABLE[si % 4][1]},
                     "vars": VARS_TABLE[(si + ctx.seed) % 9][1], "frames": frames})
    model_out = None
    if st is not None and st.driver_ok:
        lines: List[Dict[str, Any]] = []
        for case in todo:
            lines += model_lines(case)
        model_out = [decode_model(o) for o in common.run_driver(ctx.prop, lines)]
    for ci, case in enumerate(todo):
        for vi, (client, tracer) in enumerate(VARIANTS):
            got = loopback(client, tracer, case, shim=True)
            summary["shim"]["cases"] += 1
            res.seen(["loopback-shim", client, tracer, case["frames"]])
            for sig, trigger, detail in loopback_oracle(case, got) + loopback_protocol_oracle(case, got):
                res.failures.append(Failure(sig, trigger, {"kind": "loopback-shim", "client": client, "tracer": tracer, **case}, detail[:300]))
            if model_out is not None:
                want = loopback_expected(case, model_out[ci * 3 + vi])
                want["outcome"] = loopback_norm_outcome(want["outcome"])
                have = {"msgs": canon_msgs(got["server"]["msgs"]), "yields": got["yields"],
                        "outcome": loopback_norm_outcome(got["outcome"])}
                if common.same_json(have, want):
                    summary["shim"]["agree"] += 1
                else:
                    res.mismatches.append(Mismatch("loopback-shim", {**case, "client": client, "tracer": tracer}, have, want))
    res.extra["loopback"] = summary


def loopback_norm_outcome(oc: Dict[str, Any]) -> Dict[str, Any]:
    """what can be told apart without the scripted connection's event log: a real socket does not
    say whether the generator finished after a client-side close, nor which frame was last"""
    if oc["o"] in ("completed", "exhausted"):
        return {"o": "finished"}
    if oc["o"] == "invalid":
        return {"o": "invalid"}
    return {k: v for k, v in oc.items() if k != "msg"}


def canon_msgs(msgs: List[Any]) -> List[Any]:
    out = []
    for m in msgs:
        try:
            j = json.loads(m)
        except (TypeError, ValueError):
            out.append({"not-json": repr(m)[:80]})
            continue
        if isinstance(j, dict) and "id" in j:
            j = {**j, "id": OP_ID}
        out.append(j)
    return out


def loopback_protocol_oracle(case: Dict[str, Any], got: Dict[str, Any]) -> List[Tuple[str, Optional[str], str]]:
    """the protocol clauses as far as a real server / a real consumer can see them (no interleaving)"""
    fails: List[Tuple[str, Optional[str], str]] = []
    if got["server"]["subprotocol"] in ("<no-connection>", "<hang>"):
        return fails
    frames = case["frames"]
    msgs = canon_msgs(got["server"]["msgs"])
    want_init: Dict[str, Any] = {"type": PROTO["init"]}
    if case["cfg"]["init"] != "<absent>" and case["cfg"]["init"]:
        want_init["payload"] = case["cfg"]["init"]
    if not msgs or not common.same_json(msgs[0], want_init):
        fails.append(("init-not-first", None, repr(msgs[:1])))
        return fails
    if not frames or letter(frames[0])[0] != "ack":
        if len(msgs) != 1 or got["yields"]:
            fails.append(("proceeds-without-ack", None, repr(msgs)[:200]))
        return fails
    kind, want_vars = vars_expected(case["vars"])
    if kind == "outside":
        return fails
    payload: Dict[str, Any] = {"query": QUERY, "operationName": case["cfg"]["opName"]}
    if kind == "present":
        payload["variables"] = want_vars
    if len(msgs) < 2 or not same_subscribe(msgs[1], {"id": OP_ID, "type": PROTO["subscribe"], "payload": payload}):
        fails.append(("subscribe-missing-or-wrong", None, repr(msgs[1:2])[:200]))
        return fails
    pre, term = prefix_until_terminal(frames[1:])
    pings = sum(1 for f in pre if letter(f)[0] == "ping")
    if [m for m in msgs[2:]] != [{"type": PROTO["pong"]}] * pings:
        fails.append(("pong-count-differs-from-ping-count", None, repr(msgs[2:])[:200]))
    want_full = [letter(f)[1] for f in pre if letter(f)[0] == "next"]
    if not common.same_json(got["yields"], want_full, ordered=True):
        trig = triggers(case)
        if trig["falsyNextData"] and common.same_json(got["yields"], [d for d in want_full if py_truthy(d)], ordered=True):
            fails.append(("next-data-dropped", "falsyNextData", "loopback"))
        else:
            fails.append(("yields-wrong", None, repr(got["yields"])[:200]))
    oc = got["outcome"]
    tl = letter(term)[0] if term is not None else None
    if tl is None and oc["o"] not in ("exhausted", "completed"):
        fails.append(("iterator-ended-but-outcome-is-" + oc["o"], None, repr(oc)[:200]))
    if tl == "complete" and oc["o"] not in ("exhausted", "completed"):
        fails.append(("complete-does-not-finish", None, repr(oc)[:200]))
    if tl == "error" and oc["o"] != "multi":
        fails.append(("error-frame-does-not-raise-multi-error", None, repr(oc)[:200]))
    if tl in INVALID_LETTERS:
        if term is not None and term["t"] == "bytes" and oc.get("exc") == "UnicodeDecodeError":
            fails.append(("non-json-escapes-as-UnicodeDecodeError", "binaryNotUtf8", repr(oc)[:200]))
        elif oc["o"] != "invalid":
            fails.append(("invalid-frame-does-not-raise-invalid-message-error", None, repr(oc)[:200]))
    return fails


def validate_connect_spec(ctx: Ctx, st: Optional[LeanStatus], res: Result) -> None:
    """Spec/WsConnect.lean says which keyword names the installed websockets.connect accepts; check
    that against the real library on a real loopback server (acceptance = the handshake completes)."""
    if st is None or not st.driver_ok:
        return
    import websockets
    from websockets.asyncio.server import serve

    async def try_kw(name: str) -> str:
        async def handler(ws: Any) -> None:
            await ws.close()

        async with serve(handler, "127.0.0.1", 0) as server:
            port = server.sockets[0].getsockname()[1]
            try:
                async with websockets.connect(f"ws://127.0.0.1:{port}/", **{name: {"X-Verif": "1"}}):
                    return "accepted"
            except TypeError:
                return "rejected"

    names = ["extra_headers", "additional_headers"]
    lines = [{"op": "accepts", "names": [n]} for n in names]
    model = common.run_driver(ctx.prop, lines)
    out = {}
    for n, m in zip(names, model):
        try:
            real = asyncio.run(asyncio.wait_for(try_kw(n), CASE_TIMEOUT))
        except asyncio.TimeoutError:
            real = "hang"
        except OSError as e:
            raise common.Infra(f"loopback websockets server unavailable: {e!r}")
        out[n] = {"real": real, "spec": "accepted" if m else "rejected"}
        if real != out[n]["spec"]:
            res.mismatches.append(Mismatch("ws-connect-accepts", n, real, out[n]["spec"]))
    res.extra["connect_kwarg_spec"] = out



# --------------------------------------------------------------------------------------------
# the GENERATED subscription method (client_generators/client.py) on real generated packages
# --------------------------------------------------------------------------------------------
# A generated-case is {"kind": "generated", "schema": sdl, "ops": text, "config": {...}, "ot_tracer": bool,
#   "cfg": <entry of CFG_TABLE + init>, "operations": [{"name", "field", "fragments": [...], "vars": [{"name", "type"}],
#   "calls": [{gql variable name: value spec}], "data": [<next payload data>, ...]}]}
# value spec: ["str", s] ["num", n] ["bool", b] ["null"] ["list", [spec...]] ["enum", EnumName, member]
#             ["input", InputName, {graphql field name: spec}];   an omitted variable = argument left UNSET

GEN_SDL_HEAD = """
scalar DateTime
input Window { since: DateTime! label: String }
type Query { ping: String }
type Hit { id: ID! title: String! score: Int tags: [String!] }
enum Kind { A B }
input Range { lo: Int hi: Int }
input Filter { text: String! tagList: [String!] max: Int kind: Kind nested: Range }
"""
GEN_FRAGMENTS = {
    "HitParts": "fragment HitParts on Hit { score }",
    "HitMore": "fragment HitMore on Hit { tags ...HitParts }",
}
CLASH_NAMES = ["query", "variables", "response", "data"]
PLAIN_NAMES = ["topic", "limit", "first", "userId", "filterInput", "after", "in", "from", "id", "type"]
UNDERSCORED = ["_query", "_variables", "_data", "_response"]
GEN_TYPES = ["String!", "String", "Int", "Int!", "Boolean", "ID!", "[String!]", "Filter", "Filter!", "[Filter!]", "Kind", "Kind!"]
FILTER_VALUES = [
    ["input", "Filter", {"text": ["str", "t"]}],
    ["input", "Filter", {"text": ["str", ""], "tagList": ["list", [["str", "x"], ["str", "y"]]], "max": ["null"]}],
    ["input", "Filter", {"text": ["str", "q"], "kind": ["enum", "Kind", "B"], "nested": ["input", "Range", {"lo": ["num", 1]}], "max": ["num", 0]}],
]


def gen_value(rng: Any, typ: str) -> List[Any]:
    base = typ.rstrip("!")
    if base.startswith("["):
        inner = base[1:-1]
        return ["list", [gen_value(rng, inner) for _ in range(rng.randint(0, 2))]]
    if base in ("String", "ID"):
        return ["str", rng.choice(["needle", "", "id-7", "subscription X { y }"])]
    if base == "Int":
        return ["num", rng.choice([0, 3, -1])]
    if base == "Boolean":
        return ["bool", rng.choice([True, False])]
    if base == "Kind":
        return ["enum", "Kind", rng.choice(["A", "B"])]
    if base == "Filter":
        return rng.choice(FILTER_VALUES)
    raise common.Infra(f"gen_value: {typ}")


def value_expected(spec: List[Any]) -> Any:
    """the oracle's reading of 'serialised': GraphQL names, enum member names, only the given input fields"""
    tag = spec[0]
    if tag == "datetime":
        return spec[1]
    if tag == "null":
        return None
    if tag in ("str", "num", "bool"):
        return spec[1]
    if tag == "list":
        return [value_expected(x) for x in spec[1]]
    if tag == "enum":
        return spec[2]
    if tag == "input":
        return {k: value_expected(v) for k, v in spec[2].items()}
    raise common.Infra(f"value spec {spec}")


def make_generated_op(rng: Any, idx: int, names: List[str]) -> Dict[str, Any]:
    opname = ["Search", "Feed", "Ticks", "Watch", "Stream"][idx % 5] + (str(idx) if idx >= 5 else "")
    field = opname[0].lower() + opname[1:]
    vars_ = [{"name": n, "type": rng.choice(GEN_TYPES)} for n in names]
    frags = [[], ["HitParts"], ["HitMore"]][rng.randrange(3)]
    calls: List[Dict[str, Any]] = []
    full = {v["name"]: gen_value(rng, v["type"]) for v in vars_}
    calls.append(full)
    calls.append({v["name"]: gen_value(rng, v["type"]) for v in vars_ if v["type"].endswith("!")})
    mixed = {}
    for v in vars_:
        if v["type"].endswith("!") or rng.random() < 0.5:
            mixed[v["name"]] = gen_value(rng, v["type"])
        elif rng.random() < 0.5:
            mixed[v["name"]] = ["null"]
    calls.append(mixed)
    hit: Dict[str, Any] = {"id": "7", "title": "t"}
    hit2: Dict[str, Any] = {"id": "8", "title": ""}
    if frags:
        hit["score"], hit2["score"] = 1, None
    if "HitMore" in frags:
        hit["tags"], hit2["tags"] = ["x"], None
    return {"name": opname, "field": field, "fragments": frags, "vars": vars_, "calls": calls,
            "data": [{field: hit}, {field: hit2}]}


def generated_sources(case_ops: List[Dict[str, Any]]) -> Tuple[str, str]:
    fields, ops, used = [], [], set()
    for op in case_ops:
        args = ", ".join(f"{v['name']}: {v['type']}" for v in op["vars"])
        fields.append(f"  {op['field']}" + (f"({args})" if args else "") + ": Hit!")
        decl = ", ".join(f"${v['name']}: {v['type']}" for v in op["vars"])
        use = ", ".join(f"{v['name']}: ${v['name']}" for v in op["vars"])
        sel = "id title" + "".join(f" ...{f}" for f in op["fragments"])
        ops.append(f"subscription {op['name']}" + (f"({decl})" if decl else "") + " { " + op["field"] + (f"({use})" if use else "") + " { " + sel + " } }")
        for f in op["fragments"]:
            used.add(f)
            if f == "HitMore":
                used.add("HitParts")
    sdl = GEN_SDL_HEAD + "type Subscription {\n" + "\n".join(fields) + "\n}\n"
    return sdl, "\n".join(ops + [GEN_FRAGMENTS[f] for f in sorted(used)]) + "\n"


def fixed_generated_cases() -> List[Dict[str, Any]]:
    """the shadowing names, always run (seed independent)"""
    import random

    out = []
    for ci, (snake, ot) in enumerate([(True, False), (False, True)]):
        rng = random.Random(f"c13-fixed-{ci}")
        ops = [make_generated_op(rng, 0, ["query", "limit"]), make_generated_op(rng, 1, ["variables", "data"]),
               make_generated_op(rng, 2, ["response", "topic"]), make_generated_op(rng, 3, ["_query"] if not snake else ["_data", "userId"]),
               make_generated_op(rng, 4, [])]
        ops[0]["vars"][0]["type"] = "String!"
        ops[0]["calls"] = [{"query": ["str", "needle"], "limit": ["num", 3]}, {"query": ["str", "needle"]}]
        out.append(finish_generated_case(ops, snake, ot, ci, "generated-fixed"))
    # C13-F4 on a real generated package: a custom scalar "supported by pydantic" (README) as a subscription variable,
    # at the top level and inside an input model; the third call does not use it and must go through
    rng = random.Random("c13-fixed-datetime")
    op = make_generated_op(rng, 2, ["since", "w", "limit"])
    op["vars"] = [{"name": "since", "type": "DateTime"}, {"name": "w", "type": "Window"}, {"name": "limit", "type": "Int"}]
    op["calls"] = [{"since": ["datetime", "2020-01-01T00:00:00"], "limit": ["num", 1]},
                   {"w": ["input", "Window", {"since": ["datetime", "2021-02-03T04:05:06"], "label": ["str", "l"]}]},
                   {"limit": ["num", 2]}]
    case = finish_generated_case([op], True, False, 0, "generated-fixed")
    case["config"]["scalars"] = {"DateTime": {"type": "datetime.datetime"}}
    out.append(case)
    return out


def finish_generated_case(ops: List[Dict[str, Any]], snake: bool, ot: bool, n: int, label: str) -> Dict[str, Any]:
    sdl, text = generated_sources(ops)
    config: Dict[str, Any] = {"convert_to_snake_case": snake}
    if ot:
        config["opentelemetry_client"] = True
    cfg = dict(CFG_TABLE[n % len(CFG_TABLE)])
    cfg["init"] = INIT_TABLE[n % len(INIT_TABLE)][1]
    cfg["opName"] = None  # decided by the generated method
    return {"kind": "generated", "label": label, "schema": sdl, "ops": text, "config": config, "ot_tracer": bool(ot and n % 2 == 0),
            "cfg": cfg, "operations": ops}


def random_generated_cases(ctx: Ctx, n: int, label: str = "generated") -> List[Dict[str, Any]]:
    rng = ctx.sub_rng(label)
    out = []
    for i in range(n):
        snake = rng.random() < 0.7
        ot = rng.random() < 0.3
        ops = []
        for k in range(3):
            names: List[str] = []
            pool = CLASH_NAMES * 2 + PLAIN_NAMES + UNDERSCORED
            for _ in range(rng.randint(0, 4)):
                cand = rng.choice(pool)
                twin = cand.lstrip("_")
                # stay outside C03's finding regions: no two variables with the same python name,
                # never `$x` together with `$_x` (C03-F1 / C03-F4)
                if any(x.lstrip("_") == twin for x in names):
                    continue
                names.append(cand)
            ops.append(make_generated_op(rng, k, names))
        out.append(finish_generated_case(ops, snake, ot, i + ctx.seed, label))
    return out


def sub_body(client_src: str, method: str) -> Dict[str, Any]:
    """which NAME the emitted method uses in which position (twin of SubMethod.Body)"""
    import ast

    body: Dict[str, Any] = {k: "?" for k in ("queryTarget", "varsTarget", "loopTarget", "callQuery", "callVars", "callKwargs", "yieldArg", "opName")}
    op_text = None
    tree = ast.parse(client_src)
    fn = next((n for n in ast.walk(tree) if isinstance(n, ast.AsyncFunctionDef) and n.name == method), None)
    if fn is None:
        return {"body": body, "opText": None}
    for st in fn.body:
        if isinstance(st, ast.Assign) and isinstance(st.value, ast.Call) and isinstance(st.value.func, ast.Name) and st.value.func.id == "gql":
            if len(st.targets) == 1 and isinstance(st.targets[0], ast.Name):
                body["queryTarget"] = st.targets[0].id
            if st.value.args and isinstance(st.value.args[0], ast.Constant) and isinstance(st.value.args[0].value, str):
                op_text = st.value.args[0].value
        elif isinstance(st, ast.AnnAssign) and isinstance(st.value, ast.Dict) and isinstance(st.target, ast.Name):
            body["varsTarget"] = st.target.id
        elif isinstance(st, ast.AsyncFor):
            if isinstance(st.target, ast.Name):
                body["loopTarget"] = st.target.id
            if isinstance(st.iter, ast.Call):
                for kw in st.iter.keywords:
                    if kw.arg == "query" and isinstance(kw.value, ast.Name):
                        body["callQuery"] = kw.value.id
                    elif kw.arg == "variables" and isinstance(kw.value, ast.Name):
                        body["callVars"] = kw.value.id
                    elif kw.arg is None and isinstance(kw.value, ast.Name):
                        body["callKwargs"] = kw.value.id
                    elif kw.arg == "operation_name" and isinstance(kw.value, ast.Constant):
                        body["opName"] = kw.value.value
            for inner in ast.walk(st):
                if isinstance(inner, ast.Yield) and isinstance(inner.value, ast.Call) and inner.value.args and isinstance(inner.value.args[0], ast.Name):
                    body["yieldArg"] = inner.value.args[0].id
    return {"body": body, "opText": op_text}


def _alias_map(cls: Any) -> Dict[str, str]:
    return {(f.alias or name): name for name, f in cls.model_fields.items()}


def build_generated_value(pkg: Any, spec: List[Any]) -> Any:
    tag = spec[0]
    if tag == "datetime":
        import datetime as _dt

        return _dt.datetime.fromisoformat(spec[1])
    if tag == "null":
        return None
    if tag in ("str", "num", "bool"):
        return spec[1]
    if tag == "list":
        return [build_generated_value(pkg, x) for x in spec[1]]
    if tag == "enum":
        return getattr(pkg, spec[1])(spec[2])
    if tag == "input":
        cls = getattr(pkg, spec[1])
        amap = _alias_map(cls)
        return cls(**{amap[k]: build_generated_value(pkg, v) for k, v in spec[2].items()})
    raise common.Infra(f"value spec {spec}")


def generated_pv_line(value: Any) -> List[Any]:
    """a real Python argument -> the driver's PV encoding (a model travels as what pydantic dumps for it)"""
    import enum as _enum

    from pydantic import BaseModel

    if value is None:
        return ["null"]
    if isinstance(value, bool):
        return ["bool", value]
    if isinstance(value, _enum.Enum):
        return ["str", value.value]
    if isinstance(value, (int, float)):
        return ["num", value]
    if isinstance(value, str):
        return ["str", value]
    if isinstance(value, BaseModel):
        dump = value.model_dump(by_alias=True, exclude_unset=True)
        if json_native(dump):
            return ["model", wire.enc(json.loads(json.dumps(dump)))]
        return ["modelPy", [[k, py_to_pvline(v)] for k, v in dump.items()]]
    if isinstance(value, list):
        return ["list", [generated_pv_line(x) for x in value]]
    return ["foreign", jsonable_of(value)]


def generated_scripts(op: Dict[str, Any]) -> List[List[Dict[str, Any]]]:
    nx = [fj({"id": "1", "type": "next", "payload": {"data": d}}) for d in op["data"]]
    return [[ACK, nx[0], PING, nx[1], COMPLETE, nx[0]], [ACK, nx[0], ERROR2]]


def _generated_child(root: Any, case: Dict[str, Any]) -> Dict[str, Any]:
    """inside a forked child: generate the REAL package, import it, drive every generated subscription
    method against the scripted connection"""
    import traceback

    from . import e2e, engine

    out: Dict[str, Any] = {"ops": []}
    try:
        gen = engine.generate_client(root, case["schema"], case["ops"], case["config"])
        pkg = engine.import_package(gen)
    except BaseException as e:  # noqa: BLE001
        return {"broken": f"{type(e).__name__}: {str(e)[:300]}", "where": traceback.format_exc()[-1200:]}
    src = gen.read("client.py")
    mm = e2e.method_map(src)
    base_name = "async_base_client_open_telemetry" if case["config"].get("opentelemetry_client") else "async_base_client"
    base_mod = importlib.import_module(f"{gen.package}.{base_name}")
    exc_mod = importlib.import_module(f"{gen.package}.exceptions")
    cfg = case["cfg"]
    for op in case["operations"]:
        m = mm.get(op["name"])
        rec: Dict[str, Any] = {"op": op["name"], "runs": []}
        out["ops"].append(rec)
        if m is None:
            rec["missing"] = True
            continue
        rec.update({"method": m["method"], "params": m["params"], "dict": [[k, v] for k, v in m["varmap"].items()],
                    "async_generator": bool(m["async"] and m["generator"])})
        rec.update(sub_body(src, m["method"]))
        ret_cls = getattr(pkg, op["name"], None)
        for ci, call in enumerate(op["calls"]):
            try:
                pyargs = {m["varmap"].get(g, g): build_generated_value(pkg, spec) for g, spec in call.items()}
                arg_lines = [[k, generated_pv_line(v)] for k, v in pyargs.items()]
            except BaseException as e:  # noqa: BLE001
                rec["runs"].append({"call": ci, "script": -1, "build_error": f"{type(e).__name__}: {str(e)[:200]}"})
                continue
            for si, frames in enumerate(generated_scripts(op)):
                events: List[Any] = []
                conn_box: List[Any] = []
                raws = [raw_frame(f) for f in frames]
                items: List[Any] = []

                def fake_connect(*args: Any, **kwargs: Any) -> Any:
                    events.append(["connect", list(args), dict(kwargs)])
                    conn = ScriptedConnection(raws, events)
                    conn_box.append(conn)
                    return conn

                base_mod.ws_connect = fake_connect
                kw: Dict[str, Any] = dict(url="http://verif.test/graphql", http_client=_shared_http(), ws_url=URL,
                                          ws_headers=cfg["headers"], ws_origin=cfg["origin"])
                if cfg["init"] != "<absent>":
                    kw["ws_connection_init_payload"] = cfg["init"]
                if case["config"].get("opentelemetry_client"):
                    kw["tracer"] = "verif-c13" if case["ot_tracer"] else None
                client = getattr(pkg, "Client")(**kw)

                async def drive() -> Dict[str, Any]:
                    try:
                        async for item in getattr(client, m["method"])(**pyargs, **call_kwargs(cfg)):
                            items.append(item)
                            events.append(["yield", "<item>"])
                    except exc_mod.GraphQLClientInvalidMessageFormat:
                        return {"o": "invalid", "arg": "frame"}
                    except exc_mod.GraphQLClientGraphQLMultiError as e:
                        return canon_errors(exc_mod, e)
                    except Exception as e:  # anything else escaping
                        return {"o": "internal", "exc": type(e).__name__, "msg": str(e)[:200]}
                    if events and events[-1] == ["close"]:
                        return {"o": "completed"}
                    return {"o": "exhausted"}

                async def guarded() -> Dict[str, Any]:
                    return await asyncio.wait_for(drive(), CASE_TIMEOUT)

                try:
                    outcome = asyncio.run(guarded())
                except asyncio.TimeoutError:
                    outcome = {"o": "hang"}
                # what was yielded: class, dump by GraphQL names, and equality with Model.model_validate(data)
                nexts = [letter(f)[1] for f in prefix_until_terminal(frames[1:])[0] if letter(f)[0] == "next"]
                ys = []
                for i, item in enumerate(items):
                    y: Dict[str, Any] = {"cls": type(item).__name__}
                    try:
                        y["dump"] = json.loads(item.model_dump_json(by_alias=True))
                        y["eq"] = bool(ret_cls is not None and i < len(nexts) and item == ret_cls.model_validate(nexts[i]))
                    except Exception as e:
                        y["dump"] = {"not-a-model": repr(item)[:100]}
                        y["eq"] = False
                        y["error"] = type(e).__name__
                    ys.append(y)
                yi = iter(ys)
                evs = [(["yield", next(yi)["dump"]] if ev[0] == "yield" else ev) for ev in events]
                obs = canon_observation(evs, outcome, conn_box)
                rec["runs"].append({"call": ci, "script": si, "obs": obs, "yields": ys, "arg_lines": arg_lines})
    return out


def _op_definitions(text: str, name: str, fragments: List[str]) -> List[str]:
    """normalised text of the operation `name` and of the fragments it uses (transitively), authored side"""
    from graphql import FragmentDefinitionNode, FragmentSpreadNode, OperationDefinitionNode, parse, print_ast

    doc = parse(text)
    frs = {d.name.value: d for d in doc.definitions if isinstance(d, FragmentDefinitionNode)}
    op = next(d for d in doc.definitions if isinstance(d, OperationDefinitionNode) and d.name and d.name.value == name)
    need: List[str] = []

    def visit(node: Any) -> None:
        for child in getattr(getattr(node, "selection_set", None), "selections", None) or []:
            if isinstance(child, FragmentSpreadNode):
                if child.name.value not in need:
                    need.append(child.name.value)
                    visit(frs[child.name.value])
            else:
                visit(child)

    visit(op)
    return sorted([print_ast(op)] + [print_ast(frs[n]) for n in need])


def generated_oracle(case: Dict[str, Any], op: Dict[str, Any], rec: Dict[str, Any], run: Dict[str, Any]) -> List[Tuple[str, Optional[str], str]]:
    """The property's clause for the generated method, stated on the recorded real trace."""
    from graphql import parse, print_ast

    fails: List[Tuple[str, Optional[str], str]] = []
    if "build_error" in run:
        return [("generated-arguments-rejected", None, run["build_error"])]
    obs = run["obs"]
    oc = obs["outcome"]
    frames = generated_scripts(op)[run["script"]]
    if oc["o"] == "hang":
        return [("hang", None, "generated method")]
    sends = [e[1] for e in obs["events"] if e[0] == "send"]
    subs = [s for s in sends if isinstance(s, dict) and s.get("type") == PROTO["subscribe"]]
    call_spec = op["calls"][run["call"]]
    if (not subs and oc == {"o": "internal", "exc": "TypeError"} and len(sends) == 1 and letter(frames[0])[0] == "ack"
            and any(gen_spec_has_datetime(v) for v in call_spec.values())):
        return [("subscribe-not-sent-variables-need-jsonable-default", "varsNeedJsonableDefault",
                 f"{op['name']}({', '.join(call_spec)}): {obs.get('exc_msg', '')}")]
    if len(subs) != 1:
        why = f"{len(subs)} subscribe messages; outcome {json.dumps(oc, default=repr)[:200]} {obs.get('exc_msg', '')}"
        return [("generated-not-exactly-one-subscribe", None, why)]
    payload = subs[0].get("payload") or {}
    q = payload.get("query")
    try:
        got_defs = sorted(print_ast(d) for d in parse(q).definitions)
    except Exception as e:  # GraphQLError, TypeError (not a string)
        got_defs = None
        fails.append(("generated-subscribe-wrong-query", None, f"payload.query does not parse ({type(e).__name__}): {q!r}"[:300]))
    if got_defs is not None and got_defs != _op_definitions(case["ops"], op["name"], op["fragments"]):
        fails.append(("generated-subscribe-wrong-query", None, f"payload.query is not the authored operation {op['name']} (+ its fragments): {q!r}"[:300]))
    if payload.get("operationName") != op["name"]:
        fails.append(("generated-subscribe-wrong-operation-name", None, repr(payload.get("operationName"))))
    want_vars = {g: value_expected(spec) for g, spec in op["calls"][run["call"]].items()}
    got_vars = payload.get("variables")
    if not common.same_json(got_vars if got_vars is not None else {}, want_vars):
        fails.append(("generated-subscribe-wrong-variables", None, f"sent {json.dumps(got_vars)[:200]} expected {json.dumps(want_vars)[:200]}"))
    pre, term = prefix_until_terminal(frames[1:])
    nexts = [letter(f)[1] for f in pre if letter(f)[0] == "next"]
    ys = run["yields"]
    if len(ys) != len(nexts) or any(y["cls"] != op["name"] or not y["eq"] or not common.same_json(y["dump"], d) for y, d in zip(ys, nexts)):
        fails.append(("generated-yield-not-the-validated-model", None,
                      f"yielded {json.dumps(ys, default=repr)[:300]} for next data {json.dumps(nexts)[:200]}"))
    tl = letter(term)[0] if term is not None else None
    if (tl == "complete" and oc["o"] != "completed") or (tl == "error" and oc["o"] != "multi"):
        fails.append(("generated-method-wrong-outcome", None, repr(oc)[:200]))
    return fails


def gen_spec_has_datetime(spec: List[Any]) -> bool:
    if spec[0] == "datetime":
        return True
    if spec[0] == "list":
        return any(gen_spec_has_datetime(x) for x in spec[1])
    if spec[0] == "input":
        return any(gen_spec_has_datetime(v) for v in spec[2].values())
    return False


def generated_model_line(case: Dict[str, Any], rec: Dict[str, Any], run: Dict[str, Any], frames: List[Dict[str, Any]]) -> Dict[str, Any]:
    cfg = case["cfg"]
    c: Dict[str, Any] = {"url": URL, "headers": wire.enc(cfg["headers"] or {}), "origin": cfg["origin"], "query": "", "opName": None,
                         "kwargs": wire.enc(cfg["kwargs"]), "opId": OP_ID}
    if cfg["init"] != "<absent>":
        c["init"] = wire.enc(cfg["init"])
    if cfg["extraHeaders"] != "<absent>":
        c["extraHeaders"] = wire.enc(cfg["extraHeaders"])
    ot = bool(case["config"].get("opentelemetry_client"))
    return {"op": "method", "client": "ot" if ot else "plain", "tracer": bool(case["ot_tracer"]), "cfg": c, "params": rec["params"],
            "dict": rec["dict"], "opName": rec["body"]["opName"] if isinstance(rec["body"]["opName"], str) else "", "opText": rec["opText"] or "",
            "args": run["arg_lines"], "frames": [frame_line(f) for f in frames]}


def judge_generated(ctx: Ctx, st: Optional[LeanStatus], cases: List[Dict[str, Any]], res: Result, compare: bool = True) -> None:
    from . import engine

    child = engine.with_scratch(_generated_child)
    outs = fork_map(lambda case: child(case), cases, timeout=1500.0)
    lines: List[Dict[str, Any]] = []
    refs: List[Tuple[Dict[str, Any], Dict[str, Any], Dict[str, Any], Dict[str, Any]]] = []
    for case, (status, val) in zip(cases, outs):
        res.seen([case["schema"], case["ops"], case["config"]], nontrivial=True)
        res.count("generated:packages")
        if status != "ok":
            raise common.Infra(f"generated-method child crashed: {val}")
        if "broken" in val:
            res.failures.append(Failure("generated-client-unusable", None, case, val["broken"] + " | " + val.get("where", "")[-300:]))
            continue
        for op, rec in zip(case["operations"], val["ops"]):
            inp = {**case, "only_op": op["name"]}
            if rec.get("missing") or not rec.get("async_generator"):
                res.failures.append(Failure("generated-subscription-method-missing", None, inp, json.dumps(rec, default=repr)[:300]))
                continue
            for name in [v["name"] for v in op["vars"]]:
                res.count("generated:variable:" + ("clash" if name in CLASH_NAMES else "underscored" if name in UNDERSCORED else "plain"))
            for run in rec["runs"]:
                res.count("generated:runs")
                run["_verdicts"] = generated_oracle(case, op, rec, run)
                for sig, trigger, detail in run["_verdicts"]:
                    res.count(f"oracle-failure:{trigger}|{sig}")
                    res.failures.append(Failure(sig, trigger, {**inp, "only_call": run.get("call"), "only_script": run.get("script")},
                                                f"{op['name']} via {rec.get('method')}: {detail}"))
                if "obs" in run:
                    lines.append(generated_model_line(case, rec, run, generated_scripts(op)[run["script"]]))
                    refs.append((inp, op, rec, run))
    if compare and st is not None and st.driver_ok and lines:
        for (inp, op, rec, run), m in zip(refs, common.run_driver(ctx.prop, lines)):
            if m["body"] != rec["body"]:
                add_mismatch(res, Mismatch("generated-method-body", {**inp, "method": rec.get("method")}, rec["body"], m["body"]))
            # which value `model_validate` gets: the loop target is rebound on every round (Python's name lookup)
            b = rec["body"]
            yv = "item" if b["yieldArg"] == b["loopTarget"] else "arg" if b["yieldArg"] in rec["params"] else "other"
            if m.get("yieldValue") not in (yv, "NameError" if yv == "other" else yv):
                add_mismatch(res, Mismatch("generated-method-yield", {**inp, "method": rec.get("method")}, yv, m.get("yieldValue")))
            dm = decode_model({**m, "letters": [], "trig": {}})
            if not common.same_json(strip_obs(run["obs"]), {"events": dm["events"], "outcome": dm["outcome"]}):
                repaired = all(t is not None for _, t, _ in run.get("_verdicts") or []) and any(gen_spec_has_datetime(v) for v in op["calls"][run["call"]].values())
                add_mismatch(res, Mismatch("generated-method-run", {**inp, "only_call": run["call"], "only_script": run["script"]},
                                           strip_obs(run["obs"]), {"events": dm["events"], "outcome": dm["outcome"]},
                                           trigger="varsNeedJsonableDefault" if repaired else None))
    # keep the stored failures bounded
    kept: Dict[str, int] = {}
    pruned = []
    for f in res.failures:
        kept[f.key()] = kept.get(f.key(), 0) + 1
        if kept[f.key()] <= MAX_KEPT_PER_KEY:
            pruned.append(f)
    res.failures[:] = pruned


def run_generated(ctx: Ctx, st: Optional[LeanStatus], res: Result, n_random: int, compare: bool = True) -> None:
    cases = fixed_generated_cases() + random_generated_cases(ctx, n_random)
    judge_generated(ctx, st, cases, res, compare)
    ctx.log(f"generated subscription methods: {len(cases)} real packages driven")



# --------------------------------------------------------------------------------------------
# the CONNECTION side: many subscriptions on ONE client object sharing dict objects
# (Model/WsClientHeap.lean; Properties/C13.lean §9, §10)
# --------------------------------------------------------------------------------------------
# A session is {"kind": "session", "store": [dict, ...]          the caller's dict objects, address = position
#               "ctor": {"headers": addr|None, "origin": str|None, "init": addr|None},
#               "steps": [{"extra": addr|None, "kwargs": {...}, "opName": str|None, "vars": <vars spec>, "frames": [...],
#                          "refuse": None|"OSError", "take": None|n}]}
# The SAME Python dict object is handed to the constructor / to every step that names its address.

SESSION_HDRS: List[Dict[str, Any]] = [
    {"Authorization": "Bearer service-account", "X-Tenant": "acme"},   # 0: typical constructor dict
    {"Authorization": "Bearer user-42", "X-Request-Id": "req-1"},       # 1: overrides a configured key + adds one
    {},                                                                  # 2: empty (falsy: `ws_headers or {}` replaces it)
    {"X-Trace": "t-1"},                                                  # 3: only new keys
    {"token": "abc", "auth": {"scopes": ["a", None], "n": 1}},           # 4: an init payload
    {"token": "refreshed"},                                              # 5: the payload after a token refresh
]
URL2 = "ws://other.test/graphql"


def is_edit(st: Dict[str, Any]) -> bool:
    """a session entry {"edit": "init"|"headers"|"origin"|"url", "to": ...} / {"edit": "write", "at": addr, "value": {...}}:
    what the OWNER of the client does between two subscriptions (rebinding a public attribute, mutating a dict in place)"""
    return "edit" in st


def config_at(sess: Dict[str, Any], upto: int) -> Dict[str, Any]:
    """the configuration current before entry `upto`: the constructor's, then ONLY the owner's edits (the oracle's own
    statement - no subscription contributes anything).  `known` = the caller's dicts (+ the client's own `{}`)"""
    import copy

    ctor = sess["ctor"]
    known = copy.deepcopy(sess["store"])
    fresh = ctor["headers"] is None or not known[ctor["headers"]]
    if fresh:
        known.append({})
    cfg = {"known": known, "headers": len(sess["store"]) if fresh else ctor["headers"], "origin": ctor["origin"] or None,
           "init": ctor["init"], "url": ctor.get("url", URL), "fresh": fresh}
    for st in sess["steps"][:upto]:
        if not is_edit(st):
            continue
        if st["edit"] == "write":
            known[st["at"]] = copy.deepcopy(st["value"])
        else:
            cfg[st["edit"]] = st["to"]
    return cfg

SESSION_SCRIPTS: List[List[Dict[str, Any]]] = [
    [ACK, NEXT1, COMPLETE],
    [ACK, NEXT1, PING, NEXT1, NEXT1],
    [ACK, ERROR1],
    [PING],
    [],
    [ACK, NEXT1, UNKNOWN, NEXT1],
    [ACK, NEXT1, NEXT1, NEXT1, COMPLETE],
]
SESSION_KWARGS: List[Dict[str, Any]] = [{}, {}, {"open_timeout": 5}, {"origin": "https://kw.test"}, {"origin": None, "max_size": 1024}]


def mk_step(extra: Optional[int] = None, frames: Optional[List[Dict[str, Any]]] = None, kwargs: Optional[Dict[str, Any]] = None,
            vars_i: int = 0, take: Optional[int] = None, refuse: Optional[str] = None, op_name: Optional[str] = "S") -> Dict[str, Any]:
    return {"extra": extra, "kwargs": dict(kwargs or {}), "opName": op_name, "vars": VARS_TABLE[vars_i % len(VARS_TABLE)][1],
            "frames": list(SESSION_SCRIPTS[0] if frames is None else frames), "refuse": refuse, "take": take}


def mk_session(ctor_headers: Optional[int], steps: List[Dict[str, Any]], origin: Optional[str] = None, init: Optional[int] = None,
               label: str = "session") -> Dict[str, Any]:
    return {"kind": "session", "label": label, "store": [dict(d) for d in SESSION_HDRS],
            "ctor": {"headers": ctor_headers, "origin": origin, "init": init}, "steps": steps}


def fixed_sessions() -> List[Dict[str, Any]]:
    """always run, seed independent: the sharing patterns that matter"""
    return [
        # per-call headers (override + new key), then a call without: the second socket must see the configured ones
        mk_session(0, [mk_step(extra=1), mk_step()], label="session-fixed"),
        mk_session(0, [mk_step(), mk_step(extra=1), mk_step(extra=3), mk_step()], origin="https://origin.test", init=4, label="session-fixed"),
        # no configured headers at all / an empty dict given to the constructor
        mk_session(None, [mk_step(extra=1), mk_step(), mk_step(extra=3)], label="session-fixed"),
        mk_session(2, [mk_step(extra=1), mk_step(extra=2), mk_step()], label="session-fixed"),
        # the SAME dict object is the constructor's ws_headers and a call's extra_headers; one dict shared by two calls
        mk_session(0, [mk_step(extra=0), mk_step(extra=1), mk_step(extra=1), mk_step()], label="session-fixed"),
        # failed / refused / abandoned subscriptions are history too
        mk_session(0, [mk_step(extra=1, frames=[PING]), mk_step(extra=3, refuse="OSError"), mk_step(extra=1, frames=SESSION_SCRIPTS[6], take=2),
                       mk_step(frames=SESSION_SCRIPTS[6], take=0), mk_step()], init=4, label="session-fixed"),
        mk_session(3, [mk_step(extra=1, kwargs={"origin": "https://kw.test"}), mk_step(kwargs={"subprotocols": ["x"]}), mk_step(extra=1, vars_i=13),
                       mk_step(vars_i=5)], origin="", init=2, label="session-fixed"),
        # the owner refreshes the token between subscriptions: rebinding, in-place mutation, removal
        mk_session(0, [mk_step(), {"edit": "init", "to": 5}, mk_step(), {"edit": "write", "at": 5, "value": {"token": "third"}}, mk_step(),
                       {"edit": "init", "to": None}, mk_step()], init=4, label="session-fixed"),
        mk_session(None, [mk_step(), {"edit": "init", "to": 4}, mk_step(extra=1)], label="session-fixed"),
        # ... and the headers / origin / url
        mk_session(0, [mk_step(extra=1), {"edit": "write", "at": 0, "value": {"Authorization": "Bearer rotated"}}, mk_step(),
                       {"edit": "headers", "to": 3}, mk_step(extra=1), {"edit": "origin", "to": "https://new.test"},
                       {"edit": "url", "to": URL2}, mk_step()], origin="https://origin.test", label="session-fixed"),
    ]


def random_sessions(ctx: Ctx, n: int, label: str = "session") -> List[Dict[str, Any]]:
    rng = ctx.sub_rng(label)
    out = []
    for _ in range(n):
        steps = []
        for _k in range(rng.randint(1, 5)):
            r = rng.random()
            take = rng.choice([0, 1, 1, 2, 3]) if r < 0.25 else None
            refuse = "OSError" if 0.25 <= r < 0.33 else None
            if steps and rng.random() < 0.3:
                steps.append(rng.choice([
                    {"edit": "init", "to": rng.choice([None, 4, 5, 2])},
                    {"edit": "write", "at": rng.choice([4, 5]), "value": {"token": rng.choice(["t2", "t3"]), "n": rng.randint(0, 3)}},
                    {"edit": "write", "at": rng.choice([0, 1, 3]), "value": {"Authorization": "Bearer rotated-%d" % rng.randint(0, 3)}},
                    {"edit": "headers", "to": rng.choice([0, 1, 3, 2])},
                    {"edit": "origin", "to": rng.choice([None, "https://new.test"])},
                    {"edit": "url", "to": rng.choice([URL, URL2])},
                ]))
            steps.append(mk_step(extra=rng.choice([None, None, 0, 1, 1, 2, 3]), frames=rng.choice(SESSION_SCRIPTS),
                                 kwargs=rng.choice(SESSION_KWARGS), vars_i=rng.choice([0, 0, 1, 2, 3, 5, 13]), take=take, refuse=refuse,
                                 op_name=rng.choice(["S", "S", None, ""])))
        out.append(mk_session(rng.choice([None, 0, 0, 2, 3]), steps, origin=rng.choice([None, "", "https://origin.test"]),
                              init=rng.choice([None, None, 4, 2]), label=label))
    return out


def session_line(sess: Dict[str, Any], client: str, tracer: bool, sched: Optional[List[int]] = None) -> Dict[str, Any]:
    steps = []
    for st in sess["steps"]:
        if is_edit(st):
            steps.append({**st, "value": wire.enc(st["value"])} if st["edit"] == "write" else dict(st))
            continue
        steps.append({"query": QUERY, "opName": st["opName"], "extra": st["extra"], "kwargs": wire.enc(st["kwargs"]), "opId": OP_ID,
                      "vars": None if st["vars"] is None else [[k, pv_line(pv)] for k, pv in st["vars"]],
                      "frames": [frame_line(f) for f in st["frames"]], "refuse": st.get("refuse"), "take": st.get("take")})
    line: Dict[str, Any] = {"op": "session" if sched is None else "schedule", "client": client, "tracer": tracer,
                            "store": [wire.enc(d) for d in sess["store"]],
                            "ctor": {"wsUrl": sess["ctor"].get("url", URL), "headers": sess["ctor"]["headers"], "origin": sess["ctor"]["origin"], "init": sess["ctor"]["init"]},
                            "steps": steps}
    if sched is not None:
        line["sched"] = sched
    return line


def decode_session_model(o: Dict[str, Any]) -> Dict[str, Any]:
    obs = []
    for x in o["obs"]:
        if x is None:
            obs.append(None)
            continue
        d = decode_model({"events": x["events"], "outcome": x["outcome"], "letters": [], "trig": {}})
        obs.append({"events": d["events"], "outcome": d["outcome"], "release": x["release"]})
    return {"client": o["client"], "store": [wire.dec(d) for d in o["store"]], "obs": obs}


class RefusingConnection:
    """`ws_connect(...)` returned, `__aenter__` raises: the server is not there"""

    def __init__(self, exc: str) -> None:
        self.exc = exc
        self.entered = 0
        self.exited = 0
        self.last_raw = None

    async def __aenter__(self) -> Any:
        raise {"OSError": OSError}.get(self.exc, RuntimeError)("refused")

    async def __aexit__(self, *exc: Any) -> None:
        self.exited += 1


async def _session_step(cl: Any, st: Dict[str, Any], objs: List[Dict[str, Any]], events: List[Any], conn_box: List[Any]) -> Tuple[Dict[str, Any], str]:
    """one subscription, consumed the way the step says; returns (outcome, release)"""
    exc_mod = clients.exceptions_module()
    variables = None if st["vars"] is None else {k: pv_build(pv) for k, pv in st["vars"]}
    kw = dict(st["kwargs"])
    if st["extra"] is not None:
        kw["extra_headers"] = objs[st["extra"]]  # the caller's object itself
    take = st.get("take")
    agen = cl.execute_ws(query=QUERY, operation_name=st["opName"], variables=variables, **kw)
    outcome: Optional[Dict[str, Any]] = None
    try:
        if take == 0:
            await agen.aclose()
            outcome = {"o": "abandoned"}
        else:
            it = agen.__aiter__()
            n = 0
            while True:
                try:
                    item = await it.__anext__()
                except StopAsyncIteration:
                    break
                events.append(["yield", item])
                n += 1
                if take is not None and n == take:
                    await agen.aclose()
                    outcome = {"o": "abandoned"}
                    break
    except exc_mod.GraphQLClientInvalidMessageFormat as e:
        conn = conn_box[-1] if conn_box else None
        msg = getattr(e, "message", None)
        if conn is not None and conn.last_raw is not None and type(msg) is type(conn.last_raw) and msg == conn.last_raw:
            outcome = {"o": "invalid", "arg": "frame"}
        elif isinstance(msg, str) and msg.startswith("Invalid message received. Expected: "):
            outcome = {"o": "invalid", "arg": "expected", "value": msg[len("Invalid message received. Expected: "):]}
        else:
            outcome = {"o": "invalid", "arg": "other:" + repr(msg)[:80]}
    except exc_mod.GraphQLClientGraphQLMultiError as e:
        outcome = canon_errors(exc_mod, e)
    except Exception as e:  # anything else escaping
        outcome = {"o": "internal", "exc": type(e).__name__, "msg": str(e)[:200]}
    if outcome is None:
        outcome = {"o": "completed"} if events and events[-1] == ["close"] else {"o": "exhausted"}
    # when was the socket released?  (the consumer has control back right now)
    conn = conn_box[-1] if conn_box else None
    if conn is None or conn.entered == 0:
        release = "not-opened"
    elif conn.exited == conn.entered:
        release = "sync"
    else:
        mark = len(events)
        for _ in range(6):  # let the event loop finalise an orphaned inner generator
            await asyncio.sleep(0)
        release = "deferred" if conn.exited == conn.entered else "never"
        if len(events) != mark:
            release += "+events-after-the-consumer-stopped"
    return outcome, release


def observe_session(client: str, tracer: bool, sess: Dict[str, Any], sched: Optional[List[int]] = None) -> Dict[str, Any]:
    """Run the REAL constructor and the REAL execute_ws calls of a session on ONE client object against
    a scripted ws_connect that records (a deep copy of) its arguments.  `sched` = interleave instead:
    the first occurrence of i starts subscription i and pulls until its first item, the second drains it."""
    import copy
    import logging

    mod = _client_module(client)
    objs = [copy.deepcopy(d) for d in sess["store"]]
    before = copy.deepcopy(objs)
    ctor = sess["ctor"]
    cls = mod.AsyncBaseClient if client == "plain" else mod.AsyncBaseClientOpenTelemetry
    ckw: Dict[str, Any] = dict(url="http://verif.test/graphql", http_client=_shared_http(), ws_url=ctor.get("url", URL),
                               ws_headers=None if ctor["headers"] is None else objs[ctor["headers"]], ws_origin=ctor["origin"])
    if ctor["init"] is not None:
        ckw["ws_connection_init_payload"] = objs[ctor["init"]]
    if client == "ot":
        ckw["tracer"] = "verif-c13" if tracer else None
    per_step: List[Tuple[List[Any], List[Any]]] = [([], []) for _ in sess["steps"]]
    current = [0]

    def fake_connect(*args: Any, **kwargs: Any) -> Any:
        i = current[0]
        events, conn_box = per_step[i]
        events.append(["connect", list(args), copy.deepcopy(dict(kwargs))])
        st = sess["steps"][i]
        conn: Any = RefusingConnection(st["refuse"]) if st.get("refuse") else ScriptedConnection([raw_frame(f) for f in st["frames"]], events)
        conn_box.append(conn)
        return conn

    saved = mod.ws_connect
    mod.ws_connect = fake_connect
    otel_log = logging.getLogger("opentelemetry")
    saved_level = otel_log.level
    otel_log.setLevel(logging.CRITICAL)  # "Failed to detach context" when an abandoned span is finalised in another context
    results: List[Any] = [None] * len(sess["steps"])
    try:
        cl = cls(**ckw)
        attrs_before = (cl.ws_headers, cl.ws_origin, cl.ws_connection_init_payload, cl.ws_url)
        fresh = not any(cl.ws_headers is o for o in objs)
        ws_addr = len(objs) if fresh else next(i for i, o in enumerate(objs) if cl.ws_headers is o)
        known = objs + ([cl.ws_headers] if fresh else [])
        known_before = copy.deepcopy(known)
        changed_at: List[Any] = []

        def apply_edit(st: Dict[str, Any]) -> None:
            # what the owner of the client does, to the REAL client object / the REAL dicts
            if st["edit"] == "init":
                cl.ws_connection_init_payload = None if st["to"] is None else known[st["to"]]
            elif st["edit"] == "headers":
                cl.ws_headers = known[st["to"]]
            elif st["edit"] == "origin":
                cl.ws_origin = st["to"]
            elif st["edit"] == "url":
                cl.ws_url = st["to"]
            elif st["edit"] == "write":
                known[st["at"]].clear()
                known[st["at"]].update(copy.deepcopy(st["value"]))

        async def sequential() -> None:
            for i, st in enumerate(sess["steps"]):
                if is_edit(st):
                    apply_edit(st)
                    continue
                current[0] = i
                results[i] = await asyncio.wait_for(_session_step(cl, st, objs, per_step[i][0], per_step[i][1]), CASE_TIMEOUT)
                if not changed_at and not common.same_json(known, config_at(sess, i)["known"], ordered=True):
                    changed_at.append(i)

        async def interleaved() -> None:
            # generators only run while we await them, so `current` says whose socket is being opened
            gens: Dict[int, Any] = {}
            exc_mod = clients.exceptions_module()

            async def pull(i: int, drain: bool) -> None:
                st = sess["steps"][i]
                events, conn_box = per_step[i]
                if i not in gens:
                    variables = None if st["vars"] is None else {k: pv_build(pv) for k, pv in st["vars"]}
                    kw = dict(st["kwargs"])
                    if st["extra"] is not None:
                        kw["extra_headers"] = objs[st["extra"]]
                    gens[i] = cl.execute_ws(query=QUERY, operation_name=st["opName"], variables=variables, **kw).__aiter__()
                current[0] = i
                try:
                    while True:
                        try:
                            item = await gens[i].__anext__()
                        except StopAsyncIteration:
                            results[i] = ({"o": "completed"} if events and events[-1] == ["close"] else {"o": "exhausted"}, "sync")
                            return
                        events.append(["yield", item])
                        if not drain:
                            return
                except exc_mod.GraphQLClientInvalidMessageFormat as e:
                    conn = conn_box[-1] if conn_box else None
                    msg = getattr(e, "message", None)
                    if conn is not None and conn.last_raw is not None and type(msg) is type(conn.last_raw) and msg == conn.last_raw:
                        results[i] = ({"o": "invalid", "arg": "frame"}, "sync")
                    elif isinstance(msg, str) and msg.startswith("Invalid message received. Expected: "):
                        results[i] = ({"o": "invalid", "arg": "expected", "value": msg[len("Invalid message received. Expected: "):]}, "sync")
                    else:
                        results[i] = ({"o": "invalid", "arg": "other:" + repr(msg)[:80]}, "sync")
                except exc_mod.GraphQLClientGraphQLMultiError as e:
                    results[i] = (canon_errors(exc_mod, e), "sync")
                except Exception as e:  # anything else escaping
                    results[i] = ({"o": "internal", "exc": type(e).__name__, "msg": str(e)[:200]}, "sync")

            seen: Dict[int, int] = {}
            for i in sched or []:
                if i >= len(sess["steps"]):
                    continue
                seen[i] = seen.get(i, 0) + 1
                if results[i] is None and seen[i] <= 2:
                    await asyncio.wait_for(pull(i, drain=seen[i] >= 2), CASE_TIMEOUT)
            for i, r in enumerate(results):
                if r is not None and seen.get(i, 0) < 2:
                    results[i] = None  # the model calls a subscription done at its second step
                    r = None
                if r is not None:
                    conn_box = per_step[i][1]
                    opened = bool(conn_box) and conn_box[-1].entered > 0
                    rel = "not-opened" if not opened else ("sync" if conn_box[-1].exited == conn_box[-1].entered else "never")
                    results[i] = (r[0], rel)
            for g in gens.values():  # unfinished ones: close them so that nothing leaks into the next case
                await g.aclose()
            for _ in range(6):
                await asyncio.sleep(0)

        hang = False
        try:
            asyncio.run(sequential() if sched is None else interleaved())
        except asyncio.TimeoutError:
            hang = True
        def addr_of(o: Any) -> Any:
            return None if o is None else next((i for i, k in enumerate(known) if k is o), "not-a-known-object")

        after = {"wsHeaders": addr_of(cl.ws_headers), "url": cl.ws_url, "origin": cl.ws_origin, "init": addr_of(cl.ws_connection_init_payload)}
        store_after = copy.deepcopy(known)
    finally:
        mod.ws_connect = saved
        otel_log.setLevel(saved_level)
    obs: List[Any] = []
    for i, r in enumerate(results):
        if r is None:
            obs.append({"events": [], "outcome": {"o": "hang"}, "release": "never"} if hang and sched is None else None)
            continue
        outcome, release = r
        c = canon_observation(per_step[i][0], outcome, per_step[i][1])
        c["release"] = release
        obs.append(c)
    return {"client": {"wsHeaders": ws_addr, "fresh": fresh, "after": after}, "store": store_after, "obs": obs,
            "store_before": known_before, "changed_at": changed_at[0] if changed_at else None}


def session_case_of_step(sess: Dict[str, Any], i: int) -> Dict[str, Any]:
    """the stand-alone case subscription i MEANS: the configuration the constructor and the owner's edits so far made"""
    st, cur = sess["steps"][i], config_at(sess, i)
    hdrs = cur["known"][cur["headers"]]
    cfg = {"headers": dict(hdrs) if hdrs else None, "origin": cur["origin"],
           "extraHeaders": "<absent>" if st["extra"] is None else dict(cur["known"][st["extra"]]), "kwargs": dict(st["kwargs"]),
           "opName": st["opName"], "init": "<absent>" if cur["init"] is None else cur["known"][cur["init"]]}
    return {"label": "session-step", "cfg": cfg, "vars": st["vars"], "frames": st["frames"], "url": cur["url"]}


def alone_session(sess: Dict[str, Any], i: int) -> Dict[str, Any]:
    """subscription i as the ONLY one, on a fresh client built from the configuration current at that moment"""
    cur = config_at(sess, i)
    return {"kind": "session", "label": "alone", "store": cur["known"],
            "ctor": {"headers": cur["headers"], "origin": cur["origin"], "init": cur["init"], "url": cur["url"]}, "steps": [sess["steps"][i]]}


def obs3(o: Optional[Dict[str, Any]]) -> Any:
    return None if o is None else {"events": o["events"], "outcome": o["outcome"], "release": o["release"]}


def session_oracle(client: str, tracer: bool, sess: Dict[str, Any], got: Dict[str, Any]) -> List[Tuple[str, Optional[str], str]]:
    """'Each socket is opened with the configured headers overridden by that call's extra_headers and nothing else; a call
    does not modify the configured state; calls are independent of history' - stated on the REAL client, without the model."""
    fails: List[Tuple[str, Optional[str], str]] = []
    end = config_at(sess, len(sess["steps"]))  # the constructor's configuration + the owner's edits, nothing else
    if not common.same_json(got["store"], end["known"], ordered=True):
        diff = [i for i, (a, b) in enumerate(zip(got["store"], end["known"])) if not common.same_json(a, b, ordered=True)]
        who = ["the dict behind self.ws_headers" if i == got["client"]["wsHeaders"] else f"caller dict #{i}" for i in diff]
        fails.append(("call-modifies-configured-state", None,
                      f"{', '.join(who)} changed during subscription #{got['changed_at']}: {json.dumps([got['store'][i] for i in diff])[:200]} "
                      f"should be {json.dumps([end['known'][i] for i in diff])[:200]}"))
    want_after = {"wsHeaders": end["headers"], "url": end["url"], "origin": end["origin"], "init": end["init"]}
    if got["client"]["after"] != want_after:
        fails.append(("call-rebinds-client-attributes", None, f"client attributes afterwards {got['client']['after']}, the owner left {want_after}"))
    for i, st in enumerate(sess["steps"]):
        o = got["obs"][i]
        if o is None or is_edit(st):
            continue
        if o["outcome"]["o"] == "hang":
            fails.append(("hang", None, f"subscription #{i}"))
            continue
        if "never" in o["release"] or "events-after" in o["release"]:
            fails.append(("socket-not-released", None, f"subscription #{i}: {o['release']}"))
        case = session_case_of_step(sess, i)
        if st.get("take") == 0:
            if o["events"] or o["outcome"] != {"o": "abandoned"}:
                fails.append(("closed-before-start-but-ran", None, f"subscription #{i}: {json.dumps(o['events'], default=repr)[:200]}"))
            continue
        if "subprotocols" not in st["kwargs"]:
            # the socket: configured headers overridden by THIS call's extra_headers, and nothing else
            conn = [e for e in o["events"] if e[0] == "connect"]
            if len(conn) != 1 or o["events"][0][0] != "connect":
                fails.append(("connect-not-first-or-not-once", None, f"subscription #{i}"))
                continue
            c = conn[0][1]
            hdrs = c["extra_headers"] if c["extra_headers"] != "<absent>" else c["kwargs"].get("additional_headers", "<absent>")
            if hdrs == "<absent>" or dict(hdrs) != expected_headers(case["cfg"]):
                fails.append(("connect-wrong-headers", None, f"subscription #{i} on the same client: socket opened with headers {json.dumps(hdrs)[:200]}, "
                                                             f"expected {json.dumps(expected_headers(case['cfg']))[:200]}"))
            if c["url"] != case["url"] or c["subprotocols"] != [SUBPROTOCOL] or c["origin"] != expected_origin(case["cfg"]):
                fails.append(("connect-wrong-url-subprotocol-or-origin", None, f"subscription #{i}: {json.dumps(c, default=repr)[:200]}"))
        if st.get("refuse"):
            if [e[0] for e in o["events"]] != ["connect"] or o["outcome"] != {"o": "internal", "exc": st["refuse"]} or o["release"] != "not-opened":
                if "subprotocols" not in st["kwargs"]:
                    fails.append(("refused-connection-mishandled", None, f"subscription #{i}: {json.dumps(obs3(o), default=repr)[:300]}"))
            continue
        if st.get("take") is None:
            # a whole subscription: every clause of the protocol oracle, against the contents the caller configured
            for sig, trigger, detail in oracle(case, {k: v for k, v in o.items() if k != "release"}):
                fails.append((sig, trigger, f"subscription #{i}: {detail}"))
        elif o["outcome"] == {"o": "abandoned"}:
            ys = [e for e in o["events"] if e[0] == "yield"]
            if len(ys) != st["take"] or o["events"][-1][0] != "yield":
                fails.append(("abandoned-iterator-ran-on", None, f"subscription #{i}: {len(ys)} items for take={st['take']}, last event {o['events'][-1][0]}"))
    # independence of history: each subscription shows what it shows ALONE on a fresh client built from the same dicts
    if len(sess["steps"]) > 1:
        for i in range(len(sess["steps"])):
            if got["obs"][i] is None or is_edit(sess["steps"][i]):
                continue
            alone = observe_session(client, tracer, alone_session(sess, i))["obs"][0]
            if not common.same_json(obs3(got["obs"][i]), obs3(alone)):
                fails.append(("subscription-depends-on-history", None,
                              f"entry #{i} of the session (a subscription after earlier subscriptions / edits of the owner): {json.dumps(obs3(got['obs'][i]), default=repr)[:300]} "
                              f"alone: {json.dumps(obs3(alone), default=repr)[:300]}"))
    return fails


def shrink_session(client: str, tracer: bool, sess: Dict[str, Any], sig: str) -> Dict[str, Any]:
    """drop steps / simplify steps while the same failure signature persists (structural, bounded)"""
    def still(s2: Dict[str, Any]) -> bool:
        try:
            return any(f[0] == sig for f in session_oracle(client, tracer, s2, observe_session(client, tracer, s2)))
        except Exception:
            return False

    cur = sess
    changed = True
    while changed and len(cur["steps"]) > 1:
        changed = False
        for i in range(len(cur["steps"])):
            cand = {**cur, "steps": cur["steps"][:i] + cur["steps"][i + 1:]}
            if cand["steps"] and still(cand):
                cur, changed = cand, True
                break
    for i in range(len(cur["steps"])):
        if is_edit(cur["steps"][i]):
            continue
        simple = {**cur["steps"][i], "frames": list(SESSION_SCRIPTS[0]), "vars": None, "kwargs": {}, "take": None, "refuse": None}
        cand = {**cur, "steps": cur["steps"][:i] + [simple] + cur["steps"][i + 1:]}
        if still(cand):
            cur = cand
    return cur


def judge_sessions(ctx: Ctx, st: Optional[LeanStatus], sessions: List[Dict[str, Any]], res: Result, compare: bool = True) -> None:
    model_out: Optional[List[Any]] = None
    scheds: List[Optional[List[int]]] = []
    rng = ctx.sub_rng("schedules")
    for si, sess in enumerate(sessions):
        # every third session is also run interleaved (no abandoned steps there: `take` is a sequential notion)
        if si % 3 == 0 and all(not is_edit(s) and s.get("take") is None for s in sess["steps"]):
            order = [i for i in range(len(sess["steps"])) for _ in range(2)]
            rng.shuffle(order)
            scheds.append(order[: rng.randint(len(order) // 2, len(order))] if rng.random() < 0.3 else order)
        else:
            scheds.append(None)
    if compare and st is not None and st.driver_ok:
        lines: List[Dict[str, Any]] = []
        for sess, sched in zip(sessions, scheds):
            for client, tracer in VARIANTS:
                lines.append(session_line(sess, client, tracer))
                if sched is not None:
                    lines.append(session_line(sess, client, tracer, sched))
        model_out = common.run_driver(ctx.prop, lines)
    mi = 0
    kept: Dict[str, int] = {}
    for sess, sched in zip(sessions, scheds):
        res.seen(["session", sess["store"], sess["ctor"], sess["steps"]], nontrivial=len(sess["steps"]) > 1)
        res.count("session:steps:%d" % len(sess["steps"]))
        for s_ in sess["steps"]:
            if is_edit(s_):
                res.count("session:edit:" + s_["edit"])
                continue
            res.count("session:step:" + ("refused" if s_.get("refuse") else "abandoned" if s_.get("take") is not None else "whole")
                      + (":extra_headers" if s_["extra"] is not None else ""))
        for client, tracer in VARIANTS:
            inp = {**sess, "client": client, "tracer": tracer}
            try:
                got = observe_session(client, tracer, sess)
                fails = session_oracle(client, tracer, sess, got)
            except (AttributeError, ImportError, TypeError) as e:
                add_mismatch(res, Mismatch("session", inp, f"observer: {e!r}", None))
                mi += 1 if sched is None else 2
                continue
            shrunk: Dict[str, Dict[str, Any]] = {}
            for sig, trigger, detail in fails:
                key = f"{trigger}|{sig}"
                kept[key] = kept.get(key, 0) + 1
                res.count("oracle-failure:" + key)
                if kept[key] <= MAX_KEPT_PER_KEY:
                    small = inp
                    if trigger is None and kept[key] <= 2:
                        if sig not in shrunk:
                            shrunk[sig] = shrink_session(client, tracer, sess, sig)
                        small = {**shrunk[sig], "client": client, "tracer": tracer}
                    res.failures.append(Failure(sig, trigger, small, f"{client}{'+tracer' if tracer else ''}: {detail}"))
            for o in got["obs"]:
                if o is not None:
                    res.count("session:release:" + o["release"])
            if model_out is not None:
                m = model_out[mi]
                mi += 1
                if "ill_formed" in m:
                    add_mismatch(res, Mismatch("session", inp, "runs", m))
                else:
                    dm = decode_session_model(m)
                    have = {"client": got["client"], "store": got["store"],
                            "obs": [obs3(o) for o, s_ in zip(got["obs"], sess["steps"]) if not is_edit(s_)]}
                    want = {"client": dm["client"], "store": dm["store"], "obs": dm["obs"]}
                    if not common.same_json(have, want):
                        regions = [k for i in range(len(sess["steps"])) if not is_edit(sess["steps"][i])
                                   for k, v in triggers(session_case_of_step(sess, i)).items() if v and k != "extraHeadersKwarg"]
                        add_mismatch(res, Mismatch("session", inp, have, want, trigger=regions[0] if regions and all(t is not None for _, t, _ in fails) else None))
            if sched is not None:
                try:
                    got2 = observe_session(client, tracer, sess, sched)
                except (AttributeError, ImportError, TypeError) as e:
                    add_mismatch(res, Mismatch("schedule", {**inp, "sched": sched}, f"observer: {e!r}", None))
                    mi += 1
                    continue
                res.count("session:interleaved")
                # oracle: interleaving changes nothing - finished subscriptions show what they show alone, no dict is touched
                if not common.same_json(got2["store"], got2["store_before"], ordered=True):
                    res.failures.append(Failure("call-modifies-configured-state", None, {**inp, "sched": sched}, "interleaved subscriptions"))
                for i, o in enumerate(got2["obs"]):
                    if o is not None and not common.same_json(obs3(o), obs3(observe_session(client, tracer, alone_session(sess, i))["obs"][0])):
                        res.failures.append(Failure("subscription-depends-on-history", None, {**inp, "sched": sched},
                                                    f"{client}: interleaved subscription #{i} differs from the stand-alone one"))
                if model_out is not None:
                    m = model_out[mi]
                    mi += 1
                    if "ill_formed" in m:
                        add_mismatch(res, Mismatch("schedule", {**inp, "sched": sched}, "runs", m))
                    else:
                        dm = decode_session_model(m)
                        have = {"store": got2["store"], "obs": [obs3(o) for o in got2["obs"]]}
                        want = {"store": dm["store"], "obs": dm["obs"]}
                        if not common.same_json(have, want):
                            add_mismatch(res, Mismatch("schedule", {**inp, "sched": sched}, have, want))


def run_sessions(ctx: Ctx, st: Optional[LeanStatus], res: Result, n_random: int, compare: bool = True) -> None:
    sessions = fixed_sessions() + random_sessions(ctx, n_random)
    judge_sessions(ctx, st, sessions, res, compare)
    ctx.log(f"sessions: {len(sessions)} sequences of subscriptions on one client object x {len(VARIANTS)} variants")


# --------------------------------------------------------------------------------------------
# entry points
# --------------------------------------------------------------------------------------------

WS_METHODS = ["_send_connection_init", "_send_subscribe", "_handle_ws_message", "_convert_dict_to_json_serializable", "_convert_value"]


def fingerprint_items() -> List[Tuple[str, Optional[str]]]:
    a, o = clients.REL["async"], clients.REL["asyncOT"]
    items: List[Tuple[str, Optional[str]]] = [(a, "AsyncBaseClient.execute_ws"), (a, "AsyncBaseClient.__init__"), (a, "GraphQLTransportWSMessageType")]
    items += [(a, f"AsyncBaseClient.{m}") for m in WS_METHODS]
    items += [(o, "AsyncBaseClientOpenTelemetry.execute_ws"), (o, "AsyncBaseClientOpenTelemetry._execute_ws"),
              (o, "AsyncBaseClientOpenTelemetry.__init__"), (o, "GraphQLTransportWSMessageType"),
              (o, "AsyncBaseClientOpenTelemetry._execute_ws_with_telemetry"),
              (o, "AsyncBaseClientOpenTelemetry._send_connection_init_with_telemetry"),
              (o, "AsyncBaseClientOpenTelemetry._send_subscribe_with_telemetry"),
              (o, "AsyncBaseClientOpenTelemetry._handle_ws_message_with_telemetry")]
    items += [(o, f"AsyncBaseClientOpenTelemetry.{m}") for m in WS_METHODS]
    gen_rel = "ariadne_codegen/client_generators/client.py"
    items += [(gen_rel, f"ClientGenerator.{m}") for m in ("add_method", "get_variable_names", "_generate_subscription_method_def",
                                                           "_generate_operation_str_assign", "_generate_variables_assign",
                                                           "_generate_async_generator_loop", "_generate_yield_parsed_obj")]
    items += [(clients.EXC_REL, "GraphQLClientInvalidMessageFormat"), (clients.EXC_REL, "GraphQLClientGraphQLMultiError.from_errors_dicts"),
              (clients.EXC_REL, "GraphQLClientGraphQLError.from_dict")]
    return items


def twin_divergence() -> Dict[str, str]:
    """same-named ws helpers of the plain and the OT client: textually identical (modulo async/await)?"""
    out: Dict[str, str] = {}
    for m in WS_METHODS:
        a, o = clients.method_norm("async", m), clients.method_norm("asyncOT", m)
        if a is None or o is None:
            out[m] = "missing in " + ("plain" if a is None else "OT")
        elif a != o:
            out[m] = "differs"
    a, o = clients.method_norm("async", "execute_ws"), clients.method_norm("asyncOT", "_execute_ws")
    if a is None or o is None or a.replace("name='execute_ws'", "name='_execute_ws'") != o:
        out["execute_ws/_execute_ws"] = "differs" if a and o else "missing"
    return out


def corpus_files() -> List[Any]:
    d = common.CORPUS / PROP
    return sorted(d.glob("*.json")) if d.exists() else []


def replay_corpus(ctx: Ctx, st: Optional[LeanStatus], res: Result) -> None:
    findings = {f["id"]: f for f in common.load_findings(PROP)}
    for path in corpus_files():
        payload = json.loads(path.read_text())
        fid = payload.get("finding")
        inp = payload["input"]
        if inp.get("kind") == "loopback":
            continue  # the loopback witness (C13-F1) is replayed by run_loopback
        case = {"label": "corpus", "cfg": inp["cfg"], "vars": inp["vars"], "frames": inp["frames"]}
        for f in case["frames"]:
            check_frame_spec(f)
        sub = Result()
        judge_cases(ctx, st, [case], sub)
        want_sig = payload.get("signature")
        hit = [f for f in sub.failures if f.signature == want_sig]
        if fid:
            status = findings.get(fid, {}).get("status", "open")
            res.witness_status[fid] = "reproduces" if hit else "gone"
            if status == "fixed":
                for f in sub.failures:
                    f.trigger = None  # a fixed finding suppresses nothing
        res.merge(sub)


def run(ctx: Ctx, st: Optional[LeanStatus]) -> Result:
    res = Result()
    fp = common.fingerprints(ctx, fingerprint_items())
    res.extra["fingerprints"] = fp
    div = twin_divergence()
    res.extra["plain_vs_ot_textual_divergence"] = div
    if div:
        ctx.boost = True
        ctx.log(f"ws helpers are no longer textually identical in the plain and the OT client: {div}")
    for f in VARIANT_LETTERS:
        check_frame_spec(f)
    replay_corpus(ctx, st, res)
    ctx.log("corpus replayed")
    run_loopback(ctx, st, res)
    validate_connect_spec(ctx, st, res)
    ctx.log("loopback done")
    run_generated(ctx, st, res, ctx.budget(14, 90))
    run_sessions(ctx, st, res, ctx.budget(150, 1500))
    todo = product_cases()
    ex = exhaustive_cases(ctx)
    todo += ex
    todo += random_cases(ctx, ctx.budget(2000, 12000))
    judge_parallel(ctx, st, todo, res)
    res.exhaustive = True
    res.rule = (
        "every frame sequence over the %s up to length %d, alone and behind a connection_ack, each paired with a rotating "
        "configuration / init payload / variables choice; a {init} x {variables} x {configuration} product on 5 fixed scripts; seeded random "
        "sequences of length 4..12 over %d frame variants; every case on the plain client, the OT client without and with a tracer. "
        "Plus REAL generated packages (2 fixed with the shadowing variable names, 1 with a datetime custom scalar + seeded random ones: "
        "variables named query/variables/response/data, underscored and plain names, snake-casing on/off, plain and OT base client), every "
        "generated subscription method driven with all / only required / mixed arguments on two scripts. "
        "Plus SESSIONS: 7 fixed + seeded random sequences of 1..5 execute_ws calls on ONE real client object per variant (constructor dict "
        "None / empty / non-empty, per-call extra_headers absent / own dict / dict shared between calls / the constructor's dict itself, "
        "whole, failing, refused and abandoned (aclose after 0..3 items) subscriptions, and the OWNER'S edits in between: ws_connection_init_payload / "
        "ws_headers / ws_origin / ws_url rebound, the referenced dicts mutated in place), a third of the edit-free ones also interleaved under a seeded "
        "schedule; a session is non-trivial when it has more than one subscription. "
        "A case is non-trivial when the handshake completes and at least one frame reaches the streaming loop; distinct = distinct "
        "(configuration, variables, frame list)."
        % ((("10-letter alphabet (length 5) and the 18-letter variant alphabet (length 3)", 5) if ctx.thorough
            else ("18-letter alphabet (10 letters + falsy-data/2-error/bad-bytes/empty-payload-error/missing-payload-error variants)", 3)) + (len(VARIANT_LETTERS),))
    )
    res.extra["exhaustive_sequences"] = len(ex)
    res.oracle_only += [
        "sessions: 'each subscription equals the one run alone on a fresh client built from the same dicts' is judged by running the REAL client alone (no model involved); the moment an abandoned socket is released (sync / deferred to the event loop's async-generator finaliser) is compared with the model and not judged",
        "generated method: that payload.query PARSES to the authored operation + its fragments, and that each yielded item equals Ret.model_validate(data) (pydantic, C01) are oracle-only; the model takes the emitted operation string, parameter list and variables dict (ArgumentsGenerator, C03) as inputs and decides which names/values reach execute_ws",
        "the real handshake (websockets.connect against an in-process websockets.serve on 127.0.0.1): oracle only; the model's connect is abstract",
        "pydantic's model_dump(by_alias=True, exclude_unset=True) is an input of the model (PV.model carries the dump); the oracle states the expected dump from the field/alias table",
        "OpenTelemetry spans (names, attributes) are not part of the compared trace",
    ]
    res.assumptions += [
        "a scripted ws_connect stands for websockets.connect: it records a deep copy of its keyword arguments at call time; `refuse` = its __aenter__ raises OSError",
        "CPython reference counting + asyncio's async-generator hooks finalise an orphaned inner generator within a few loop iterations (the harness yields to the loop 6 times before calling a socket unreleased)",
        "scripted connection = websockets.asyncio ClientConnection as far as the client can tell: recv() delivers frames in order, recv()/send() after close or after the script ran out raise ConnectionClosedOK (server closed with 1000), __aiter__ ends on ConnectionClosedOK; validated by the loopback-shim runs against the real library (frames buffered by the real library before a client-side close may still be delivered there; no script sends frames after a terminal one on the real socket)",
        "uuid4() is a parameter of the model; the harness checks the id is a uuid4 string and unique per run, then replaces it by a placeholder",
        "json.loads(frame) raises JSONDecodeError on text frames that are not JSON and UnicodeDecodeError on binary frames that are not UTF-8 (checked per frame spec by the harness)",
    ]
    res.extra["outside_alphabet_observations"] = (
        "compared with the model, not judged (DESIGN.md §3.0): JSON frame that is not an object -> AttributeError; next with payload null/number/bool -> "
        "TypeError, payload str/list -> substring/element test; error payload not a list of error objects -> TypeError/KeyError or an empty multi-error; "
        "type a non-empty list/object -> TypeError (unhashable); variables with UNSET below the top level or a model inside a plain dict -> TypeError from "
        "json.dumps (execute_ws does not pass default=to_jsonable_python, unlike execute)"
    )
    return res


def search(ctx: Ctx) -> Result:
    """After a broken proof / correspondence: judge the real code alone with the thorough budget."""
    res = Result()
    todo = product_cases() + random_cases(ctx, 20000, label="search")
    seqs = [list(s) for L in range(0, 4) for s in itertools.product(BASE16, repeat=L)]
    n = 0
    for s in seqs:
        for lead in ([], [ACK]):
            n += 1
            todo.append(make_case(lead + s, n, n // 5, n // 3, label="search"))
    judge_parallel(ctx, None, todo, res, compare=False)
    run_generated(ctx, None, res, 60, compare=False)
    run_sessions(ctx, None, res, 1500, compare=False)
    return res


def replay(ctx: Ctx, payload: Dict[str, Any]) -> int:
    inp = payload.get("input")
    if not inp:
        print(json.dumps(payload, indent=1)[:3000])
        return 1
    rc = 0
    variants = [(inp["client"], inp["tracer"])] if "client" in inp else VARIANTS
    if inp.get("kind") == "generated":
        sub = Result()
        case = {k: v for k, v in inp.items() if not k.startswith("only_")}
        if "only_op" in inp:
            case["operations"] = [o for o in case["operations"] if o["name"] == inp["only_op"]] or case["operations"]
        judge_generated(ctx, None, [case], sub, compare=False)
        for f in sub.failures:
            print(f.signature, "-", f.detail[:400])
        print("->", sorted({f.signature for f in sub.failures}) or "ok")
        return 1 if sub.failures else 0
    if inp.get("kind") == "session":
        sess = {k: v for k, v in inp.items() if k not in ("client", "tracer", "sched")}
        for client, tracer in variants:
            got = observe_session(client, tracer, sess)
            fails = session_oracle(client, tracer, sess, got)
            for i, o in enumerate(got["obs"]):
                if is_edit(sess["steps"][i]):
                    print(f"{client} {'tracer' if tracer else '-'} entry #{i}: the owner edits the client: {json.dumps(sess['steps'][i])[:200]}")
                    continue
                conn = [e[1] for e in (o or {}).get("events", []) if e[0] == "connect"]
                init = [e[1] for e in (o or {}).get("events", []) if e[0] == "send"][:1]
                print(f"{client} {'tracer' if tracer else '-'} entry #{i}: first message sent {json.dumps(init)[:160]}")
                print(f"{client} {'tracer' if tracer else '-'} subscription #{i}: extra_headers={json.dumps(sess['steps'][i]['extra'])} -> socket headers "
                      f"{json.dumps(conn[0]['extra_headers']) if conn else None} outcome {json.dumps((o or {}).get('outcome'), default=repr)[:120]}")
            print(f"{client} {'tracer' if tracer else '-'} caller dicts afterwards: {json.dumps(got['store'])[:300]}")
            for f in fails:
                print("  FAIL", f[0], "-", f[2][:400])
            print("->", sorted({f[0] for f in fails}) or "ok")
            rc = rc or (1 if fails else 0)
        return rc
    if inp.get("kind", "").startswith("loopback"):
        for client, tracer in variants:
            got = loopback(client, tracer, inp, shim=inp["kind"] == "loopback-shim")
            fails = loopback_oracle(inp, got) + loopback_protocol_oracle(inp, got)
            print(client, tracer, json.dumps(got, default=repr)[:600], "->", [f[0] for f in fails] or "ok")
            rc = rc or (1 if fails else 0)
        return rc
    case = {"label": "replay", "cfg": inp["cfg"], "vars": inp["vars"], "frames": inp["frames"]}
    for client, tracer in variants:
        obs = observe(client, tracer, case)
        fails = oracle(case, obs)
        print(client, "tracer" if tracer else "-", json.dumps(strip_obs(obs), default=repr)[:800], "->", [f[0] for f in fails] or "ok")
        rc = rc or (1 if fails else 0)
    return rc
