"""The four bundled base clients of the working tree under test (shared by C11, C12, C13)."""
from __future__ import annotations

import ast
import asyncio
import importlib
from typing import Any, Callable, Dict, List, Optional, Tuple

import httpx

from . import common

DEP = "ariadne_codegen.client_generators.dependencies"
CLIENTS: List[Tuple[str, str, str, bool]] = [
    # kind, module, class, is_async
    ("sync", f"{DEP}.base_client", "BaseClient", False),
    ("async", f"{DEP}.async_base_client", "AsyncBaseClient", True),
    ("syncOT", f"{DEP}.base_client_open_telemetry", "BaseClientOpenTelemetry", False),
    ("asyncOT", f"{DEP}.async_base_client_open_telemetry", "AsyncBaseClientOpenTelemetry", True),
]
REL = {
    "sync": "ariadne_codegen/client_generators/dependencies/base_client.py",
    "async": "ariadne_codegen/client_generators/dependencies/async_base_client.py",
    "syncOT": "ariadne_codegen/client_generators/dependencies/base_client_open_telemetry.py",
    "asyncOT": "ariadne_codegen/client_generators/dependencies/async_base_client_open_telemetry.py",
}
EXC_REL = "ariadne_codegen/client_generators/dependencies/exceptions.py"


def load(kind: str) -> type:
    for k, mod, cls, _ in CLIENTS:
        if k == kind:
            return getattr(importlib.import_module(mod), cls)
    raise KeyError(kind)


def exceptions_module() -> Any:
    return importlib.import_module(f"{DEP}.exceptions")


def base_model_module() -> Any:
    return importlib.import_module(f"{DEP}.base_model")


def is_async(kind: str) -> bool:
    return kind.startswith("async")


def make(kind: str, handler: Callable[[httpx.Request], httpx.Response], url: str = "http://verif.test/graphql",
         headers: Optional[Dict[str, str]] = None, tracer: Optional[str] = None) -> Any:
    """Instantiate a real base client whose transport is an in-process httpx.MockTransport."""
    cls = load(kind)
    transport = httpx.MockTransport(handler)
    http = httpx.AsyncClient(transport=transport, headers=headers) if is_async(kind) else httpx.Client(transport=transport, headers=headers)
    kwargs: Dict[str, Any] = dict(url=url, headers=headers, http_client=http)
    if kind.endswith("OT"):
        kwargs["tracer"] = tracer
    return cls(**kwargs)


def run(coro: Any) -> Any:
    return asyncio.run(coro)


class _Norm(ast.NodeTransformer):
    """strip async/await and the class-name differences so the twins can be compared textually"""

    def visit_AsyncFunctionDef(self, node: ast.AsyncFunctionDef) -> Any:
        self.generic_visit(node)
        return ast.FunctionDef(name=node.name, args=node.args, body=node.body, decorator_list=node.decorator_list,
                               returns=node.returns, type_comment=None, type_params=[])

    def visit_Await(self, node: ast.Await) -> Any:
        self.generic_visit(node)
        return node.value

    def visit_Constant(self, node: ast.Constant) -> Any:
        return node


def method_norm(kind: str, name: str) -> Optional[str]:
    """normalised source of one method of a base client (None if it does not exist)"""
    try:
        tree = ast.parse((common.REPO / REL[kind]).read_text())
    except (OSError, SyntaxError):
        return None
    for node in ast.walk(tree):
        if isinstance(node, ast.ClassDef):
            for item in node.body:
                if isinstance(item, (ast.FunctionDef, ast.AsyncFunctionDef)) and item.name == name:
                    n = _Norm().visit(item)
                    ast.fix_missing_locations(n)
                    # drop return annotations that mention the class itself
                    return ast.dump(n, include_attributes=False)
    return None


def four_way(names: List[str]) -> Dict[str, List[str]]:
    """which of the shared methods are NOT textually identical (modulo async/await) across the twins"""
    diverging: Dict[str, List[str]] = {}
    for name in names:
        texts = {k: method_norm(k, name) for k in REL}
        present = {k: v for k, v in texts.items() if v is not None}
        groups: Dict[str, List[str]] = {}
        for k, v in present.items():
            groups.setdefault(v, []).append(k)
        if len(groups) > 1 or len(present) < len(texts):
            diverging[name] = [",".join(v) for v in groups.values()] + [f"missing:{k}" for k in texts if texts[k] is None]
    return diverging
