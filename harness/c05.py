"""C05 — result models are as strict as the schema.

Tie: same class-IR correspondence as C01 (rt_common) + pydantic reference semantics (lean Spec/Pyd.lean,
lax table with pydantic-core's string parsers supplied as tables computed by the real library) vs the
REAL pydantic on the REAL generated classes over single-point corruptions of conformant responses.
Oracle (independent of the model): the expectation for each corruption is computed from the user's
schema and the sent document with graphql-core's own collect_fields / type utilities:
  null at a non-null unconditional position, a missing unconditional key, a value of another JSON kind
  outside the lax table, a __typename that is not a possible type  ==> must be rejected.
Known finding C05-F1 = the lax-table cells (recorded per (scalar, replacement kind) cell).

Input streams (every one goes through BOTH the class-IR correspondence and the corruption oracle):
  * grown documents with the default feature set (rt_common.draw_cases);
  * grown documents with `repeat_field` / `reuse_fragment` (gen/ops_gen.py): the same schema field selected twice under
    different response keys in one selection set, and fragment definitions shared by several spreads / positions /
    operations -- the only inputs on which state kept between two uses of one fragment, or a table keyed by the schema
    field name instead of the response key, can show;
  * hand-written SHAPES (below) of the same two families plus nested fragments, with many executor seeds per operation
    and (nearly) exhaustive corruptions.
Directed search: every case on which the class-IR correspondence broke in `run` is re-examined first by `search`
with many executor seeds and the full corruption set, before the random search.
"""
from __future__ import annotations

import copy
import json
import random
from pathlib import Path
from typing import Any, Dict, List, Optional, Tuple

from . import common, e2e, engine, rt_common, wire
from .common import Ctx, Failure, LeanStatus, Mismatch, Result

PROP = "C05"
SHARED_FEATURES: Dict[str, float] = {"repeat_field": 0.3, "reuse_fragment": 0.5}

SHAPE_SDL = ("type Query { me: User node: Node reviewer: Actor author: Actor actors: [Actor!]! user(id: ID): User search: SearchResult }\n"
             "interface Node { id: ID! }\ninterface Actor { id: ID! login: String! }\n"
             "type User implements Node & Actor { id: ID! login: String! name: String! email: String age: Int tags: [String!]! "
             "friends: [User!]! boss: Actor }\n"
             "type Bot implements Node & Actor { id: ID! login: String! version: Int! owner: User! }\n"
             "type Post implements Node { id: ID! title: String! author: Actor! reviewers: [Actor!]! }\n"
             "union SearchResult = User | Bot | Post\n")
_ACTOR_PARTS = "fragment ActorParts on Actor { id login ... on User { name } ... on Bot { version } }"
SHAPES: Dict[str, str] = {
    # one fragment (on an interface, with inline fragments on the implementations) spread at several interface positions
    "shared-interface-fragment-two-fields": "query Q { reviewer { ...ActorParts } author { ...ActorParts } }\n" + _ACTOR_PARTS,
    "shared-interface-fragment-two-operations": "query A { reviewer { ...ActorParts } }\nquery B { author { ...ActorParts } }\n" + _ACTOR_PARTS,
    "shared-interface-fragment-list-and-nested": ("query Q { actors { ...ActorParts } me { boss { ...ActorParts } } "
                                                  "node { id ... on Post { author { ...ActorParts } reviewers { ...ActorParts } } } }\n" + _ACTOR_PARTS),
    # the same schema field under two response keys in one selection set
    "same-field-two-keys-composite": ("query Q($a: ID, $b: ID) { first: user(id: $a) { id name tags } "
                                      "second: user(id: $b) { id name tags email } }"),
    "same-field-two-keys-leaf-and-inline": ("query Q { me { id ident: id name ... on User { nick: name } friends { login handle: login } "
                                            "pals: friends { id } } }"),
    "same-field-two-keys-in-fragments": ("query Q { me { ...U } node { ...N } }\n"
                                         "fragment U on User { name fullName: name friends { id } pals: friends { login } }\n"
                                         "fragment N on Node { id nodeId: id ... on Post { title heading: title } }"),
    # `__typename` under another response key at OBJECT positions (the class gets Literal["<Type>"] whatever the key)
    "aliased-typename-at-object-positions": ("query Q { me { kind: __typename id friends { tn: __typename login } boss { id } } "
                                             "user { __typename name } }"),
    # @skip / @include with LITERAL conditions (the field stays conditional: Optional with default None)
    "literal-conditions": ("query Q { me { id name @include(if: true) email @skip(if: false) tags @include(if: false) "
                           "friends @skip(if: false) { login @include(if: true) } } }"),
    # a fragment spread below an inline fragment of an unpacked fragment
    "mixin-below-unpacked-fragment": ("query Q { node { ...NodeParts } }\nfragment NodeParts on Node { id ... on User { ...UserFields } }\n"
                                      "fragment UserFields on User { name email age }"),
}


def shape_cases(ctx: Ctx, calls: int = 6, limit: int = 90) -> List[Dict[str, Any]]:
    import re

    out: List[Dict[str, Any]] = []
    digit = int(str(ctx.seed)[-1:]) if str(ctx.seed)[-1:].isdigit() else 0
    for i, (name, q) in enumerate(sorted(SHAPES.items())):
        ops = re.findall(r"\b(?:query|mutation)\s+(\w+)", q)
        snake = (i + digit) % 2 == 0
        out.append({"seed": f"{ctx.seed}:c05shape:{name}", "sdl": SHAPE_SDL, "queries": q + "\n", "config": {"convert_to_snake_case": snake},
                    "calls": [{"op": o, "seed": f"{ctx.seed}:c05shape:{name}:{o}:{k}", "vars": {}} for o in ops for k in range(calls)],
                    "snake": snake, "features": {}, "scalar_str": [], "scalars": [], "shape": name, "limit": limit, "null_p": 0.1})
    return out


# cases on which the class-IR correspondence broke in this run: the directed search starts from them
_TIE_CASES: List[Dict[str, Any]] = []


def note_tie(cases: List[Dict[str, Any]], res: Result, start: int) -> None:
    by = {(c["sdl"], c["queries"]): c for c in cases}
    for m in res.mismatches[start:]:
        if m.observation == "resultTypes" and isinstance(m.input, dict):
            c = by.get((m.input.get("sdl"), m.input.get("queries")))
            if c is not None and not any(c is x for x in _TIE_CASES):
                _TIE_CASES.append(c)


def class_ir(ctx: Ctx, cases: List[Dict[str, Any]], res: Result, region: str) -> None:
    start = len(res.mismatches)
    rt_common.class_ir_correspondence(ctx, cases, res, region)
    note_tie(cases, res, start)


REPLACEMENTS: List[Any] = [True, 1, 7, 1.5, "5", "abc", "true", [], [1], {}, {"a": 1}]


def jkind(v: Any) -> str:
    if v is None:
        return "null"
    if isinstance(v, bool):
        return "bool"
    if isinstance(v, (int, float)):
        return "number"
    if isinstance(v, str):
        return "string"
    if isinstance(v, list):
        return "array"
    return "object"


def enumerate_points(data: Any, path: Tuple[Any, ...] = ()) -> List[Tuple[Tuple[Any, ...], Any]]:
    out = [(path, data)] if path else []
    if isinstance(data, dict):
        for k, v in data.items():
            out += enumerate_points(v, path + (k,))
    elif isinstance(data, list):
        for i, v in enumerate(data):
            out += enumerate_points(v, path + (i,))
    return out


def apply(data: Any, path: Tuple[Any, ...], action: str, value: Any = None) -> Any:
    d = copy.deepcopy(data)
    cur = d
    for p in path[:-1]:
        cur = cur[p]
    if action == "delete":
        del cur[path[-1]]
    else:
        cur[path[-1]] = value
    return d


def typename_keys(query: str) -> set:
    """response keys under which `__typename` is selected anywhere in the document (`kind: __typename` -> `kind`)"""
    from graphql import parse
    from graphql.language import FieldNode, visit, Visitor

    keys = {"__typename"}

    class V(Visitor):
        def enter_field(self, node: Any, *_: Any) -> None:
            if node.name.value == "__typename" and node.alias:
                keys.add(node.alias.value)

    try:
        visit(parse(query), V())
    except Exception:
        pass
    return keys


def corruptions(data: Any, rng: random.Random, limit: int, tn_keys: Any = ("__typename",)) -> List[Dict[str, Any]]:
    out: List[Dict[str, Any]] = []
    for path, v in enumerate_points(data):
        if v is not None:
            out.append({"path": list(path), "action": "null"})
        if isinstance(path[-1], str):
            out.append({"path": list(path), "action": "delete"})
        if path[-1] in tn_keys and isinstance(v, str):
            out.append({"path": list(path), "action": "replace", "value": "NoSuchType"})
        else:
            for r in REPLACEMENTS:
                if jkind(r) != jkind(v) and v is not None:
                    out.append({"path": list(path), "action": "replace", "value": r})
    rng.shuffle(out)
    # keep every kind of corruption represented (typename replacements are few: all of them are kept)
    picked: List[Dict[str, Any]] = [c for c in out if c.get("value") == "NoSuchType"][:8]
    for act in ("null", "delete", "replace"):
        picked += [c for c in out if c["action"] == act and c.get("value") != "NoSuchType"][: max(2, limit // 3)]
    return picked[: limit + 8]


def declared_map(value: Any) -> List[Dict[str, Any]]:
    """the DECLARED type of every field of the real model classes, along the validated instance: response path ->
    is the annotation Optional[...], has the field the default None"""
    import typing

    from pydantic import BaseModel

    out: List[Dict[str, Any]] = []

    def is_optional(ann: Any) -> bool:
        return typing.get_origin(ann) is typing.Union and type(None) in typing.get_args(ann)

    def walk(inst: Any, path: List[Any]) -> None:
        if isinstance(inst, BaseModel):
            for name, f in type(inst).model_fields.items():
                key = f.alias or name
                if name not in inst.model_fields_set:
                    continue
                out.append({"path": path + [key], "optional": is_optional(f.annotation),
                            "default_none": (not f.is_required()) and f.default is None, "cls": type(inst).__name__, "py": name})
                walk(getattr(inst, name), path + [key])
        elif isinstance(inst, list):
            for i, x in enumerate(inst):
                walk(x, path + [i])

    walk(value, [])
    return out


@engine.with_scratch
def run_corruptions(root: Path, case: Dict[str, Any]) -> Dict[str, Any]:
    """child side: real generation, real import, one real call per operation, then single-point
    corruptions of the executor's response through the REAL generated model class"""
    import httpx
    from graphql import build_schema, graphql_sync
    from pydantic import BaseModel, ValidationError

    from .gen import resolve

    out = e2e.generate_only(root, case)
    if out["gen"] != "ok":
        return out
    gen = out.pop("_gen")
    try:
        pkg = engine.import_package(gen)
    except BaseException as e:  # noqa: BLE001
        out["import"] = f"{type(e).__name__}: {str(e)[:300]}"
        return out
    out["import"] = "ok"
    mm = e2e.method_map(gen.read("client.py"))
    schema = build_schema(case["sdl"])
    results = []
    rng = random.Random(str(case.get("seed")))
    for call in case["calls"]:
        m = mm.get(call["op"])
        if not m:
            continue
        log: List[Dict[str, Any]] = []
        resolver = resolve.Resolver(call["seed"], null_p=case.get("null_p", 0.15), custom_scalar_value=e2e.custom_values(case))

        def handler(request: Any) -> Any:
            body = json.loads(request.content)
            res = graphql_sync(schema, body["query"], variable_values=body.get("variables"), operation_name=body.get("operationName"),
                               field_resolver=resolver, type_resolver=resolve.Resolver.type_resolver)
            log.append({"query": body["query"], "variables": body.get("variables"), "data": res.data, "errors": bool(res.errors)})
            return httpx.Response(200, json={"data": res.data})

        rec: Dict[str, Any] = {"op": call["op"]}
        try:
            client = engine.make_generated_client(pkg, handler, is_async=True)
            pyargs = {m["varmap"].get(k, k): v for k, v in (call.get("vars") or {}).items()}
            value = engine.call_method(client, m["method"], m["async"], **pyargs)
        except BaseException as e:  # noqa: BLE001
            rec["conformant"] = f"rejected: {type(e).__name__}"
            results.append(rec)
            continue
        if not log or log[0]["errors"] or not isinstance(value, BaseModel):
            continue
        data = log[0]["data"]
        rec.update({"conformant": "ok", "query": log[0]["query"], "variables": log[0]["variables"], "data": data, "points": []})
        cls = type(value)
        try:
            rec["declared"] = declared_map(value)
        except BaseException as e:  # noqa: BLE001
            rec["declared_error"] = f"{type(e).__name__}: {str(e)[:200]}"
        for c in corruptions(data, rng, case.get("limit", 30), typename_keys(log[0]["query"])):
            payload = apply(data, tuple(c["path"]), c["action"], c.get("value"))
            try:
                v = cls.model_validate(payload)
                accepted, dump, err = True, v.model_dump(mode="json", by_alias=True, exclude_unset=True), None
            except ValidationError as e:
                accepted, dump, err = False, None, e.errors()[0]["type"] if e.errors() else "?"
            except BaseException as e:  # noqa: BLE001
                accepted, dump, err = False, None, "raised:" + type(e).__name__
            rec["points"].append({**c, "payload": payload, "accepted": accepted, "dump": dump, "error": err})
        results.append(rec)
    out["calls"] = results
    return out


# --------------------------------------------------------------------------------------------
# oracle: what the schema says about a position (graphql-core's own utilities)
# --------------------------------------------------------------------------------------------


def position_info(schema: Any, doc: Any, op_name: str, variables: Dict[str, Any], data: Any, path: List[Any]) -> Optional[Dict[str, Any]]:
    """-> {"type": GraphQL type of the VALUE at `path`, "conditional": field carries @skip/@include,
           "leaf": named leaf type name or None, "possible": possible type names when the value is an abstract-typed object}"""
    from graphql import (GraphQLList, GraphQLNonNull, get_named_type, is_abstract_type, is_leaf_type, is_object_type)
    from graphql.execution.collect_fields import collect_fields, collect_sub_fields
    from graphql.execution.execute import get_field_def
    from graphql.execution.values import get_variable_values
    from graphql.language import FieldNode, FragmentDefinitionNode, OperationDefinitionNode

    frags = {d.name.value: d for d in doc.definitions if isinstance(d, FragmentDefinitionNode)}
    op = next(d for d in doc.definitions if isinstance(d, OperationDefinitionNode) and d.name and d.name.value == op_name)
    coerced = get_variable_values(schema, op.variable_definitions or [], variables or {})
    if isinstance(coerced, list):
        return None
    root = schema.get_root_type(op.operation)
    fields = collect_fields(schema, frags, coerced, root, op.selection_set)
    sel_sets = [op.selection_set]
    parent_type = root
    cur_type: Any = None
    cur_val = data
    field_nodes: Any = None
    conditional = False
    cond_direct = False
    fname = None
    plain_parent = False
    for i, p in enumerate(path):
        if isinstance(p, str):
            if p not in fields:
                return None
            field_nodes = fields[p]
            fd = get_field_def(schema, parent_type, field_nodes[0])
            if fd is None:
                return None
            cur_type = fd.type
            # conditional = ANY occurrence of this response key at this position carries @skip/@include
            # (also occurrences that collect_fields already dropped, and whatever their type condition):
            # over-approximation, so nothing the property does not state is demanded
            conditional = _any_conditional(frags, sel_sets, p)
            nodes_here = _all_nodes(frags, sel_sets, p)
            cond_direct = bool(nodes_here) and all(any(d.name.value in ("skip", "include") for d in (n.directives or ())) for n in nodes_here)
            fname = field_nodes[0].name.value
            plain_parent = all(isinstance(s_, FieldNode) for ss_ in sel_sets for s_ in ss_.selections)
            cur_val = cur_val[p]
        else:
            t = cur_type.of_type if isinstance(cur_type, GraphQLNonNull) else cur_type
            if not isinstance(t, GraphQLList):
                return None
            cur_type = t.of_type
            cur_val = cur_val[p]
            conditional = False
            cond_direct = False
        # prepare descent into an object value
        if i + 1 < len(path) and isinstance(path[i + 1], str):
            named = get_named_type(cur_type)
            if is_object_type(named):
                rt = named
            elif is_abstract_type(named):
                tn = cur_val.get("__typename") if isinstance(cur_val, dict) else None
                rt = schema.get_type(tn) if tn else None
                if rt is None:
                    return None
            else:
                return None
            fields = collect_sub_fields(schema, frags, coerced, rt, field_nodes)
            sel_sets = [fn.selection_set for fn in _all_nodes(frags, sel_sets, path[i] if isinstance(path[i], str) else _last_key(path, i)) if fn.selection_set]
            parent_type = rt
    named = get_named_type(cur_type)
    return {"nonnull": isinstance(cur_type, GraphQLNonNull), "list": isinstance(cur_type.of_type if isinstance(cur_type, GraphQLNonNull) else cur_type, GraphQLList),
            "conditional": conditional, "cond_direct": cond_direct, "fname": fname if isinstance(path[-1], str) else None,
            "plain_parent": plain_parent, "depth": len([x for x in path if isinstance(x, str)]), "leaf": named.name if is_leaf_type(named) else None, "named": named.name,
            "abstract": bool(is_abstract_type(named)), "enum": named.__class__.__name__ == "GraphQLEnumType",
            "possible": [t.name for t in schema.get_possible_types(named)] if is_abstract_type(named) else None}


def _last_key(path: List[Any], i: int) -> str:
    while i >= 0 and not isinstance(path[i], str):
        i -= 1
    return path[i]


def _all_nodes(frags: Dict[str, Any], sel_sets: List[Any], key: str, _seen: Optional[set] = None) -> List[Any]:
    """every field node with response key `key` in the given selection sets, looking through inline
    fragments and spreads, ignoring directives and type conditions"""
    from graphql.language import FieldNode, FragmentSpreadNode, InlineFragmentNode

    seen = _seen if _seen is not None else set()
    out: List[Any] = []
    for ss in sel_sets:
        for s in ss.selections:
            if isinstance(s, FieldNode):
                if (s.alias.value if s.alias else s.name.value) == key:
                    out.append(s)
            elif isinstance(s, InlineFragmentNode):
                out += _all_nodes(frags, [s.selection_set], key, seen)
            elif isinstance(s, FragmentSpreadNode) and s.name.value not in seen and s.name.value in frags:
                seen.add(s.name.value)
                out += _all_nodes(frags, [frags[s.name.value].selection_set], key, seen)
    return out


def _any_conditional(frags: Dict[str, Any], sel_sets: List[Any], key: str) -> bool:
    from graphql.language import FragmentSpreadNode, InlineFragmentNode

    def cond(node: Any) -> bool:
        return any(d.name.value in ("skip", "include") for d in (node.directives or ()))

    if any(cond(n) for n in _all_nodes(frags, sel_sets, key)):
        return True
    # a conditional fragment around it also makes the key conditional (C01-F3 region; not judged here)
    def frag_cond(ss_list: List[Any], seen: set) -> bool:
        for ss in ss_list:
            for s in ss.selections:
                if isinstance(s, InlineFragmentNode):
                    if cond(s) or frag_cond([s.selection_set], seen):
                        return True
                elif isinstance(s, FragmentSpreadNode):
                    if cond(s):
                        return True
                    if s.name.value in frags and s.name.value not in seen:
                        seen.add(s.name.value)
                        if frag_cond([frags[s.name.value].selection_set], seen):
                            return True
        return False

    return frag_cond(sel_sets, set())


BUILTIN = {"Int", "Float", "String", "ID", "Boolean"}


def expected(info: Dict[str, Any], point: Dict[str, Any], parent_info: Optional[Dict[str, Any]], scalar_str: Any = ()) -> Tuple[Optional[bool], str]:
    """-> (must_be_rejected | None = not judged, cell label)"""
    act = point["action"]
    if info["leaf"] in scalar_str:
        info = {**info, "leaf": "String"}  # configured with the pydantic-native type `str`: as strict as String
    custom = info["leaf"] is not None and info["leaf"] not in BUILTIN and not info["enum"]
    if info.get("fname") == "__typename":
        if act == "replace" and point.get("value") == "NoSuchType" and parent_info:
            if parent_info.get("abstract"):
                return True, "typename:foreign"
            # an object-typed (non-root) position whose selection set is written as plain fields: the class gets Literal["<Type>"]
            # whatever the response key of `__typename` is
            if parent_info.get("leaf") is None and info.get("plain_parent") and not info.get("conditional"):
                return True, "typename:foreign@object"
        return None, "typename:other"
    if act == "null":
        if info["nonnull"] and not info["conditional"]:
            return True, ("null@nonnull:custom-scalar" if custom and not info["list"] else "null@nonnull")
        return None, "null@nullable"
    if act == "delete":
        return (None, "delete@conditional") if info["conditional"] else (True, "delete@unconditional")
    # replace by another JSON kind
    k = jkind(point["value"])
    if info["list"]:
        return True, f"list<-{k}"
    if info["leaf"] is None:
        return True, f"object<-{k}"
    if custom:
        return None, f"custom-scalar<-{k}"  # Any: every JSON is acceptable for an unknown scalar
    return True, f"{'enum' if info['enum'] else info['leaf']}<-{k}"


def lax_tables(strings: List[str]) -> Dict[str, Dict[str, Any]]:
    """pydantic-core's lax string parsers, computed with the real library"""
    from pydantic import TypeAdapter

    out: Dict[str, Dict[str, Any]] = {"strInt": {}, "strFloat": {}, "strBool": {}}
    for s in strings:
        for key, t in (("strInt", int), ("strFloat", float), ("strBool", bool)):
            try:
                v = TypeAdapter(t).validate_python(s)
                out[key][s] = v
            except Exception:
                pass
    return out


def fingerprint_items() -> List[Tuple[str, Optional[str]]]:
    from . import c01

    return c01.fingerprint_items() + [("ariadne_codegen/client_generators/constants.py", None)]


def corruption_run(ctx: Ctx, cases: List[Dict[str, Any]], res: Result, driver_ok: bool) -> None:
    from graphql import build_schema, parse

    if not cases:
        return
    trig = rt_common.triggers_of(cases) if driver_ok else [[] for _ in cases]
    runs = engine.pmap_forked(run_corruptions, [({**rt_common.strip_case(c), "seed": c["seed"], "limit": c.get("limit", ctx.budget(24, 60))},)
                                                 for c in cases], timeout=240)
    strings = sorted({r for r in REPLACEMENTS if isinstance(r, str)})
    lax = lax_tables(strings)
    lines: List[Dict[str, Any]] = []
    index: List[Tuple[int, int]] = []
    for ci, (c, (status, r)) in enumerate(zip(cases, runs)):
        if status != "ok":
            raise common.Infra(f"corruption runner failed: {status} {str(r)[:300]}")
        if r.get("gen") != "ok" or r.get("import") != "ok":
            res.count("skipped:package-unusable (C01/C04 judge that)")
            continue
        schema = build_schema(c["sdl"])
        env_ops = rt_common.env_and_ops(c) if driver_ok else None
        for ki, call in enumerate(r.get("calls", [])):
            if call.get("conformant") != "ok":
                res.count("skipped:conformant-call-failed (C01 judges that)")
                continue
            doc = parse(call["query"])
            res.evaluations += 1
            infos: Dict[str, Any] = {}
            for pt in call["points"]:
                key = json.dumps(pt["path"])
                if key not in infos:
                    try:
                        infos[key] = position_info(schema, doc, call["op"], call["variables"], call["data"], pt["path"])
                    except Exception as e:  # oracle could not type the position: not judged
                        infos[key] = None
                info = infos[key]
                if info is None:
                    res.count("oracle:untyped-position")
                    continue
                pkey = json.dumps(pt["path"][:-1])
                parent = None
                if info.get("fname") == "__typename" and len(pt["path"]) > 1:
                    try:
                        parent = position_info(schema, doc, call["op"], call["variables"], call["data"], pt["path"][:-1])
                    except Exception:
                        parent = None
                must_reject, cell = expected(info, pt, parent, c.get("scalar_str", ()))
                res.count("cell:" + cell)
                res.distinct.add(common.stable_hash([c["sdl"], call["query"], pt["path"], pt["action"], pt.get("value")]))
                if must_reject and pt["accepted"]:
                    sig = "accepted:" + cell
                    res.failures.append(Failure(sig, assign(PROP, trig[ci], sig, pt),
                                                {"sdl": c["sdl"], "queries": c["queries"], "config": c["config"], "op": call["op"],
                                                 "variables": call["variables"], "corruption": {k: pt[k] for k in ("path", "action", "value") if k in pt},
                                                 "payload": pt["payload"], "triggers": trig[ci]},
                                                f"corrupted payload accepted at {pt['path']} ({cell})"))
                    res.count("oracle:accepted-" + cell)
            for dc in call.get("declared") or []:
                key = json.dumps(dc["path"])
                if key not in infos:
                    try:
                        infos[key] = position_info(schema, doc, call["op"], call["variables"], call["data"], dc["path"])
                    except Exception:
                        infos[key] = None
                info = infos[key]
                if info is None or info.get("fname") == "__typename":
                    continue
                res.count("declared:judged")
                sig = None
                if info["cond_direct"] and not (dc["optional"] and dc["default_none"]):
                    sig = "declared:not-optional@conditional"
                elif not info["nonnull"] and not dc["optional"]:
                    sig = "declared:not-optional@nullable"
                elif info["nonnull"] and not info["conditional"] and (dc["optional"] or dc["default_none"]):
                    sig = "declared:optional@nonnull-unconditional"
                if info["cond_direct"]:
                    res.count("declared:conditional-field")
                if sig:
                    res.failures.append(Failure(sig, assign(PROP, trig[ci], sig, {}),
                                                {"sdl": c["sdl"], "queries": c["queries"], "config": c["config"], "op": call["op"],
                                                 "path": dc["path"], "class": dc["cls"], "field": dc["py"],
                                                 "declared": {"optional": dc["optional"], "default_none": dc["default_none"]},
                                                 "schema_says": {k: info[k] for k in ("nonnull", "conditional", "cond_direct", "named")}, "triggers": trig[ci]},
                                                f"declared type of {dc['cls']}.{dc['py']} is not the image of its GraphQL type ({sig})"))
                    res.count("oracle:" + sig)
            if driver_ok and not trig[ci] and env_ops:
                env, ops = env_ops
                oi = next((i for i, o in enumerate(ops) if o["name"] == call["op"]), None)
                if oi is not None and call["points"]:
                    lines.append({"op": "validate", **env, "operations": ops, "index": oi, **lax,
                                  "payloads": [wire.enc(pt["payload"]) for pt in call["points"]]})
                    index.append((ci, ki))
            if len(res.samples) < 5 and call["points"]:
                pt = call["points"][0]
                res.sample({"observation": "corruption", "op": call["op"], "path": pt["path"], "action": pt["action"], "value": pt.get("value"),
                            "accepted_by_real_model": pt["accepted"], "pydantic_error": pt["error"]})
    if lines:
        outs = common.run_driver(rt_common.DRIVER, lines)
        # the acceptance predicate of the plain-tier strictness theorem (plain_accepted_imp_conformant) next to the REAL class:
        # inside the theorem's region PlainOK, real acceptance must coincide with `laxResp` on every payload
        lax_outs = common.run_driver(PROP, [{**l, "op": "laxResp"} for l in lines])
        for (ci, ki), lo in zip(index, lax_outs):
            call = runs[ci][1]["calls"][ki]
            if lo is None:
                res.count("laxResp:operation-outside-PlainOK")
                continue
            res.count("laxResp:operation-inside-PlainOK")
            for pt, pred in zip(call["points"], lo):
                res.count("laxResp:payloads")
                res.count("laxResp:" + ("accepted" if pt["accepted"] else "rejected"))
                if bool(pred) != bool(pt["accepted"]):
                    res.mismatches.append(Mismatch("laxResp", {"sdl": cases[ci]["sdl"], "queries": cases[ci]["queries"], "op": call["op"],
                                                               "payload": pt["payload"],
                                                               "corruption": {k: pt[k] for k in ("path", "action", "value") if k in pt}},
                                                   {"accepted": pt["accepted"], "error": pt["error"]}, {"laxResp": pred}))
        for (ci, ki), out in zip(index, outs):
            call = runs[ci][1]["calls"][ki]
            if not isinstance(out, list):
                res.mismatches.append(Mismatch("pydValidate", {"sdl": cases[ci]["sdl"], "queries": cases[ci]["queries"]}, "classes", out))
                continue
            for pt, mo in zip(call["points"], out):
                res.count("pyd:validations")
                model_ok = "ok" in mo
                same = model_ok == pt["accepted"]
                if same and model_ok and pt["dump"] is not None:
                    same = common.same_json(pt["dump"], wire.dec(mo["ok"]))
                if not same:
                    res.mismatches.append(Mismatch("pydValidate", {"sdl": cases[ci]["sdl"], "queries": cases[ci]["queries"], "payload": pt["payload"],
                                                                   "corruption": {k: pt[k] for k in ("path", "action", "value") if k in pt}},
                                                   {"accepted": pt["accepted"], "error": pt["error"], "dump": pt["dump"]},
                                                   mo if not model_ok else {"ok": wire.dec(mo["ok"])}))


LAX_CELLS = {"Int<-bool", "Int<-string", "Float<-bool", "Float<-string", "Boolean<-number", "Boolean<-string"}


def assign(prop: str, triggers: List[str], sig: str, pt: Dict[str, Any]) -> Optional[str]:
    """trigger of a lax-table cell = the cell itself (the finding lists the accepting cells one by one,
    so a NEW accepting cell is still a violation); otherwise the C01 finding regions"""
    cell = sig[len("accepted:"):]
    if cell in LAX_CELLS:
        t = "laxCell:" + cell
        for f in common.load_findings(prop):
            if f.get("status") == "open" and f.get("trigger") == t:
                return t
    if cell == "null@nonnull:custom-scalar":
        return "anyAcceptsNull"
    return rt_common.assign_trigger(prop, triggers, sig)


def replay_corpus(ctx: Ctx, res: Result) -> None:
    d = common.CORPUS / PROP
    if not d.exists():
        return
    from pydantic import TypeAdapter

    for f in sorted(d.glob("*.json")):
        entry = json.loads(f.read_text())
        # lax-cell witnesses are replayed on real pydantic directly (the generated annotation is `int` etc.)
        t = {"int": int, "float": float, "bool": bool, "str": str}[entry["annotation"]]
        try:
            TypeAdapter(t).validate_python(entry["value"])
            accepted = True
        except Exception:
            accepted = False
        res.witness_status[entry["finding"]] = "reproduces" if accepted else "gone"
        res.count("corpus:replayed")


def run(ctx: Ctx, st: Optional[LeanStatus]) -> Result:
    res = Result()
    res.rule = ("for seeded valid (schema, operations) cases - grown with the default features, grown with repeated schema fields (two response keys) and "
                "shared fragment definitions, and hand-written shapes of both families: class-IR correspondence of every definition; then one real call "
                "per operation (shapes: several executor seeds) and single-point corruptions of the executor's response (null / delete key / replace by "
                "every other JSON kind / foreign __typename), sampled per response, validated by the REAL generated model class; expectation from "
                "graphql-core's collect_fields/type utilities; Spec/Pyd and (inside PlainOK) the theorem's predicate laxResp compared with the real "
                "verdict on every payload. Distinct non-trivial = distinct (document, path, corruption).")
    res.extra["fingerprints"] = common.fingerprints(ctx, fingerprint_items())
    driver_ok = st is not None and st.driver_ok
    replay_corpus(ctx, res)
    del _TIE_CASES[:]
    shapes = shape_cases(ctx)
    if driver_ok:
        class_ir(ctx, rt_common.draw_cases(ctx, "ir-default", ctx.budget(200, 1500)), res, "default")
        class_ir(ctx, rt_common.draw_cases(ctx, "ir-shared", ctx.budget(80, 600), SHARED_FEATURES), res, "shared")
        class_ir(ctx, shapes, res, "shapes")
    else:
        res.mismatches.append(Mismatch("resultTypes", {}, "driver not built", None))
    cases = rt_common.draw_cases(ctx, "corrupt", ctx.budget(36, 360), calls_per_op=1)
    cases += rt_common.draw_cases(ctx, "corrupt-shared", ctx.budget(14, 160), SHARED_FEATURES, calls_per_op=1)
    for c in cases + shapes:
        feats = c.get("features") or {}
        res.count("stream:" + ("shape" if c.get("shape") else "shared" if feats.get("reuse_fragment") else "default"))
    corruption_run(ctx, cases + shapes, res, driver_ok)
    res.oracle_only += ["expectations come from graphql-core's collect_fields / type system applied to the sent document",
                        "unproved region (correspondence and oracle only): rejection of a corruption below a composite-typed field outside the plain tier "
                        "(chaining of the per-class theorems through class / Union references with fragments or abstract types); configured custom scalars"]
    res.assumptions += ["pydantic-core's lax str->int/float/bool parsers are external: passed to the model as tables computed with the real library"]
    return res


def directed_cases(ctx: Ctx, cases: List[Dict[str, Any]], n_seeds: int = 6) -> List[Dict[str, Any]]:
    """the same (schema, document, configuration), every operation executed with `n_seeds` executor seeds (runtime types,
    nulls, list lengths) and (nearly) all single-point corruptions of every response"""
    out = []
    for c in cases:
        first: Dict[str, Dict[str, Any]] = {}
        for call in c["calls"]:
            first.setdefault(call["op"], call)
        calls = [{"op": o, "seed": f"{ctx.seed}:directed:{o}:{k}", "vars": call.get("vars") or {}} for o, call in first.items() for k in range(n_seeds)]
        out.append({**c, "calls": calls, "limit": 150, "null_p": 0.08})
    return out


def search(ctx: Ctx) -> Result:
    res = Result()
    # 1. directed: the inputs on which the tie broke, and the shapes
    directed = directed_cases(ctx, _TIE_CASES[:10]) + shape_cases(ctx, calls=10, limit=150)
    corruption_run(ctx, directed, res, False)
    if any(f.trigger is None for f in res.failures):
        return res
    # 2. random, both feature sets
    cases = rt_common.draw_cases(ctx, "search", 200, calls_per_op=1) + rt_common.draw_cases(ctx, "search-shared", 140, SHARED_FEATURES, calls_per_op=1)
    corruption_run(ctx, cases, res, False)
    return res


def replay(ctx: Ctx, payload: Dict[str, Any]) -> int:
    inp = payload.get("input")
    if not inp or "payload" not in inp:
        print(json.dumps(payload, indent=1)[:3000])
        return 1
    case = {"sdl": inp["sdl"], "queries": inp["queries"], "config": inp.get("config", {}), "calls": []}

    def child(case: Dict[str, Any], op: str, payload_: Any) -> Any:
        import tempfile

        root = Path(tempfile.mkdtemp(prefix=engine.SCRATCH_PREFIX))
        try:
            gen = engine.generate_client(root, case["sdl"], case["queries"], case["config"])
            pkg = engine.import_package(gen)
            mm = e2e.method_map(gen.read("client.py"))
            import importlib

            mod = importlib.import_module(f"{gen.package}.{mm[op]['method']}")
            from ariadne_codegen.utils import str_to_pascal_case

            cls = getattr(mod, str_to_pascal_case(op))
            try:
                cls.model_validate(payload_)
                return "accepted"
            except Exception as e:
                return "rejected: " + type(e).__name__
        finally:
            import shutil

            shutil.rmtree(root, ignore_errors=True)

    status, r = engine.forked(child, case, inp["op"], inp["payload"])
    print(status, r)
    return 1 if r == "accepted" else 0
