"""Case generator of C04: seeded valid (schema, document) pairs x configurations, stress names on.

Built on the shared generators (gen/schema_gen.py, gen/ops_gen.py); what C04 adds is the product the
property quantifies over: names that stress the naming code in EVERY scope (operation, fragment,
variable, field, input field, enum value, type), input-field defaults, recursive inputs,
subscriptions, and every documented configuration option (module / class names, snake case, sync,
OpenTelemetry, include_all_inputs / include_all_enums, custom operations, files_to_include, custom
scalars with plain / dotted / relative names, a custom base client).
A case is JSON-able and replayable on its own:
  {"sdl", "queries", "config", "extra_files": {name: text}, "features": {...}}
"""
from __future__ import annotations

import random
from typing import Any, Dict, List, Optional

from .gen import ops_gen, schema_gen

# ------------------------------------------------------------------------------------------------
# stress pools (each scope gets the names its own defects are about, plus harmless look-alikes)
# ------------------------------------------------------------------------------------------------

HARMLESS_OPS = ["getUserHTTPInfo", "list_all", "X", "q2", "Init", "main", "type", "match", "print"]
STRESS_OPS = ["class", "None", "none", "import", "_1", "_private", "client", "enums", "input_types", "fragments", "exceptions",
              "base_model", "async_base_client", "base_client", "Optional", "List", "Any", "Field", "BaseModel", "customQueries",
              "custom_fields", "baseOperation", "Upload", "operations", "fooBar", "foo_bar", "FooBar"]
HARMLESS_VARS = ["first", "after", "userId", "variables", "data", "response", "query", "type", "id_", "URLPath"]
STRESS_VARS = ["self", "kwargs", "_query", "class", "from", "None", "_x", "x", "fooBar", "foo_bar", "gql", "__x", "_1", "Any", "Optional"]
HARMLESS_FRAGS = ["userBits", "NodeParts", "f1", "typeBits", "case"]
STRESS_FRAGS = ["class", "none", "_1", "Optional", "BaseModel", "List", "Field", "_"]
HARMLESS_ENUM_VALUES = ["name", "value", "lower_case", "X1", "type", "match", "__dunder__", "ok"]
STRESS_ENUM_VALUES = ["class", "None", "True", "mro", "_sunder_", "_order_", "from", "class_", "_"]
HARMLESS_FIELDS = ["camelCaseHTTPField", "snake_case_field", "Field9", "type", "match", "fields", "x_", "construct", "_private",
                   # snake-case to a name pydantic reserves: must come out with the "_" suffix (schema_json_, model_dump_ ...)
                   "schemaJson", "parseObj", "modelDump", "fromOrm", "updateForwardRefs", "modelValidateJson"]
STRESS_FIELDS = ["class", "from", "copy", "json", "dict", "schema", "validate", "model_config", "model_fields", "None", "in",
                 "_1", "_class", "_copy", "class_", "_", "__", "typename__", "fooBar", "foo_bar", "self", "mro"]
STRESS_TYPES = ["Optional", "List", "Any", "Field", "BaseModel", "Enum", "Upload", "Union", "Literal", "Annotated", "Client", "class_"]

MODULE_NAMES = {"client_file_name": ["client", "api", "my_client"], "enums_module_name": ["enums", "my_enums", "e"],
                "input_types_module_name": ["input_types", "inputs", "models_in"], "fragments_module_name": ["fragments", "frags", "shared"]}
CLIENT_NAMES = ["Client", "Api", "MyGraphQLClient", "client"]

SCALARS_FILE = '''from typing import Any


class Code:
    def __init__(self, raw: Any) -> None:
        self.raw = raw


def parse_code(v: Any) -> Code:
    return Code(v)


def serialize_code(c: Any) -> Any:
    return c.raw if isinstance(c, Code) else c


def parse_json(v: Any) -> Any:
    return v


def serialize_json(v: Any) -> Any:
    return v
'''

EXTRA_FILE = '''HELPER = 1


class CommonMixin:
    pass
'''

SCALAR_CHOICES: Dict[str, List[Dict[str, str]]] = {
    "DateTime": [{"type": "datetime.datetime"}, {"type": "str"}, {"type": "datetime.date", "parse": "dateutil.parser.isoparse"}],
    "JSON": [{"type": "Any"}, {"type": "dict"}, {"type": "Any", "parse": ".custom_scalars.parse_json", "serialize": ".custom_scalars.serialize_json"}],
    "Code": [{"type": ".custom_scalars.Code", "parse": ".custom_scalars.parse_code", "serialize": ".custom_scalars.serialize_code"},
             {"type": ".custom_scalars.Code", "parse": ".custom_scalars.parse_code"}, {"type": "int"}],
}


def custom_base_client(async_: bool) -> str:
    """a user-supplied base client (the documented `base_client_file_path` / `base_client_name` options)"""
    if async_:
        return ('from typing import Any, Dict, Optional\n\n\nclass MyBase:\n    def __init__(self, url: str = "", **kwargs: Any) -> None:\n'
                '        self.url = url\n\n    async def execute(self, query: str, operation_name: Optional[str] = None,\n'
                '                      variables: Optional[Dict[str, Any]] = None, **kwargs: Any) -> Any:\n        return {}\n\n'
                '    def get_data(self, response: Any) -> Dict[str, Any]:\n        return response\n\n'
                '    async def execute_ws(self, query: str, operation_name: Optional[str] = None,\n'
                '                         variables: Optional[Dict[str, Any]] = None, **kwargs: Any) -> Any:\n        yield {}\n')
    return ('from typing import Any, Dict, Optional\n\n\nclass MyBase:\n    def __init__(self, url: str = "", **kwargs: Any) -> None:\n'
            '        self.url = url\n\n    def execute(self, query: str, operation_name: Optional[str] = None,\n'
            '                variables: Optional[Dict[str, Any]] = None, **kwargs: Any) -> Any:\n        return {}\n\n'
            '    def get_data(self, response: Any) -> Dict[str, Any]:\n        return response\n')


# ------------------------------------------------------------------------------------------------
# schema / document stressing
# ------------------------------------------------------------------------------------------------


def _pick(rng: random.Random, harmless: List[str], stress: List[str], stress_p: float) -> str:
    return rng.choice(stress) if rng.random() < stress_p else rng.choice(harmless)


def stress_schema(s: Dict[str, Any], rng: random.Random, p: float, stress_p: float) -> None:
    """rename enum values / fields / input fields in place (consistently per name), add defaults"""
    # one renaming per field name for the whole schema keeps interface implementations consistent
    ren: Dict[str, str] = {}
    all_field_names = {f["name"] for t in s["types"] for f in t["fields"]} | {f["name"] for t in s["types"] for f in t["inputFields"]}
    taken = set(all_field_names)
    for n in sorted(all_field_names):
        if rng.random() < p:
            new = _pick(rng, HARMLESS_FIELDS, STRESS_FIELDS, stress_p)
            if new not in taken:
                taken.add(new)
                ren[n] = new
    enums = {t["name"]: t for t in s["types"] if t["kind"] == "enum"}
    for t in s["types"]:
        for f in t["fields"]:
            f["name"] = ren.get(f["name"], f["name"])
        for f in t["inputFields"]:
            f["name"] = ren.get(f["name"], f["name"])
        if t["kind"] == "enum":
            vals = []
            for v in t["values"]:
                if rng.random() < p:
                    v2 = _pick(rng, HARMLESS_ENUM_VALUES, STRESS_ENUM_VALUES, stress_p)
                    v = v2 if v2 not in t["values"] and v2 not in vals else v
                vals.append(v)
            t["values"] = vals
    # input-field defaults: scalars and enums (lists of enums too), nullable fields only or with a non-null type
    custom_scalars = {t["name"] for t in s["types"] if t["kind"] == "scalar"}
    for t in s["types"]:
        if t["kind"] != "input":
            continue
        for f in t["inputFields"]:
            if rng.random() >= 0.3:
                continue
            base = schema_gen.unwrap(f["type"])
            is_list = any(x == "list" for x in _wrappers(f["type"]))
            lit: Optional[str] = None
            if base in enums:
                lit = rng.choice(enums[base]["values"])
            elif base == "Int":
                lit = str(rng.choice([0, 7, -3]))
            elif base == "String":
                lit = rng.choice(['"s"', '"two words"', '""'])
            elif base == "Boolean":
                lit = rng.choice(["true", "false"])
            elif base == "Float":
                lit = rng.choice(["1.5", "2.0"])
            elif stress_p and base in custom_scalars and rng.random() < stress_p:
                lit = "FOO"  # an enum literal is a valid literal for a custom scalar (finding F24: emitted as `.FOO`)
            if lit is None:
                continue
            depth = sum(1 for x in _wrappers(f["type"]) if x == "list")
            f["default"] = "[" * depth + lit + "]" * depth if is_list else lit


def _wrappers(t: List[Any]) -> List[str]:
    out = []
    while t[0] != "named":
        out.append(t[0])
        t = t[1]
    return out


def rename_types(s: Dict[str, Any], rng: random.Random, stress_p: float) -> None:
    """rename one enum / input / scalar-free type to a name that shadows a helper the emitted modules import"""
    cands = [t for t in s["types"] if t["kind"] in ("enum", "input")]
    if not cands or rng.random() >= stress_p:
        return
    t = rng.choice(cands)
    new = rng.choice(STRESS_TYPES)
    if any(x["name"] == new for x in s["types"]):
        return
    old = t["name"]
    t["name"] = new

    def fix(tr: List[Any]) -> None:
        while tr[0] != "named":
            tr = tr[1]
        if tr[1] == old:
            tr[1] = new

    for x in s["types"]:
        for f in x["fields"]:
            fix(f["type"])
            for a in f.get("args", []):
                fix(a["type"])
        for f in x["inputFields"]:
            fix(f["type"])


def stress_document(doc: Dict[str, Any], rng: random.Random, p: float, stress_p: float) -> None:
    used_ops = {o["name"] for o in doc["operations"]}
    for o in doc["operations"]:
        if rng.random() < p:
            new = _pick(rng, HARMLESS_OPS, STRESS_OPS, stress_p)
            if new not in used_ops:
                used_ops.add(new)
                o["name"] = new
    # variables: rename inside the operation and everywhere it is used (fragments are shared: rename only
    # variables that no fragment mentions)
    frag_vars = set()
    for f in doc["fragments"]:
        frag_vars |= ops_gen.used_variables(f["sel"], {})
    for o in doc["operations"]:
        names = {v["name"] for v in o["vars"]}
        for v in o["vars"]:
            if v["name"] in frag_vars or rng.random() >= p:
                continue
            new = _pick(rng, HARMLESS_VARS, STRESS_VARS, stress_p)
            if new in names:
                continue
            names.add(new)
            _rename_var(o["sel"], v["name"], new)
            v["name"] = new
    fr_names = {f["name"] for f in doc["fragments"]}
    for f in doc["fragments"]:
        if rng.random() < p:
            new = _pick(rng, HARMLESS_FRAGS, STRESS_FRAGS, stress_p)
            if new in fr_names or new == "on":
                continue
            fr_names.add(new)
            old = f["name"]
            f["name"] = new
            for o in doc["operations"]:
                _rename_spread(o["sel"], old, new)
            for g in doc["fragments"]:
                _rename_spread(g["sel"], old, new)


def _rename_var(sel: List[Dict[str, Any]], old: str, new: str) -> None:
    for s in sel:
        for d in s.get("dirs", []):
            if d.get("var") == old:
                d["var"] = new
        for a in s.get("args", []) if s["k"] == "field" else []:
            if a.get("var") == old:
                a["var"] = new
        if s["k"] != "spread":
            _rename_var(s.get("sel", []), old, new)


def _rename_spread(sel: List[Dict[str, Any]], old: str, new: str) -> None:
    for s in sel:
        if s["k"] == "spread":
            if s["name"] == old:
                s["name"] = new
        else:
            _rename_spread(s.get("sel", []), old, new)


# ------------------------------------------------------------------------------------------------
# configurations
# ------------------------------------------------------------------------------------------------

BOOL_OPTIONS = ["convert_to_snake_case", "async_client", "opentelemetry_client", "include_all_inputs", "include_all_enums",
                "enable_custom_operations"]
DEFAULTS = {"convert_to_snake_case": True, "async_client": True, "opentelemetry_client": False, "include_all_inputs": True,
            "include_all_enums": True, "enable_custom_operations": False}


def gen_config(rng: random.Random, index: int, schema: Dict[str, Any], custom_ops_p: float = 0.15) -> Dict[str, Any]:
    """`index` walks the 2^5 combinations of the boolean options (custom operations drawn separately, they are a
    region of their own), everything else is drawn"""
    cfg: Dict[str, Any] = {}
    bits = index % 32
    for k, opt in enumerate(BOOL_OPTIONS[:5]):
        cfg[opt] = DEFAULTS[opt] != bool((bits >> k) & 1)  # bit set: the non-default value
    cfg["enable_custom_operations"] = rng.random() < custom_ops_p
    extra: Dict[str, str] = {}
    for opt, pool in MODULE_NAMES.items():
        if rng.random() < 0.3:
            cfg[opt] = rng.choice(pool)
    if rng.random() < 0.3:
        cfg["client_name"] = rng.choice(CLIENT_NAMES)
    if rng.random() < 0.15:
        cfg["base_client_name"] = "MyBase"
        cfg["base_client_file_path"] = "my_base.py"
        extra["my_base.py"] = custom_base_client(cfg["async_client"])
        cfg.pop("opentelemetry_client", None)
    files: List[str] = []
    if rng.random() < 0.3:
        files.append("extra_helpers.py")
        extra["extra_helpers.py"] = EXTRA_FILE
    scalars: Dict[str, Dict[str, str]] = {}
    for t in schema["types"]:
        if t["kind"] == "scalar" and t["name"] in SCALAR_CHOICES and rng.random() < 0.6:
            scalars[t["name"]] = dict(rng.choice(SCALAR_CHOICES[t["name"]]))
    if any(v.startswith(".custom_scalars") for d in scalars.values() for v in d.values()):
        files.append("custom_scalars.py")
        extra["custom_scalars.py"] = SCALARS_FILE
    if scalars:
        cfg["scalars"] = scalars
    if files:
        cfg["files_to_include"] = files
    return {"config": cfg, "extra_files": extra}


# ------------------------------------------------------------------------------------------------
# cases
# ------------------------------------------------------------------------------------------------


# the directive main.client injects into every schema (schema.py add_mixin_directive_to_schema): part of what
# "valid against the schema" means for the documents ariadne-codegen accepts
MIXIN_SDL = "\ndirective @mixin(from: String, import: String) repeatable on FIELD | FRAGMENT_DEFINITION\n"
EXTRACT_OPS = "ariadne_codegen.contrib.extract_operations.ExtractOperationsPlugin"
QUOTE_LITERALS = ['"it\'s"', '"a \'quoted\' word"']
BLOCK_LITERALS = ['"""block"""', '"""two\n  lines"""']
HARMLESS_LITERALS = ['"plain"', '"two words"', '""']


def _composite_fields(sel: List[Dict[str, Any]], out: List[Dict[str, Any]]) -> None:
    for s in sel:
        if s["k"] == "field" and s.get("sel"):
            out.append(s)
        if s["k"] != "spread":
            _composite_fields(s.get("sel", []), out)


def add_mixins(doc: Dict[str, Any], rng: random.Random, p: float, malformed_p: float) -> Dict[str, bool]:
    """`@mixin(from:, import:)` on composite fields / fragment definitions / operations' fields (documented feature);
    `malformed_p`: an argument is missing or null - one of the four documented refusals"""
    used = {"mixin": False, "malformed": False}
    spots: List[Dict[str, Any]] = []
    for o in doc["operations"]:
        _composite_fields(o["sel"], spots)
    for f in doc["fragments"]:
        _composite_fields(f["sel"], spots)
        spots.append(f)
    for s in spots:
        if rng.random() >= p:
            continue
        d: Dict[str, Any] = {"name": "mixin", "from": ".extra_helpers", "import": "CommonMixin"}
        if rng.random() < malformed_p:
            d["malformed"] = rng.choice(["no-import", "no-from", "null"])
            used["malformed"] = True
        s.setdefault("dirs", []).append(d)
        used["mixin"] = True
    return used


def literal_arguments(doc: Dict[str, Any], rng: random.Random, p: float, quote_p: float, block_p: float) -> None:
    """replace a String variable that is used exactly once (as a field argument of the operation itself) by a literal"""
    frag_vars = set()
    for f in doc["fragments"]:
        frag_vars |= ops_gen.used_variables(f["sel"], {})

    def uses(sel: List[Dict[str, Any]], name: str, acc: List[Dict[str, Any]], other: List[int]) -> None:
        for s in sel:
            for d in s.get("dirs", []):
                if d.get("var") == name:
                    other.append(1)
            if s["k"] == "field":
                for a in s.get("args", []):
                    if a.get("var") == name:
                        acc.append(a)
            if s["k"] != "spread":
                uses(s.get("sel", []), name, acc, other)

    for o in doc["operations"]:
        for v in list(o["vars"]):
            if schema_gen.unwrap(v["type"]) != "String" or any(x == "list" for x in _wrappers(v["type"])) or v["name"] in frag_vars:
                continue
            if rng.random() >= p:
                continue
            acc: List[Dict[str, Any]] = []
            other: List[int] = []
            uses(o["sel"], v["name"], acc, other)
            if len(acc) != 1 or other:
                continue
            r = rng.random()
            lit = rng.choice(QUOTE_LITERALS) if r < quote_p else rng.choice(BLOCK_LITERALS) if r < quote_p + block_p else rng.choice(HARMLESS_LITERALS)
            acc[0]["var"] = None
            acc[0]["lit"] = lit
            o["vars"] = [x for x in o["vars"] if x is not v]


def make_case(seed: Any, index: int = 0, *, name_p: float = 0.25, stress_p: float = 0.0, features: Optional[Dict[str, float]] = None,
              n_ops: int = 3, custom_ops_p: float = 0.15, subscription_p: float = 0.25, mixin_p: float = 0.0, malformed_mixin_p: float = 0.0,
              literal_p: float = 0.0, quote_p: float = 0.0, block_p: float = 0.0, anonymous_p: float = 0.0,
              extract_ops_p: float = 0.0) -> Optional[Dict[str, Any]]:
    """A valid (schema, document) pair with a configuration; None when the draw is not valid GraphQL.
    `stress_p` = 0: names stay inside the region where no naming defect is known (harmless look-alikes only)."""
    from graphql import build_schema, parse, validate

    rng = random.Random(f"c04:{seed}")
    s = schema_gen.gen_schema(rng, size=rng.randint(1, 3), subscription=rng.random() < subscription_p)
    stress_schema(s, rng, name_p, stress_p)
    if stress_p:
        rename_types(s, rng, stress_p)
    sdl = schema_gen.to_sdl(s)
    try:
        gs = build_schema(sdl + MIXIN_SDL)
    except Exception:
        return None
    kinds = ("query", "mutation", "subscription") if s.get("subscription") else ("query", "mutation")
    anonymous = rng.random() < anonymous_p
    doc = ops_gen.gen_document(s, rng, n_ops=1 if anonymous else n_ops, features=features, kinds=kinds)
    if not doc["operations"]:
        return None
    stress_document(doc, rng, name_p, stress_p)
    if literal_p:
        literal_arguments(doc, rng, literal_p, quote_p, block_p)
    mix = add_mixins(doc, rng, mixin_p, malformed_mixin_p) if mixin_p else {"mixin": False, "malformed": False}
    if anonymous:
        doc["operations"][0]["name"] = ""
    text = render_with_mixins(doc)
    try:
        if validate(gs, parse(text)):
            return None
    except Exception:
        return None
    c = gen_config(rng, index, s, custom_ops_p)
    if mix["mixin"] and "extra_helpers.py" not in c["config"].get("files_to_include", []):
        c["config"].setdefault("files_to_include", []).append("extra_helpers.py")
        c["extra_files"]["extra_helpers.py"] = EXTRA_FILE
    if rng.random() < extract_ops_p:
        c["config"]["plugins"] = [EXTRACT_OPS]
    return {"seed": str(seed), "sdl": sdl, "queries": text, "config": c["config"], "extra_files": c["extra_files"],
            "features": dict(features or {}), "stress": stress_p,
            "draw": {"mixin": mix["mixin"], "malformed_mixin": mix["malformed"], "anonymous": anonymous}}


def render_with_mixins(doc: Dict[str, Any]) -> str:
    """ops_gen.render_document, with the malformed `@mixin` variants rendered as drawn"""
    text = ops_gen.render_document(doc)
    full = '@mixin(from: ".extra_helpers", import: "CommonMixin")'
    if full not in text:
        return text
    variants: List[str] = []

    def collect(sel: List[Dict[str, Any]]) -> None:
        for s in sel:
            if s["k"] == "field":
                variants.extend(d.get("malformed", "") for d in s.get("dirs", []) if d["name"] == "mixin")
            if s["k"] != "spread":
                collect(s.get("sel", []))

    # the order in which render_document meets the directives: operations (depth first), then per fragment the
    # definition's own directives before its body
    for o in doc["operations"]:
        collect(o["sel"])
    for f in doc["fragments"]:
        variants.extend(d.get("malformed", "") for d in f.get("dirs", []) if d["name"] == "mixin")
        collect(f["sel"])
    parts = text.split(full)
    if len(parts) != len(variants) + 1:
        return text
    alt = {"": full, "no-import": '@mixin(from: ".extra_helpers")', "no-from": '@mixin(import: "CommonMixin")',
           "null": '@mixin(from: null, import: "CommonMixin")'}
    out = parts[0]
    for v, rest in zip(variants, parts[1:]):
        out += alt[v] + rest
    return out
