"""C11 — requests are well-formed, uploads follow the multipart spec, clients agree.

Tie: model `Ariadne.BaseClient.execute` (lean/AriadneModel/Model/BaseClient.lean) vs the REAL `execute`
of the four bundled base clients (OpenTelemetry twins with and without a tracer: six configurations)
driven through `httpx.MockTransport`.  Inputs are seeded, type-directed *call specs* (variables
trees with generated pydantic models, UNSET, None, enum/datetime leaves, raw dicts, Upload objects at
any depth and shared; caller headers incl. Content-Type overrides in other spellings; timeout/params).
The captured `httpx.Request` is decoded (JSON body / multipart parts) into a request IR and compared
with the IR the compiled Lean driver computes from the same call.  pydantic's `model_dump`,
`to_jsonable_python` on leaves, httpx's header handling and multipart encoding are third-party: their
results are inputs of the model (computed here with the real libraries), not modelled.

Oracle (independent of the model): the property text on the captured requests — body keys exactly,
JSON + Content-Type + caller headers win, every Upload position null, map == exactly those paths, each
distinct Upload sent once with its own filename/type/bytes, six configurations identical, caller's
variables and the client object untouched, concurrent calls (asyncio.gather / threads on ONE client)
give the requests of the sequential run.

Argument objects are state too: SEQUENCES of calls that share their argument objects (one headers dict,
one variables dict, the same Upload objects, one params dict handed to several calls, JSON and multipart
calls mixed, on one client or hopping between the six configurations) are driven through the real clients;
every request of the sequence is compared with the reference-level model `executeH`/`runSeqH`
(Model/BaseClientHeap.lean: the caller's dicts live in a heap the model returns), the real objects are
deep-snapshotted before and after EVERY call and compared both with the model's heap (correspondence) and
with the snapshot taken before the first call (oracle: `execute` leaves what it is given untouched, and each
request is judged against the call the caller wrote, whatever earlier calls did).

The `variables` argument is a GRAPH of objects: call specs and sequences carry a pool of SHARED list/dict objects
(`"shared"`: one nested container referenced from several places of one variables dict, from several variables dicts,
from a model's Any-typed field) and several distinct Upload objects with identical attributes (same name/type and the
same or different bytes).  Every sequence is also run through the object-level model `executeO`/`runSeqO`
(Model/BaseClientObjects.lean): the real list/dict objects are encoded by identity (address = first visit), and after
EVERY real call re-encoded with the same addresses and compared with the store the model returns; the `files=` triples
of the model (the Upload object's own filename / content / content_type) are compared with the real file parts.  What
`==` / `in` / `.index` answer on real Upload objects is compared with the model's `uploadEq`.
"""
from __future__ import annotations

import asyncio
import base64
import datetime as _dt
import decimal
import enum
import io
import json
import re
import threading
from concurrent.futures import ThreadPoolExecutor
from typing import Any, Dict, List, Optional, Tuple

import httpx

from . import clients, common, wire
from .common import Ctx, Failure, LeanStatus, Mismatch, Result

URL = "http://verif.test/graphql"
CLIENT_HEADERS = {"X-Client-Level": "1", "Authorization": "client-token"}
CONFIGS: List[Tuple[str, Optional[str]]] = [
    ("sync", None), ("async", None), ("syncOT", None), ("asyncOT", None), ("syncOT", "verif-c11"), ("asyncOT", "verif-c11"),
]
SHARED_METHODS = ["_process_variables", "_convert_dict_to_json_serializable", "_convert_value",
                  "_get_files_from_variables", "_execute_json", "_execute_multipart"]
TRIG_F1 = "trigContentTypeCase"
TRIG_F2 = "trigUploadInModelBelowDict"

# --------------------------------------------------------------------------------------------
# pydantic models of the harness (subclasses of the working tree's BaseModel), built lazily
# --------------------------------------------------------------------------------------------

_M: Dict[str, Any] = {}


class Color(str, enum.Enum):
    RED = "RED"
    GREEN = "GREEN"


class Level(enum.Enum):
    LOW = 1
    HIGH = 2


class Opaque:
    """an object json.dumps(default=to_jsonable_python) cannot serialise (outside the property's quantifier)"""


def models() -> Dict[str, Any]:
    if _M:
        return _M
    from pydantic import Field

    bm = clients.base_model_module()
    Upload = bm.Upload

    class Inner(bm.BaseModel):
        file_: Optional[Upload] = Field(alias="file", default=None)
        note: Optional[str] = None
        when: Optional[_dt.datetime] = None
        color: Optional[Color] = None
        tags: Optional[List[str]] = None
        blob: Optional[Any] = None

    class Outer(bm.BaseModel):
        id_: str = Field(alias="id")
        inner: Optional[Inner] = None
        inners: Optional[List[Optional[Inner]]] = Field(alias="innerList", default=None)
        files: Optional[List[Optional[Upload]]] = None
        extra: Optional[Any] = None
        count: Optional[int] = 3
        ratio: Optional[float] = None
        global_: Optional[bool] = Field(alias="global", default=None)
        day: Optional[_dt.date] = None

    _M.update(Inner=Inner, Outer=Outer, Upload=Upload, UNSET=bm.UNSET, BaseModel=bm.BaseModel)
    return _M


FIELDS = {
    # python field name -> (kind of value to generate)
    "Inner": {"file_": "upload?", "note": "str?", "when": "datetime?", "color": "color?", "tags": "strlist?", "blob": "any"},
    "Outer": {"id_": "str", "inner": "Inner?", "inners": "Innerlist?", "files": "uploadlist?", "extra": "any", "count": "int?",
              "ratio": "float?", "global_": "bool?", "day": "date?"},
}

KEYS = ["a", "b", "file", "files", "input", "inputs", "id", "first", "where", "data_", "x1", "fileList", "0", "n.m"]
STRS = ["", "x", "héllo", "variables.a", "null", "a\"b", "line\nbreak"]
INTS = [0, 1, -3, 7, 2**31, 10**20]
FLOATS = [0.5, -2.25, 1.0, 3.75, 1e-3, 12345.678]
DATETIMES = ["2020-01-02T03:04:05", "1999-12-31T23:59:59+00:00"]
DATES = ["2021-06-07"]
HEADER_NAMES = ["X-Trace", "Authorization", "accept", "X-A", "x-a", "User-Agent", "X-Client-Level"]
CT_SPELLINGS = ["Content-Type", "content-type", "CONTENT-TYPE", "Content-type"]
CT_VALUES = ["application/json", "application/graphql-response+json", "text/plain; charset=utf-8"]


# --------------------------------------------------------------------------------------------
# call specs (JSON) -> Python objects
# --------------------------------------------------------------------------------------------


def build_value(spec: Dict[str, Any], uploads: List[Any], shared: Optional[List[Any]] = None) -> Any:
    m = models()
    k = spec["k"]
    if k == "shared":
        return (shared or [])[spec["i"]]   # THE object of the pool, not a copy
    if k == "none":
        return None
    if k == "unset":
        return m["UNSET"]
    if k in ("bool", "int", "float", "str"):
        return spec["v"]
    if k == "color":
        return Color(spec["v"])
    if k == "level":
        return Level(spec["v"])
    if k == "datetime":
        return _dt.datetime.fromisoformat(spec["v"])
    if k == "date":
        return _dt.date.fromisoformat(spec["v"])
    if k == "decimal":
        return decimal.Decimal(spec["v"])
    if k == "opaque":
        return Opaque()
    if k == "upload":
        return uploads[spec["u"]]
    if k == "list":
        return [build_value(s, uploads, shared) for s in spec["v"]]
    if k == "dict":
        return {key: build_value(s, uploads, shared) for key, s in spec["v"]}
    if k == "model":
        cls = m[spec["cls"]]
        return cls(**{name: build_value(s, uploads, shared) for name, s in spec["fields"]})
    raise ValueError(k)


def build_shared(specs: List[Dict[str, Any]], uploads: List[Any]) -> List[Any]:
    """the pool of shared container objects: entry i may reference entries < i (acyclic)"""
    pool: List[Any] = []
    for sp in specs:
        pool.append(build_value(sp, uploads, pool))
    return pool


def build_uploads(specs: List[Dict[str, Any]]) -> List[Any]:
    """one Upload object per entry; an entry with "stream_of": j wraps THE file object of upload j (another name for the same stream)"""
    Upload = models()["Upload"]
    out: List[Any] = []
    for u in specs:
        j = u.get("stream_of")
        content = out[j].content if j is not None else io.BytesIO(base64.b64decode(u["content_b64"]))
        out.append(Upload(filename=u["filename"], content=content, content_type=u["content_type"]))
    return out


def stream_ids(specs: List[Dict[str, Any]]) -> List[int]:
    return [u["stream_of"] if u.get("stream_of") is not None else i for i, u in enumerate(specs)]


class Built:
    def __init__(self, spec: Dict[str, Any]):
        m = models()
        self.spec = spec
        self.uploads = build_uploads(spec.get("uploads", []))
        self.upload_ids = {id(u): i for i, u in enumerate(self.uploads)}
        self.shared = build_shared(spec.get("shared", []), self.uploads)
        v = spec["variables"]
        self.variables: Optional[Dict[str, Any]] = None if v is None else {key: build_value(s, self.uploads, self.shared) for key, s in v}
        self.kwargs: Dict[str, Any] = {}
        if spec.get("headers") is not None:
            self.kwargs["headers"] = {k: val for k, val in spec["headers"]}
        for k, val in spec.get("kwargs", []):
            self.kwargs[k] = val
        self.query: str = spec["query"]
        self.op_name: Optional[str] = spec["opName"]


def step_call_spec(seq: Dict[str, Any], k: int) -> Dict[str, Any]:
    """the single call the caller WROTE as step k of a sequence (contents of the shared objects as built)"""
    st = seq["steps"][k]
    return {"query": st["query"], "opName": st["opName"],
            "variables": None if st["variables"] is None else seq["var_objs"][st["variables"]],
            "headers": None if st["headers"] is None else seq["hdr_objs"][st["headers"]],
            "kwargs": st.get("kwargs", []), "uploads": seq.get("uploads", []), "shared": seq.get("shared", [])}


class SeqBuilt:
    """the argument objects of a sequence of calls, built ONCE and shared by its steps"""

    def __init__(self, spec: Dict[str, Any]):
        m = models()
        self.spec = spec
        self.uploads = build_uploads(spec.get("uploads", []))
        self.upload_ids = {id(u): i for i, u in enumerate(self.uploads)}
        self.hdr_objs: List[Dict[str, str]] = [{k: v for k, v in hs} for hs in spec["hdr_objs"]]
        self.shared = build_shared(spec.get("shared", []), self.uploads)
        self.var_objs: List[Dict[str, Any]] = [{key: build_value(sv, self.uploads, self.shared) for key, sv in vs} for vs in spec["var_objs"]]
        self.enc = ObjEncoder(self.var_objs, self.upload_ids)   # addresses fixed before any call
        self.kw_objs: Dict[str, Any] = {}  # one object per distinct (keyword, value): shared by the steps that pass it
        for stp in spec["steps"]:
            for key, val in stp.get("kwargs", []):
                self.kw_value(key, val)

    def kw_value(self, key: str, val: Any) -> Any:
        if not isinstance(val, (dict, list)):
            return val
        ident = key + ":" + json.dumps(val, sort_keys=True)
        if ident not in self.kw_objs:
            self.kw_objs[ident] = json.loads(json.dumps(val))
        return self.kw_objs[ident]

    def step(self, k: int) -> "Built":
        st = self.spec["steps"][k]
        b = Built.__new__(Built)
        b.spec = step_call_spec(self.spec, k)
        b.uploads, b.upload_ids = self.uploads, self.upload_ids
        b.shared = self.shared
        b.variables = None if st["variables"] is None else self.var_objs[st["variables"]]
        b.kwargs = {}
        if st["headers"] is not None:
            b.kwargs["headers"] = self.hdr_objs[st["headers"]]
        for key, val in st.get("kwargs", []):
            b.kwargs[key] = self.kw_value(key, val)
        b.query, b.op_name = st["query"], st["opName"]
        return b

    def heap(self) -> Dict[str, Any]:
        """the caller's dicts in the wire form of the model's `Heap`"""
        return {"hdrs": [[[str(k), v] for k, v in d.items()] for d in self.hdr_objs],
                "vars": [[[str(k), to_pv(v, self.upload_ids)] for k, v in d.items()] for d in self.var_objs]}

    def objects(self) -> Dict[str, Any]:
        """the caller's objects in the wire form of the model's `OHeap` (addresses as fixed at construction)"""
        return {"hdrs": [[[str(k), v] for k, v in d.items()] for d in self.hdr_objs], "objs": self.enc.encode(),
                "ups": [[getattr(u, "filename", None), getattr(u, "content_type", None), st] for u, st in zip(self.uploads, stream_ids(self.spec.get("uploads", [])))]}

    def snapshot(self) -> Dict[str, Any]:
        """deep, by-value picture of everything the caller handed over (stream positions excluded: reading
        a file object is httpx's business and it rewinds before every send)"""
        return {**self.heap(), "objs": self.enc.encode(), "kw": {k: snap_value(v) for k, v in sorted(self.kw_objs.items())}, "uploads": snap_uploads(self.uploads)}


class ObjEncoder:
    """the list/dict objects reachable from the caller's variables dicts, BY IDENTITY, in the wire form of the model's
    `OStore`: address = order of first visit (fixed when the encoder is made), a value is {"ref": address} for a
    list/dict object and the PV wire form for anything else (a pydantic model is its dump: containers of its own).
    Re-encoding after a call uses the same addresses, so a changed content AND a changed aliasing structure both show."""

    def __init__(self, roots: List[Dict[str, Any]], upload_ids: Dict[int, int]):
        self.upload_ids = upload_ids
        self.addr: Dict[int, int] = {}
        self.objs: List[Any] = []       # keeps the objects alive: ids stay unique
        self.roots = [self._visit(r) for r in roots]
        self.encode()                   # discover everything reachable now

    def _visit(self, o: Any) -> int:
        if id(o) not in self.addr:
            self.addr[id(o)] = len(self.objs)
            self.objs.append(o)
        return self.addr[id(o)]

    def _val(self, v: Any) -> Dict[str, Any]:
        if type(v) in (list, dict):
            return {"ref": self._visit(v)}
        return to_pv(v, self.upload_ids)

    def encode(self) -> List[Dict[str, Any]]:
        out: List[Dict[str, Any]] = []
        i = 0
        while i < len(self.objs):       # objects discovered on the way are appended and encoded too
            o = self.objs[i]
            if type(o) is list:
                out.append({"t": "list", "v": [self._val(x) for x in o]})
            else:
                out.append({"t": "dict", "v": [[str(k), self._val(x)] for k, x in o.items()]})
            i += 1
        return out

    def aliased(self) -> int:
        """how many container objects are referenced from more than one place"""
        refs: Dict[int, int] = {}
        for o in self.encode():
            for x in (o["v"] if o["t"] == "list" else [kv[1] for kv in o["v"]]):
                if "ref" in x:
                    refs[x["ref"]] = refs.get(x["ref"], 0) + 1
        return sum(1 for n in refs.values() if n > 1)


def snap_value(v: Any) -> Any:
    if isinstance(v, dict):
        return {"dict": [[k if isinstance(k, str) else repr(k), snap_value(x)] for k, x in v.items()]}
    if isinstance(v, (list, tuple)):
        return {type(v).__name__: [snap_value(x) for x in v]}
    if v is None or type(v) in (bool, int, float, str):
        return v
    return repr(v)


def snap_uploads(uploads: List[Any]) -> List[Any]:
    out = []
    for u in uploads:
        c = getattr(u, "content", None)
        data = base64.b64encode(c.getvalue()).decode() if isinstance(c, io.BytesIO) else repr(c)
        out.append([getattr(u, "filename", None), getattr(u, "content_type", None), id(c), bool(getattr(c, "closed", False)), data])
    return out


def snap_call(b: "Built") -> str:
    """deep picture of the REAL objects one call is given (variables, every keyword argument, Uploads)"""
    variables = None if b.variables is None else [[str(k), to_pv(v, b.upload_ids)] for k, v in b.variables.items()]
    objs = ObjEncoder([] if b.variables is None else [b.variables], b.upload_ids).encode()   # contents AND aliasing
    return json.dumps({"variables": variables, "objs": objs, "kwargs": {k: snap_value(v) for k, v in b.kwargs.items()},
                       "uploads": snap_uploads(b.uploads)}, sort_keys=True, default=repr)


def changed_parts(before: Dict[str, Any], after: Dict[str, Any]) -> List[str]:
    names = {"hdrs": "headers-dict", "vars": "variables-dict", "objs": "list/dict object of the variables (contents or aliasing)",
             "kw": "keyword-argument-object", "uploads": "upload-object"}
    return [names[k] for k in ("hdrs", "vars", "objs", "kw", "uploads") if json.dumps(before.get(k), sort_keys=True, default=repr) != json.dumps(after.get(k), sort_keys=True, default=repr)]


# --------------------------------------------------------------------------------------------
# Python value -> PV wire form (third-party results computed with the real libraries)
# --------------------------------------------------------------------------------------------


def _jsonable(obj: Any) -> Tuple[bool, Any]:
    from pydantic_core import to_jsonable_python

    try:
        return True, json.loads(json.dumps(obj, default=to_jsonable_python))
    except Exception:  # noqa: BLE001 - PydanticSerializationError / TypeError / ValueError
        return False, None


def to_pv(obj: Any, ids: Dict[int, int]) -> Dict[str, Any]:
    m = models()
    if obj is None:
        return {"t": "none"}
    if obj is m["UNSET"]:
        return {"t": "unset"}
    if type(obj) is bool:
        return {"t": "bool", "v": obj}
    if type(obj) is int or (type(obj) is float and obj == obj and abs(obj) != float("inf")):
        return {"t": "num", "v": obj}
    if type(obj) is str:
        return {"t": "str", "v": obj}
    if isinstance(obj, list):
        return {"t": "list", "v": [to_pv(x, ids) for x in obj]}
    if isinstance(obj, dict):
        return {"t": "dict", "v": [[str(k), to_pv(v, ids)] for k, v in obj.items()]}
    if isinstance(obj, m["Upload"]):
        return {"t": "upload", "id": ids[id(obj)]}
    if isinstance(obj, m["BaseModel"]):
        out = {"t": "model", "dump": to_pv(obj.model_dump(by_alias=True, exclude_unset=True), ids)}
        ok, j = _jsonable(obj)
        if ok:
            out["json"] = wire.enc(j)
        return out
    ok, j = _jsonable(obj)
    out = {"t": "leaf"}
    if ok:
        out["json"] = wire.enc(j)
    return out


def model_line(b: Built, kind: str, tracer: Optional[str]) -> Dict[str, Any]:
    variables = None if b.variables is None else [[k, to_pv(v, b.upload_ids)] for k, v in b.variables.items()]
    return {
        "op": "execute", "kind": kind, "tracer": tracer is not None, "url": URL, "query": b.query, "opName": b.op_name,
        "variables": variables, "headers": b.spec.get("headers"),
        "kwargs": [[k, wire.enc(v)] for k, v in b.spec.get("kwargs", [])],
    }


# --------------------------------------------------------------------------------------------
# observing the real request
# --------------------------------------------------------------------------------------------


def parse_multipart(body: bytes) -> List[Dict[str, Any]]:
    first, _, _ = body.partition(b"\r\n")
    if not first.startswith(b"--"):
        raise ValueError("not multipart")
    delim = b"\r\n" + first
    sections = (b"\r\n" + body).split(delim)
    if sections[0] != b"" or sections[-1] not in (b"--\r\n", b"--"):
        raise ValueError("multipart framing")
    parts = []
    for sec in sections[1:-1]:
        head, sep_, content = sec[2:].partition(b"\r\n\r\n")
        if not sep_ or not sec.startswith(b"\r\n"):
            raise ValueError("multipart part framing")
        headers = {}
        for line in head.split(b"\r\n"):
            n, _, v = line.partition(b":")
            headers[n.strip().lower().decode("latin1")] = v.strip().decode("latin1")
        disp = headers.get("content-disposition", "")
        nm = re.search(r'name="([^"]*)"', disp)
        fn = re.search(r'filename="([^"]*)"', disp)
        parts.append({"name": nm.group(1) if nm else None, "filename": fn.group(1) if fn else None,
                      "content_type": headers.get("content-type"), "content": content})
    return parts


def raw_headers(request: httpx.Request) -> List[Tuple[str, str]]:
    return [(k.decode("latin1"), v.decode("latin1")) for k, v in request.headers.raw]


def request_ir(request: httpx.Request) -> Dict[str, Any]:
    """decode a captured httpx.Request; httpx's own encoding work is observed here, not modelled"""
    body = request.content
    url = str(request.url.copy_with(query=None))
    kw: Dict[str, Any] = {}
    timeout = request.extensions.get("timeout")
    if isinstance(timeout, dict):
        kw["timeout"] = timeout.get("read")
    if request.url.query:
        kw["params"] = dict(request.url.params)
    ir: Dict[str, Any] = {"method": request.method, "url": url, "raw_headers": raw_headers(request), "kw": kw}
    if body.startswith(b"--"):
        parts = parse_multipart(body)
        ir["r"] = "multipart"
        ir["part_names"] = [p["name"] for p in parts]
        fields = {p["name"]: p for p in parts if p["filename"] is None}
        ir["operations"] = json.loads(fields["operations"]["content"]) if "operations" in fields else None
        ir["map"] = json.loads(fields["map"]["content"]) if "map" in fields else None
        ir["files"] = [[p["name"], p["filename"], p["content_type"], base64.b64encode(p["content"]).decode()] for p in parts if p["filename"] is not None]
        ir["other_fields"] = sorted(k for k in fields if k not in ("operations", "map"))
    else:
        ir["r"] = "json"
        ir["body"] = json.loads(body)
    return ir


def client_deep(client: Any) -> str:
    """the contents (not just the identity) of the mutable things a client object holds: its attribute values,
    its `headers` dict, the default headers / params / cookies of its httpx client"""
    out: Dict[str, Any] = {}
    for k, v in vars(client).items():
        out[k] = snap_value(v) if isinstance(v, (dict, list, tuple, str, int, float, bool, type(None))) else type(v).__name__
    http = getattr(client, "http_client", None)
    try:
        out["http.headers"] = sorted(raw_pairs(http.headers.raw))
        out["http.params"] = str(http.params)
        out["http.cookies"] = sorted(http.cookies.items())
    except (AttributeError, TypeError) as e:
        out["http"] = "observer: %r" % e
    return json.dumps(out, sort_keys=True, default=repr)


def raw_pairs(raw: Any) -> List[List[str]]:
    return [[k.decode("latin1"), v.decode("latin1")] for k, v in raw]


_BASELINE: Dict[str, Dict[str, str]] = {}


def baseline_headers(r: str) -> Dict[str, str]:
    """what httpx itself puts on a POST of this kind for a client with CLIENT_HEADERS (third-party, observed):
    lower-cased field name -> value"""
    if r not in _BASELINE:
        with httpx.Client(headers=dict(CLIENT_HEADERS)) as c:
            if r == "json":
                req = c.build_request("POST", URL, content="{}")
            else:
                req = c.build_request("POST", URL, data={"operations": "{}", "map": "{}"}, files={"0": ("f", io.BytesIO(b"x"), "text/plain")})
        _BASELINE[r] = {k.lower(): v for k, v in raw_pairs(req.headers.raw)}
    return _BASELINE[r]


def headers_from_this_call_only(b: "Built", ir: Dict[str, Any]) -> Optional[str]:
    """every header field of the request comes from this call's `headers=`, from the client's configuration or
    from httpx — nothing left behind by another call; and a field this call does not supply has its configured value"""
    base = baseline_headers(ir["r"])
    caller = {k.lower() for k, _ in (b.spec.get("headers") or [])}
    volatile = {"content-length", "content-type", "transfer-encoding"}
    for name, val in ir["raw_headers"]:
        n = name.lower()
        if n in caller or n in volatile:
            continue
        if n not in base:
            return "header-not-from-this-call"
        if base[n] != val:
            return "configured-header-value-replaced"
    return None


class Rig:
    """the six real client configurations on MockTransports that record what they are asked to send"""

    def __init__(self) -> None:
        self.loop = asyncio.new_event_loop()
        self.captured: Dict[int, List[httpx.Request]] = {}
        self.clients: List[Tuple[str, Optional[str], Any]] = []
        for i, (kind, tracer) in enumerate(CONFIGS):
            self.captured[i] = []
            self.clients.append((kind, tracer, clients.make(kind, self._handler(i), url=URL, headers=dict(CLIENT_HEADERS), tracer=tracer)))

    def _handler(self, i: int) -> Any:
        def handler(request: httpx.Request) -> httpx.Response:
            request.read()
            self.captured[i].append(request)
            return httpx.Response(200, json={"data": {"ok": True}})

        return handler

    def execute(self, i: int, b: Built) -> Dict[str, Any]:
        kind, tracer, client = self.clients[i]
        self.captured[i].clear()
        before = dict(vars(client))
        deep_before = client_deep(client)
        try:
            if clients.is_async(kind):
                resp = self.loop.run_until_complete(client.execute(b.query, b.op_name, b.variables, **b.kwargs))
            else:
                resp = client.execute(b.query, b.op_name, b.variables, **b.kwargs)
        except (AttributeError, ImportError, NameError) as e:  # an internal was renamed: observer problem
            return {"r": "observer", "exc": f"{type(e).__name__}: {e}"}
        except Exception as e:  # noqa: BLE001
            if self.captured[i]:
                return {"r": "error-after-send", "exc": type(e).__name__}
            return {"r": "error", "exc": type(e).__name__}
        after = vars(client)
        if len(self.captured[i]) != 1:
            return {"r": "sent-%d-requests" % len(self.captured[i])}
        try:
            ir = request_ir(self.captured[i][0])
        except Exception as e:  # noqa: BLE001 - undecodable body
            return {"r": "undecodable", "exc": f"{type(e).__name__}: {e}", "body_latin1": self.captured[i][0].content[:300].decode("latin1")}
        ir["response_ok"] = isinstance(resp, httpx.Response) and resp.status_code == 200 and resp.json() == {"data": {"ok": True}}
        ir["client_unchanged"] = (before.keys() == after.keys() and all(before[k] is after[k] for k in before)
                                  and deep_before == client_deep(client))
        return ir

    def close(self) -> None:
        for kind, _, c in self.clients:
            try:
                if clients.is_async(kind):
                    self.loop.run_until_complete(c.http_client.aclose())
                else:
                    c.http_client.close()
            except Exception:  # noqa: BLE001
                pass
        self.loop.close()


# --------------------------------------------------------------------------------------------
# comparing with the model
# --------------------------------------------------------------------------------------------


def headers_restricted(raw: List[Tuple[str, str]], names: List[str]) -> List[List[str]]:
    wanted = {n.lower() for n in names}
    return sorted([k, v] for k, v in raw if k.lower() in wanted)


def impl_view(ir: Dict[str, Any], model_req: Dict[str, Any], b: Built) -> Dict[str, Any]:
    """the part of the real request the model speaks about, in the model's vocabulary"""
    r = ir.get("r")
    if "kw" in ir:
        passed = {k for k, _ in b.spec.get("kwargs", [])}
        ir = {**ir, "kw": {k: v for k, v in ir["kw"].items() if k in passed}}
    if r == "json":
        names = [k for k, _ in (model_req.get("headers") or [])] + ["Content-Type"]
        return {"r": "json", "url": ir["url"], "body": ir["body"], "headers": headers_restricted(ir["raw_headers"], names),
                "kwargs": ir["kw"]}
    if r == "multipart":
        names = [k for k, _ in (b.spec.get("headers") or [])]
        return {"r": "multipart", "url": ir["url"], "operations": ir["operations"], "map": ir["map"], "files": ir["files"],
                "headers": headers_restricted(ir["raw_headers"], names), "kwargs": ir["kw"]}
    if r == "error":
        return {"r": "error"}
    return {k: v for k, v in ir.items() if k in ("r", "exc")}


def model_view(model_req: Dict[str, Any], b: Built) -> Dict[str, Any]:
    r = model_req["r"]
    if r == "json":
        return {"r": "json", "url": model_req["url"], "body": wire.dec(model_req["body"]),
                "headers": sorted([k, v] for k, v in model_req["headers"]),
                "kwargs": {k: wire.dec(v) for k, v in model_req["kwargs"]}}
    if r == "multipart":
        ups = b.spec.get("uploads", [])
        return {"r": "multipart", "url": model_req["url"], "operations": wire.dec(model_req["operations"]),
                "map": wire.dec(model_req["map"]),
                "files": [[name, ups[i]["filename"], ups[i]["content_type"], ups[i]["content_b64"]] for name, i in model_req["files"]],
                "headers": sorted([k, v] for k, v in (model_req["headers"] or [])),
                "kwargs": {k: wire.dec(v) for k, v in model_req["kwargs"]}}
    return {"r": "error"}


def views_equal(a: Dict[str, Any], b: Dict[str, Any]) -> bool:
    if a.get("r") != b.get("r") or set(a) != set(b):
        return False
    for k in a:
        ordered = k in ("body", "operations", "map")
        if not common.same_json(a[k], b[k], ordered=ordered):
            return False
    return True


# --------------------------------------------------------------------------------------------
# the property, stated directly on Python objects and the captured request (oracle)
# --------------------------------------------------------------------------------------------


class Shape:
    """what the property's quantifier sees in a variables value, computed on the Python objects"""

    def __init__(self, b: Built):
        m = models()
        self.upload_paths: List[Tuple[Tuple[Any, ...], int]] = []  # (structured path, upload index), traversal order
        self.nested_unset = False
        self.unserialisable = False
        self.model_below_dict = False
        self.upload_in_model_below_dict = False
        self.nonstring_float = False
        self.dump_shares_containers = False   # third-party assumption of the object-level model, checked on every model seen
        top = {}
        for k, v in (b.variables or {}).items():
            if v is m["UNSET"]:
                continue
            top[k] = self._walk(v, (k,), b, below_dict=False, in_dump=False, hidden=False)
        self.ideal_nulled = top  # the ideal tree (models dumped everywhere) with Uploads replaced by None

    def _walk(self, v: Any, path: Tuple[Any, ...], b: Built, below_dict: bool, in_dump: bool, hidden: bool) -> Any:
        """below_dict: a raw (hand-built) dict lies between the top-level value and v; in_dump: v is part of a
        model's dump; hidden: v is part of the dump of a model that sits below a raw dict"""
        m = models()
        if isinstance(v, m["BaseModel"]):
            if below_dict and not in_dump:
                self.model_below_dict = True
                hidden = True
            dump = v.model_dump(by_alias=True, exclude_unset=True)
            if not in_dump and container_ids(dump) & container_ids([getattr(v, n, None) for n in type(v).model_fields]):
                self.dump_shares_containers = True
            return self._walk(dump, path, b, below_dict, True, hidden)
        if isinstance(v, list):
            return [self._walk(x, path + (i,), b, below_dict, in_dump, hidden) for i, x in enumerate(v)]
        if isinstance(v, dict):
            return {k: self._walk(x, path + (str(k),), b, below_dict or not in_dump, in_dump, hidden) for k, x in v.items()}
        if isinstance(v, m["Upload"]):
            self.upload_paths.append((path, b.upload_ids[id(v)]))
            if hidden:
                self.upload_in_model_below_dict = True
            return None
        if v is m["UNSET"]:
            self.nested_unset = True
            return None
        if v is None or type(v) in (bool, int, float, str):
            return v
        ok, _ = _jsonable(v)
        if not ok:
            self.unserialisable = True
        return v


def container_ids(v: Any, acc: Optional[set] = None) -> set:
    """ids of the list/dict objects reachable from v (through models' field values too)"""
    acc = set() if acc is None else acc
    if type(v) in (list, dict):
        if id(v) in acc:
            return acc
        acc.add(id(v))
        for x in (v.values() if type(v) is dict else v):
            container_ids(x, acc)
    elif isinstance(v, models()["BaseModel"]):
        for n in type(v).model_fields:
            container_ids(getattr(v, n, None), acc)
    return acc


def render(path: Tuple[Any, ...]) -> str:
    return ".".join(["variables", *[str(p) for p in path]])


def resolve(tree: Any, path: Tuple[Any, ...]) -> Tuple[bool, Any]:
    cur = tree
    for p in path:
        if isinstance(p, int):
            if not isinstance(cur, list) or p >= len(cur):
                return False, None
            cur = cur[p]
        else:
            if not isinstance(cur, dict) or p not in cur:
                return False, None
            cur = cur[p]
    return True, cur


def caller_headers_ok(b: Built, ir: Dict[str, Any]) -> Optional[str]:
    """caller-supplied headers are merged and win (HTTP field names are case-insensitive)"""
    hs = b.spec.get("headers") or []
    lower = [k.lower() for k, _ in hs]
    for k, v in hs:
        if lower.count(k.lower()) > 1:
            continue  # the caller's own dict names the field twice: nothing can "win"
        got = [val for name, val in ir["raw_headers"] if name.lower() == k.lower()]
        if got != [v]:
            return "caller-content-type-does-not-win" if k.lower() == "content-type" else "caller-header-does-not-win"
    return None


def py_triggers(b: Built, shape: Shape) -> Dict[str, bool]:
    hs = b.spec.get("headers") or []
    f1 = any(k.lower() == "content-type" and k != "Content-Type" for k, _ in hs) and not shape.upload_paths
    return {TRIG_F1: f1, TRIG_F2: shape.upload_in_model_below_dict}


def py_valid(b: Built, shape: Shape) -> bool:
    hs = b.spec.get("headers") or []
    lower = [k.lower() for k, _ in hs]
    return not shape.nested_unset and not shape.unserialisable and len(set(lower)) == len(lower)


def oracle(b: Built, shape: Shape, ir: Dict[str, Any]) -> Optional[str]:
    """Returns a failure signature, or None.  Only called for inputs inside the property's quantifier."""
    from pydantic_core import to_jsonable_python

    r = ir.get("r")
    if r not in ("json", "multipart"):
        return "no-request-sent:" + str(ir.get("exc", r))
    if ir["method"] != "POST" or ir["url"] != URL:
        return "wrong-method-or-url"
    if not ir.get("response_ok"):
        return "response-not-returned"
    if not ir.get("client_unchanged"):
        return "client-object-modified"
    sig = caller_headers_ok(b, ir) or headers_from_this_call_only(b, ir)
    if sig:
        return sig
    for k, v in b.spec.get("kwargs", []):
        if k in ("timeout", "params") and not common.same_json(ir["kw"].get(k), v):
            return "keyword-argument-not-passed-through"
    payload = ir["body"] if r == "json" else ir["operations"]
    if not isinstance(payload, dict) or sorted(payload.keys()) != ["operationName", "query", "variables"]:
        return "body-keys-not-exactly-query-operationName-variables"
    if payload["query"] != b.query or payload["operationName"] != b.op_name or not isinstance(payload["variables"], dict):
        return "body-members-altered"
    comparable = not shape.model_below_dict  # a model below a raw dict is serialised by pydantic_core's default, not by its dump
    if comparable:
        want = json.loads(json.dumps(shape.ideal_nulled, default=to_jsonable_python))
        if not common.same_json(payload["variables"], want):
            return "unrelated-positions-changed"
    if not shape.upload_paths:
        if r != "json":
            return "multipart-without-upload"
        cts = [v for k, v in ir["raw_headers"] if k.lower() == "content-type"]
        caller_ct = [v for k, v in (b.spec.get("headers") or []) if k.lower() == "content-type"]
        if not caller_ct and cts != ["application/json"]:
            return "content-type-not-application-json"
        return None
    if r != "multipart":
        return "upload-present-but-not-multipart"
    caller_ct = [v for k, v in (b.spec.get("headers") or []) if k.lower() == "content-type"]
    cts = [v for k, v in ir["raw_headers"] if k.lower() == "content-type"]
    if not caller_ct and not (len(cts) == 1 and cts[0].startswith("multipart/form-data; boundary=")):
        return "content-type-not-multipart-form-data"
    if ir["other_fields"] or ir["operations"] is None or not isinstance(ir["map"], dict):
        return "multipart-fields-not-operations-map-files"
    if ir["part_names"][:2] != ["operations", "map"]:
        return "operations-and-map-not-first"
    # every file position is null in operations
    for path, _ in shape.upload_paths:
        found, val = resolve(payload["variables"], path)
        if not found or val is not None:
            return "file-position-not-null"
    # map lists exactly those paths, grouped by distinct Upload; each distinct Upload is sent once
    by_upload: Dict[int, List[str]] = {}
    for path, u in shape.upload_paths:
        by_upload.setdefault(u, []).append(render(path))
    listed = [p for ps in ir["map"].values() for p in (ps if isinstance(ps, list) else [ps])]
    if sorted(listed) != sorted(p for ps in by_upload.values() for p in ps):
        return "map-paths-differ-from-upload-positions"
    if len(ir["files"]) != len(by_upload) or sorted(f[0] for f in ir["files"]) != sorted(ir["map"].keys()):
        return "distinct-upload-not-sent-exactly-once"
    ups = b.spec.get("uploads", [])
    for name, filename, ctype, content in ir["files"]:
        paths = ir["map"][name]
        owners = [u for u, ps in by_upload.items() if sorted(ps) == sorted(paths)]
        if not owners:
            return "map-entry-mixes-uploads"
        if not any([ups[u]["filename"], ups[u]["content_type"], ups[u]["content_b64"]] == [filename, ctype, content] for u in owners):
            return "file-part-is-not-the-mapped-upload"
    return None


# --------------------------------------------------------------------------------------------
# generators
# --------------------------------------------------------------------------------------------


class Gen:
    def __init__(self, rng: Any, profile: str = "mixed"):
        self.rng = rng
        self.uploads: List[Dict[str, Any]] = []
        self.shared: List[Dict[str, Any]] = []   # pool of list/dict OBJECTS that may be referenced from several places
        self.profile = profile

    def upload_ref(self) -> Dict[str, Any]:
        rng = self.rng
        if self.uploads and (rng.random() < 0.45 or len(self.uploads) >= 4):
            return {"k": "upload", "u": rng.randrange(len(self.uploads))}
        content = rng.choice([b"", b"abc", b"\x00\xff\r\n--x", b"--boundary\r\n", bytes(rng.randrange(256) for _ in range(rng.randint(1, 40)))])
        if self.uploads and rng.random() < 0.06:
            # another Upload object around THE SAME file object as an earlier one, under another name (httpx rewinds
            # a stream before it reads it, so both parts carry the bytes)
            j = rng.randrange(len(self.uploads))
            j = self.uploads[j].get("stream_of", j) if self.uploads[j].get("stream_of") is not None else j
            self.uploads.append({"filename": "alias-%d.dat" % len(self.uploads), "content_type": rng.choice(["text/plain", "application/octet-stream"]),
                                 "content_b64": self.uploads[j]["content_b64"], "stream_of": j})
            return {"k": "upload", "u": len(self.uploads) - 1}
        twin = rng.random() if self.uploads else 1.0
        # a DISTINCT object that looks like an earlier one: identical attributes and bytes (< 0.15), or the same file
        # name and content type with different bytes (< 0.3: "photo.jpg picked from two folders")
        src = rng.choice(self.uploads) if twin < 0.3 else None
        own_bytes = base64.b64encode(content + b"#%d" % len(self.uploads)).decode() if twin >= 0.15 and src else None
        self.uploads.append({
            "filename": src["filename"] if src else rng.choice(["a.txt", "img.png", "no ext", "f-%d.bin" % len(self.uploads)]),
            "content_type": src["content_type"] if src else rng.choice(["text/plain", "image/png", "application/octet-stream"]),
            "content_b64": (own_bytes or src["content_b64"]) if src else base64.b64encode(content).decode(),
        })
        return {"k": "upload", "u": len(self.uploads) - 1}

    def shared_ref(self, depth: int) -> Dict[str, Any]:
        """a list/dict OBJECT of the pool: an existing one (the same object at one more place) or a new one.  The
        content of a new one is generated first and may reference earlier pool objects only, so the graph is acyclic."""
        rng = self.rng
        if self.shared and (rng.random() < 0.55 or len(self.shared) >= 4):
            return {"k": "shared", "i": rng.randrange(len(self.shared))}
        if rng.random() < 0.6:
            keys = rng.sample(KEYS, rng.randint(1, 3))
            body: Dict[str, Any] = {"k": "dict", "v": [[k, self.upload_ref() if rng.random() < 0.45 else self.raw(depth + 1, "infield")] for k in keys]}
        else:
            body = {"k": "list", "v": [self.upload_ref() if rng.random() < 0.45 else self.raw(depth + 1, "infield") for _ in range(rng.randint(1, 3))]}
        self.shared.append(body)
        return {"k": "shared", "i": len(self.shared) - 1}

    def scalar(self) -> Dict[str, Any]:
        rng = self.rng
        r = rng.random()
        if r < 0.18:
            return {"k": "none"}
        if r < 0.3:
            return {"k": "bool", "v": rng.random() < 0.5}
        if r < 0.48:
            return {"k": "int", "v": rng.choice(INTS)}
        if r < 0.58:
            return {"k": "float", "v": rng.choice(FLOATS)}
        if r < 0.8:
            return {"k": "str", "v": rng.choice(STRS)}
        if r < 0.87:
            return {"k": "color", "v": rng.choice(["RED", "GREEN"])}
        if r < 0.91:
            return {"k": "level", "v": rng.choice([1, 2])}
        if r < 0.96:
            return {"k": "datetime", "v": rng.choice(DATETIMES)}
        if r < 0.98:
            return {"k": "date", "v": rng.choice(DATES)}
        return {"k": "decimal", "v": rng.choice(["1.50", "-7"])}

    def model(self, cls: str, depth: int, ctx: str) -> Dict[str, Any]:
        rng = self.rng
        fields = []
        names = list(FIELDS[cls].items())
        rng.shuffle(names)
        for name, kind in names:
            if kind == "str":
                fields.append([name, {"k": "str", "v": rng.choice(STRS)}])
                continue
            if rng.random() < 0.5:
                continue  # stays unset (exclude_unset drops it)
            fields.append([name, self.field(kind, depth, ctx)])
        return {"k": "model", "cls": cls, "fields": fields}

    def field(self, kind: str, depth: int, ctx: str) -> Dict[str, Any]:
        rng = self.rng
        if kind.endswith("?") and rng.random() < 0.15:
            return {"k": "none"}
        kind = kind.rstrip("?")
        if kind == "upload":
            return self.upload_ref()
        if kind == "str":
            return {"k": "str", "v": rng.choice(STRS)}
        if kind == "int":
            return {"k": "int", "v": rng.choice(INTS[:5])}
        if kind == "float":
            return {"k": "float", "v": rng.choice(FLOATS + [2, 0])}
        if kind == "bool":
            return {"k": "bool", "v": rng.random() < 0.5}
        if kind == "datetime":
            return {"k": "datetime", "v": rng.choice(DATETIMES)}
        if kind == "date":
            return {"k": "date", "v": rng.choice(DATES)}
        if kind == "color":
            return {"k": "color", "v": rng.choice(["RED", "GREEN"])}
        if kind == "strlist":
            return {"k": "list", "v": [{"k": "str", "v": rng.choice(STRS)} for _ in range(rng.randint(0, 3))]}
        if kind == "uploadlist":
            return {"k": "list", "v": [self.upload_ref() if rng.random() < 0.75 else {"k": "none"} for _ in range(rng.randint(0, 3))]}
        if kind == "Inner":
            return self.model("Inner", depth + 1, ctx)
        if kind == "Innerlist":
            return {"k": "list", "v": [self.model("Inner", depth + 1, ctx) if rng.random() < 0.8 else {"k": "none"} for _ in range(rng.randint(0, 3))]}
        if kind == "any":
            return self.raw(depth + 1, "infield")
        raise ValueError(kind)

    def raw(self, depth: int, ctx: str) -> Dict[str, Any]:
        """an untyped value (a hand-built dict / an Any-typed custom scalar): anything may sit anywhere"""
        rng = self.rng
        if depth <= 4 and self.profile != "noupload" and rng.random() < 0.14:
            return self.shared_ref(depth)
        r = rng.random()
        if depth > 4 or r < 0.3:
            return self.scalar()
        if r < 0.45:
            return self.upload_ref()
        if r < 0.62:
            return {"k": "list", "v": [self.raw(depth + 1, ctx) for _ in range(rng.randint(0, 3))]}
        if r < 0.88:
            keys = rng.sample(KEYS, rng.randint(0, 3))
            return {"k": "dict", "v": [[k, self.raw(depth + 1, "indict" if ctx != "infield" else ctx)] for k in keys]}
        if r < 0.95 and ctx != "infield":
            return self.model(rng.choice(["Inner", "Outer"]), depth + 1, ctx)
        if r < 0.975 and ctx != "infield":
            return {"k": "unset"}      # nested UNSET: outside the quantifier (model compared only)
        if r < 0.99:
            return {"k": "opaque"}     # unserialisable object: outside the quantifier (model compared only)
        return self.scalar()

    def typed(self, depth: int) -> Dict[str, Any]:
        """a value as a generated client method would place it in the variables dict"""
        rng = self.rng
        if rng.random() < 0.07:
            return self.shared_ref(depth)    # a list / dict object that is (or may become) referenced elsewhere too
        r = rng.random()
        if r < 0.22:
            return self.scalar()
        if r < 0.32:
            return {"k": "unset"}
        if r < 0.5:
            return self.upload_ref()
        if r < 0.72:
            return self.model(rng.choice(["Inner", "Outer"]), depth + 1, "typed")
        if r < 0.9 and depth < 3:
            return {"k": "list", "v": [self.typed(depth + 1) if rng.random() < 0.9 else {"k": "none"} for _ in range(rng.randint(0, 3))]}
        return self.raw(depth + 1, "typed")

    def headers(self) -> Optional[List[List[str]]]:
        rng = self.rng
        if rng.random() < 0.35:
            return None
        hs: Dict[str, str] = {}
        for _ in range(rng.randint(0, 3)):
            hs[rng.choice(HEADER_NAMES)] = rng.choice(["v1", "Bearer t", "application/xml", ""])
        if rng.random() < 0.35:
            hs[rng.choice(CT_SPELLINGS)] = rng.choice(CT_VALUES)
        items = list(hs.items())
        rng.shuffle(items)
        return [[k, v] for k, v in items]

    def call(self, n: int) -> Dict[str, Any]:
        rng = self.rng
        r = rng.random()
        if r < 0.04:
            variables: Optional[List[Any]] = None
        elif r < 0.08:
            variables = []
        elif r < 0.12:
            variables = [[k, {"k": "unset"}] for k in rng.sample(KEYS, rng.randint(1, 3))]
        else:
            keys = rng.sample(KEYS, rng.randint(1, 4))
            variables = []
            for k in keys:
                if self.profile == "noupload":
                    v = self.scalar() if rng.random() < 0.6 else {"k": "list", "v": [self.scalar() for _ in range(rng.randint(0, 3))]}
                else:
                    v = self.typed(0)
                variables.append([k, v])
        kwargs: List[List[Any]] = []
        if rng.random() < 0.4:
            kwargs.append(["timeout", rng.choice([3, 7.5, 0.25])])
        if rng.random() < 0.2:
            kwargs.append(["params", {"tenant": rng.choice(["t1", "t 2"])}])
        op = rng.choice(["Q%d" % n, None, "upload_File"])
        return {"query": "query Q%d { x%d }" % (n, rng.randrange(100)), "opName": op, "variables": variables,
                "headers": self.headers(), "kwargs": kwargs, "uploads": self.uploads, "shared": self.shared}


def gen_call(rng: Any, n: int) -> Dict[str, Any]:
    return Gen(rng, "noupload" if rng.random() < 0.15 else "mixed").call(n)


def gen_sequence(rng: Any, n: int) -> Dict[str, Any]:
    """2-5 calls that draw their `variables` / `headers=` objects (and Uploads, params dicts) from one small pool:
    the same object is handed to several calls, JSON and multipart calls mixed, on one configuration
    (`uniform`: the whole sequence is run once per configuration and the six runs are compared) or hopping
    between the six configurations"""
    g = Gen(rng, "mixed")
    hdr_objs: List[List[List[str]]] = []
    for _ in range(rng.randint(1, 2)):
        hs = g.headers()
        if hs is None:
            hs = [] if rng.random() < 0.3 else [[rng.choice(HEADER_NAMES), rng.choice(["v1", "Bearer t"])]]
        hdr_objs.append(hs)
    var_objs: List[List[Any]] = []
    n_var = rng.randint(1, 3)
    for j in range(n_var):
        g.profile = "noupload" if rng.random() < (0.6 if j == 0 else 0.25) else "mixed"
        vs = g.call(n)["variables"]
        if vs is None:
            vs = []
        if g.profile == "mixed" and rng.random() < 0.5 and not any(k == "file" for k, _ in vs):
            vs.append(["file", g.upload_ref()])
        var_objs.append(vs)
    if rng.random() < 0.4:
        # one list/dict object of the pool under a key of one or two of the variables dicts (and possibly under two keys
        # of the same dict, and once more inside a fresh list)
        g.profile = "mixed"
        ref = g.shared_ref(1)
        for vs in rng.sample(var_objs, min(len(var_objs), rng.randint(1, 2))):
            for key in rng.sample(["shared_", "sharedAgain"], rng.randint(1, 2)):
                if not any(k == key for k, _ in vs):
                    vs.append([key, ref if rng.random() < 0.7 else {"k": "list", "v": [ref, {"k": "none"}]}])
    uniform = rng.random() < 0.5
    cfg0 = rng.randrange(len(CONFIGS))
    params = {"tenant": rng.choice(["t1", "t 2"])}
    steps = []
    for k in range(rng.randint(2, 5)):
        kwargs: List[List[Any]] = []
        if rng.random() < 0.3:
            kwargs.append(["timeout", rng.choice([3, 7.5, 0.25])])
        if rng.random() < 0.3:
            kwargs.append(["params", params])
        steps.append({
            "query": "query S%d_%d { x }" % (n, k), "opName": rng.choice(["S%d" % n, None, "upload_File"]),
            "variables": None if rng.random() < 0.08 else rng.randrange(n_var),
            "headers": None if rng.random() < 0.12 else rng.randrange(len(hdr_objs)),
            "kwargs": kwargs, "config": cfg0 if rng.random() < 0.4 else rng.randrange(len(CONFIGS)),
        })
    return {"uniform": uniform, "uploads": g.uploads, "shared": g.shared, "hdr_objs": hdr_objs, "var_objs": var_objs, "steps": steps}


HAND_SEQUENCES: List[Dict[str, Any]] = [
    # one headers dict: JSON call, then a call with an Upload, then the JSON call again (one variables dict twice)
    {"uniform": True, "uploads": [{"filename": "a.txt", "content_type": "text/plain", "content_b64": "YWJj"}],
     "hdr_objs": [[["Authorization", "Bearer t"]]],
     "var_objs": [[["n", {"k": "int", "v": 1}]], [["file", {"k": "upload", "u": 0}], ["again", {"k": "list", "v": [{"k": "upload", "u": 0}]}]]],
     "steps": [{"query": "query P { p }", "opName": "P", "variables": 0, "headers": 0, "kwargs": [], "config": 0},
               {"query": "mutation U { u }", "opName": "U", "variables": 1, "headers": 0, "kwargs": [["params", {"tenant": "t1"}]], "config": 0},
               {"query": "query P { p }", "opName": "P", "variables": 0, "headers": 0, "kwargs": [["params", {"tenant": "t1"}]], "config": 0},
               {"query": "mutation U { u }", "opName": "U", "variables": 1, "headers": None, "kwargs": [], "config": 0}]},
    # the same objects hopping over the six configurations, an empty headers dict, a raw dict + a model in the variables
    {"uniform": False, "uploads": [{"filename": "p.png", "content_type": "image/png", "content_b64": "AP8NCi0teA=="}],
     "hdr_objs": [[], [["X-Trace", "1"], ["Content-Type", "application/graphql-response+json"]]],
     "var_objs": [[["where", {"k": "dict", "v": [["f", {"k": "upload", "u": 0}], ["n", {"k": "none"}]]}],
                   ["m", {"k": "model", "cls": "Inner", "fields": [["file_", {"k": "upload", "u": 0}], ["note", {"k": "str", "v": "n"}]]}]],
                  [["where", {"k": "dict", "v": [["n", {"k": "int", "v": 0}]]}]]],
     "steps": [{"query": "query A { a }", "opName": None, "variables": 1, "headers": 0, "kwargs": [], "config": 1},
               {"query": "mutation B { b }", "opName": "B", "variables": 0, "headers": 0, "kwargs": [], "config": 4},
               {"query": "query C { c }", "opName": "C", "variables": 1, "headers": 1, "kwargs": [["timeout", 3]], "config": 5},
               {"query": "mutation D { d }", "opName": "D", "variables": 0, "headers": 1, "kwargs": [], "config": 2},
               {"query": "query E { e }", "opName": "E", "variables": None, "headers": 0, "kwargs": [], "config": 3}]},
]


HAND_SEQUENCES += [
    # a retry: the Upload sits in the caller's own nested dict (not top-level, not in a model) and the SAME variables are sent twice,
    # then once more through another client
    {"uniform": True, "uploads": [{"filename": "notes.txt", "content_type": "text/plain", "content_b64": "YXR0YWNobWVudC1ieXRlcw=="}], "shared": [],
     "hdr_objs": [[]],
     "var_objs": [[["input", {"k": "dict", "v": [["title", {"k": "str", "v": "hello"}],
                                                ["attachment", {"k": "dict", "v": [["file", {"k": "upload", "u": 0}], ["tags", {"k": "list", "v": [{"k": "str", "v": "a"}]}]]}]]}]]],
     "steps": [{"query": "mutation Send { send }", "opName": "Send", "variables": 0, "headers": None, "kwargs": [], "config": 0},
               {"query": "mutation Send { send }", "opName": "Send", "variables": 0, "headers": None, "kwargs": [], "config": 0},
               {"query": "mutation Send { send }", "opName": "Send", "variables": 0, "headers": 0, "kwargs": [], "config": 3}]},
    # ONE dict object referenced from two places of one variables dict (directly and inside a list), from a second
    # variables dict and from a list object that is itself shared; two distinct Uploads with equal name and type
    {"uniform": False,
     "uploads": [{"filename": "photo.jpg", "content_type": "image/jpeg", "content_b64": "ZnJvbnQ="}, {"filename": "photo.jpg", "content_type": "image/jpeg", "content_b64": "YmFjay1zaWRl"}],
     "shared": [{"k": "dict", "v": [["file", {"k": "upload", "u": 0}], ["caption", {"k": "str", "v": "same attachment"}]]},
                {"k": "list", "v": [{"k": "shared", "i": 0}, {"k": "upload", "u": 1}]}],
     "hdr_objs": [[["Authorization", "Bearer t"]]],
     "var_objs": [[["input", {"k": "dict", "v": [["primary", {"k": "shared", "i": 0}], ["copies", {"k": "list", "v": [{"k": "shared", "i": 0}]}]]}]],
                  [["again", {"k": "shared", "i": 0}], ["all", {"k": "shared", "i": 1}], ["all2", {"k": "shared", "i": 1}]]],
     "steps": [{"query": "mutation A { a }", "opName": "A", "variables": 0, "headers": 0, "kwargs": [], "config": 0},
               {"query": "mutation B { b }", "opName": "B", "variables": 1, "headers": 0, "kwargs": [], "config": 5},
               {"query": "mutation A { a }", "opName": "A", "variables": 0, "headers": None, "kwargs": [], "config": 1},
               {"query": "mutation B { b }", "opName": "B", "variables": 1, "headers": 0, "kwargs": [], "config": 2}]},
]


HAND_CASES: List[Dict[str, Any]] = [
    {"query": "query A { a }", "opName": "A", "variables": None, "headers": None, "kwargs": [], "uploads": []},
    {"query": "query A { a }", "opName": None, "variables": [], "headers": [["Content-Type", "application/graphql-response+json"]], "kwargs": [["timeout", 3]], "uploads": []},
    {"query": "mutation U($f: Upload!) { u(f: $f) }", "opName": "U", "variables": [["f", {"k": "upload", "u": 0}]], "headers": None, "kwargs": [],
     "uploads": [{"filename": "a.txt", "content_type": "text/plain", "content_b64": "YWJj"}]},
    {"query": "mutation U { u }", "opName": "U", "headers": [["X-Trace", "1"]], "kwargs": [["timeout", 7.5]],
     "variables": [["a", {"k": "upload", "u": 0}], ["b", {"k": "list", "v": [{"k": "upload", "u": 0}, {"k": "dict", "v": [["c", {"k": "upload", "u": 1}]]}]}],
                   ["m", {"k": "model", "cls": "Outer", "fields": [["id_", {"k": "str", "v": "1"}], ["inner", {"k": "model", "cls": "Inner", "fields": [["file_", {"k": "upload", "u": 1}]]}],
                                                               ["files", {"k": "list", "v": [{"k": "upload", "u": 0}, {"k": "none"}, {"k": "upload", "u": 2}]}]]}],
                   ["z", {"k": "unset"}]],
     "uploads": [{"filename": "a.txt", "content_type": "text/plain", "content_b64": "YWJj"}, {"filename": "a.txt", "content_type": "text/plain", "content_b64": "YWJj"},
                 {"filename": "p.png", "content_type": "image/png", "content_b64": "AP8NCi0teA=="}]},
    {"query": "query A { a }", "opName": "A", "variables": [["where", {"k": "dict", "v": [["m", {"k": "model", "cls": "Inner", "fields": [["note", {"k": "str", "v": "n"}]]}]]}]],
     "headers": None, "kwargs": [], "uploads": []},
    # two DIFFERENT files that share file name and content type (one in a list of a model, one more reference to the first)
    {"query": "mutation Album { album }", "opName": "Album", "headers": None, "kwargs": [],
     "variables": [["input", {"k": "model", "cls": "Outer", "fields": [["id_", {"k": "str", "v": "holiday"}], ["files", {"k": "list", "v": [{"k": "upload", "u": 0}, {"k": "upload", "u": 1}]}]]}],
                   ["cover", {"k": "upload", "u": 0}]],
     "uploads": [{"filename": "photo.jpg", "content_type": "image/jpeg", "content_b64": "ZnJvbnQtc2lkZS1ieXRlcw=="},
                 {"filename": "photo.jpg", "content_type": "image/jpeg", "content_b64": "YmFjay1zaWRlLWJ5dGVzLWFyZS1kaWZmZXJlbnQ="}]},
    # one dict object at two places of ONE call, and the same list object under two variables
    {"query": "mutation Send { send }", "opName": "Send", "headers": None, "kwargs": [],
     "shared": [{"k": "dict", "v": [["file", {"k": "upload", "u": 0}], ["caption", {"k": "str", "v": "same attachment"}]]},
                {"k": "list", "v": [{"k": "upload", "u": 0}, {"k": "shared", "i": 0}]}],
     "variables": [["input", {"k": "dict", "v": [["primary", {"k": "shared", "i": 0}], ["copies", {"k": "list", "v": [{"k": "shared", "i": 0}]}]]}],
                   ["l1", {"k": "shared", "i": 1}], ["l2", {"k": "shared", "i": 1}]],
     "uploads": [{"filename": "notes.txt", "content_type": "text/plain", "content_b64": "YXR0YWNobWVudC1ieXRlcw=="}]},
]


# --------------------------------------------------------------------------------------------
# judging
# --------------------------------------------------------------------------------------------


def spec_stats(spec: Dict[str, Any], res: Result) -> None:
    pool = spec.get("shared", [])
    refs: Dict[int, int] = {}

    def walk(s: Dict[str, Any], depth: int) -> int:
        res.count("node:" + s["k"])
        d = depth
        if s["k"] == "shared":
            refs[s["i"]] = refs.get(s["i"], 0) + 1
            if refs[s["i"]] == 1:     # the object's content is counted once
                d = max(d, walk(pool[s["i"]], depth))
        elif s["k"] == "list":
            for x in s["v"]:
                d = max(d, walk(x, depth + 1))
        elif s["k"] == "dict":
            for _, x in s["v"]:
                d = max(d, walk(x, depth + 1))
        elif s["k"] == "model":
            for _, x in s["fields"]:
                d = max(d, walk(x, depth + 1))
        return d

    v = spec["variables"]
    if v is None:
        res.count("variables:None")
    elif not v:
        res.count("variables:{}")
    else:
        depth = max(walk(x, 1) for _, x in v)
        res.count("depth:%d" % min(depth, 6))
        if any(n > 1 for n in refs.values()):
            res.count("aliasing:one-list/dict-object-at-several-places-of-one-call")
        if all(x["k"] == "unset" for _, x in v):
            res.count("variables:all-UNSET")


def flooded(res: Result) -> bool:
    """enough evidence either way: many failures outside every finding region, or many mismatches"""
    return sum(1 for f in res.failures if f.trigger is None) > 60 or len(res.mismatches) > 400


def judge(ctx: Ctx, st: Optional[LeanStatus], specs: List[Dict[str, Any]], res: Result, rig: Rig) -> None:
    use_model = st is not None and st.driver_ok
    builts0 = [Built(s) for s in specs]
    model_out: Optional[List[Any]] = None
    if use_model:
        lines = []
        for b in builts0:
            for kind, tracer in CONFIGS:
                lines.append(model_line(b, kind, tracer))
        model_out = common.run_driver(ctx.prop, lines)
    for n, spec in enumerate(specs):
        if flooded(res):
            return  # the verdict is settled; do not keep driving code that is visibly broken
        b0 = builts0[n]
        shape = Shape(b0)
        trig = py_triggers(b0, shape)
        valid = py_valid(b0, shape)
        in_scope = valid
        spec_stats(spec, res)
        if shape.dump_shares_containers:
            res.mismatches.append(Mismatch("pydantic-model_dump-returns-containers-of-its-own", {"call": spec}, "a list/dict of the dump IS an object the model holds", "fresh containers"))
        ups_here = sorted({u for _, u in shape.upload_paths})
        specs_u = spec.get("uploads", [])
        if any(a < b_ and (specs_u[a]["filename"], specs_u[a]["content_type"]) == (specs_u[b_]["filename"], specs_u[b_]["content_type"])
               for a in ups_here for b_ in ups_here):
            res.count("uploads:two-distinct-objects-with-equal-name-and-type-in-one-call")
        streams = [specs_u[u].get("stream_of", u) if specs_u[u].get("stream_of") is not None else u for u in ups_here]
        if len(set(streams)) < len(streams):
            res.count("uploads:two-distinct-objects-around-one-file-object-in-one-call")
        res.count("uploads:distinct=%d" % min(len({u for _, u in shape.upload_paths}), 4))
        if len(shape.upload_paths) > len({u for _, u in shape.upload_paths}):
            res.count("uploads:one-object-at-several-paths")
        res.count("in-quantifier" if in_scope else "outside-quantifier (nested UNSET / unserialisable leaf / caller header dict names a field twice; model compared only)")
        for t, on in trig.items():
            if on:
                res.count("trigger:" + t)
        views = []
        for i, (kind, tracer) in enumerate(CONFIGS):
            b = Built(spec)  # fresh objects (fresh Upload streams) for every real call
            snap_before = snap_call(b)
            ir = rig.execute(i, b)
            snap_after = snap_call(b)
            case = {"call": spec, "kind": kind, "tracer": tracer}
            res.count("request:" + str(ir.get("r")))
            if ir.get("r") == "observer":
                res.mismatches.append(Mismatch("execute", case, "observer: " + ir["exc"], None))
                continue
            if ir.get("r") == "error":
                res.count("exception:" + ir["exc"])
            if snap_before != snap_after and in_scope:
                res.failures.append(Failure("caller-arguments-modified", None, case,
                                            "an object passed to execute (variables / a keyword argument such as headers= / an Upload) is not what it was before the call"))
            sig = None
            if in_scope:
                sig = oracle(b, shape, ir)
                if sig:
                    t = None
                    if sig == "caller-content-type-does-not-win" and trig[TRIG_F1]:
                        t = TRIG_F1
                    elif sig.startswith("no-request-sent:PydanticSerializationError") and trig[TRIG_F2]:
                        t, sig = TRIG_F2, "no-request-sent"
                    res.failures.append(Failure(sig, t, case, f"{kind}/tracer={tracer}: {json.dumps(impl_summary(ir), default=repr)[:400]}"))
            if model_out is not None:
                mo = model_out[n * len(CONFIGS) + i]
                mv = model_view(mo["request"], b)
                iv = impl_view(ir, mo["request"], b)
                if not views_equal(iv, mv):
                    # inside a finding region where the implementation now satisfies the property the
                    # disagreement means "finding no longer reproduces", not a broken tie (DESIGN.md §1.4)
                    region = next((t for t in (TRIG_F2, TRIG_F1) if trig[t]), None)
                    res.mismatches.append(Mismatch("execute", case, iv, mv, trigger=region if (in_scope and sig is None) else None))
                if ir.get("r") in ("json", "multipart") and mo["client_unchanged"] != ir.get("client_unchanged"):
                    res.mismatches.append(Mismatch("client-frame", case, ir.get("client_unchanged"), mo["client_unchanged"]))
                if i == 0:
                    for t in (TRIG_F1, TRIG_F2):
                        if mo[t] != trig[t]:
                            res.mismatches.append(Mismatch("trigger-agreement:" + t, case, trig[t], mo[t]))
                    if mo["valid"] != valid:
                        res.mismatches.append(Mismatch("validity-agreement", case, valid, mo["valid"]))
            views.append((kind, tracer, comparable_ir(ir)))
        if views and in_scope:
            first = views[0][2]
            for kind, tracer, v in views[1:]:
                if not common.same_json(v, first, ordered=True):
                    res.failures.append(Failure("clients-disagree", None, {"call": spec, "kind": kind, "tracer": tracer},
                                                f"sync vs {kind}/tracer={tracer}: {json.dumps(first, default=repr)[:200]} != {json.dumps(v, default=repr)[:200]}"))
                    break
        res.seen(spec, nontrivial=bool(spec["variables"]))
        if len(res.samples) < 4 and shape.upload_paths and len(json.dumps(spec)) < 900 and model_out is not None:
            res.sample({"input": spec, "impl": impl_summary(ir), "model": model_out[n * len(CONFIGS)]["request"]}, limit=4)


def seq_model_line(sb: SeqBuilt, cfgs: List[int]) -> Dict[str, Any]:
    steps = []
    for st, cfg in zip(sb.spec["steps"], cfgs):
        kind, tracer = CONFIGS[cfg]
        steps.append({"kind": kind, "tracer": tracer is not None, "url": URL, "query": st["query"], "opName": st["opName"],
                      "variables": st["variables"], "headers": st["headers"],
                      "kwargs": [[k, wire.enc(v)] for k, v in st.get("kwargs", [])]})
    return {"op": "sequence", **sb.heap(), "steps": steps}


def seq_model_line_objects(sb: SeqBuilt, cfgs: List[int]) -> Dict[str, Any]:
    """the same sequence for the object-level model: `variables` = address of the dict object, nested containers by reference"""
    steps = []
    for st, cfg in zip(sb.spec["steps"], cfgs):
        kind, tracer = CONFIGS[cfg]
        steps.append({"kind": kind, "tracer": tracer is not None, "url": URL, "query": st["query"], "opName": st["opName"],
                      "variables": None if st["variables"] is None else sb.enc.roots[st["variables"]], "headers": st["headers"],
                      "kwargs": [[k, wire.enc(v)] for k, v in st.get("kwargs", [])]})
    heap = sb.objects()
    return {"op": "sequenceO", **heap, "fuel": len(heap["objs"]) + 2, "steps": steps}


def seq_passes(spec: Dict[str, Any]) -> List[List[int]]:
    n = len(spec["steps"])
    if spec.get("uniform"):
        return [[i] * n for i in range(len(CONFIGS))]
    return [[st["config"] for st in spec["steps"]]]


def judge_sequences(ctx: Ctx, st: Optional[LeanStatus], seqs: List[Dict[str, Any]], res: Result, rig: Rig) -> None:
    """calls that SHARE their argument objects: every request of every sequence vs the model and the oracle,
    the real argument objects vs the model's heap and vs what they were before the first call"""
    use_model = st is not None and st.driver_ok
    pristine = [SeqBuilt(s) for s in seqs]
    model_out: Optional[List[Any]] = None
    offsets: List[int] = []
    if use_model:
        lines = []
        for sb in pristine:
            offsets.append(len(lines))
            for cfgs in seq_passes(sb.spec):       # two lines per pass: dicts by value-level heap, and on objects
                lines += [seq_model_line(sb, cfgs), seq_model_line_objects(sb, cfgs)]
        model_out = common.run_driver(ctx.prop, lines)
    for n, spec in enumerate(seqs):
        if flooded(res):
            return
        sb0 = pristine[n]
        nsteps = len(spec["steps"])
        builts0 = [sb0.step(k) for k in range(nsteps)]
        shapes = [Shape(b) for b in builts0]          # computed on objects no call has touched yet
        trigs = [py_triggers(b, sh) for b, sh in zip(builts0, shapes)]
        valids = [py_valid(b, sh) for b, sh in zip(builts0, shapes)]
        kinds = ["multipart" if sh.upload_paths else "json" for sh in shapes]
        res.count("sequence:steps", nsteps)
        res.count("sequence:uniform-x6" if spec.get("uniform") else "sequence:hopping-configurations")
        for what, key in (("headers", "headers"), ("variables", "variables")):
            refs = [stp[key] for stp in spec["steps"] if stp[key] is not None]
            if len(refs) > len(set(refs)):
                res.count("sequence:one-%s-dict-given-to-several-calls" % what)
        labels = set()
        for a in range(nsteps):
            for b_ in range(a + 1, nsteps):
                ha, hb = spec["steps"][a]["headers"], spec["steps"][b_]["headers"]
                if ha is not None and ha == hb and kinds[a] != kinds[b_] and valids[a] and valids[b_]:
                    labels.add("sequence:one-headers-dict-%s-then-%s" % (kinds[a], kinds[b_]))
        for lab in labels:
            res.count(lab)   # per sequence: the measured probability of the shape is count / #sequences
        res.count("sequence:count")
        if sb0.enc.aliased():
            res.count("sequence:list/dict-object-referenced-from-several-places")
        if any(type(x) in (list, dict) and any(isinstance(y, models()["Upload"]) for y in (x.values() if type(x) is dict else x))
               for d in sb0.var_objs for x in d.values()) and len(set(r for r in (stp["variables"] for stp in spec["steps"]) if r is not None)) < len([r for r in (stp["variables"] for stp in spec["steps"]) if r is not None]):
            res.count("sequence:Upload-in-a-nested-container-of-a-variables-dict-sent-twice")
        ups = [{u for _, u in sh.upload_paths} for sh in shapes]
        if any(ups[a] & ups[b_] for a in range(nsteps) for b_ in range(a + 1, nsteps)):
            res.count("sequence:one-Upload-sent-by-several-calls")
        per_pass_views: List[List[Any]] = []
        for pn, cfgs in enumerate(seq_passes(spec)):
            sb = SeqBuilt(spec)
            base = sb.snapshot()
            so_far_in_scope = True
            reported_args = False
            mo_seq = model_out[offsets[n] + 2 * pn] if model_out is not None else None
            mo_obj = model_out[offsets[n] + 2 * pn + 1] if model_out is not None else None
            views = []
            for k, cfg in enumerate(cfgs):
                kind, tracer = CONFIGS[cfg]
                b = sb.step(k)
                ir = rig.execute(cfg, b)
                after = sb.snapshot()
                case = {"sequence": spec, "step": k, "configurations": cfgs}
                res.count("request:" + str(ir.get("r")))
                res.count("sequence:real-calls")
                so_far_in_scope = so_far_in_scope and valids[k]
                if ir.get("r") == "observer":
                    res.mismatches.append(Mismatch("execute", case, "observer: " + ir["exc"], None))
                    continue
                changed = changed_parts(base, after)
                if changed and so_far_in_scope and not reported_args:
                    reported_args = True
                    res.failures.append(Failure("caller-arguments-modified", None, case,
                                                f"after call {k} ({kind}/tracer={tracer}) the caller's {', '.join(changed)} is not what the caller built: "
                                                f"{json.dumps({p: after[p] for p in ('hdrs', 'kw')}, default=repr)[:300]}"))
                sig = None
                if valids[k]:
                    sig = oracle(b, shapes[k], ir)   # judged against the call the caller WROTE
                    if sig:
                        t = None
                        if sig == "caller-content-type-does-not-win" and trigs[k][TRIG_F1]:
                            t = TRIG_F1
                        elif sig.startswith("no-request-sent:PydanticSerializationError") and trigs[k][TRIG_F2]:
                            t, sig = TRIG_F2, "no-request-sent"
                        res.failures.append(Failure(sig, t, case, f"call {k} of a sequence sharing argument objects, {kind}/tracer={tracer}: {json.dumps(impl_summary(ir), default=repr)[:400]}"))
                if mo_seq is not None:
                    mo = mo_seq["steps"][k]
                    if mo.get("request") is None:
                        res.mismatches.append(Mismatch("sequence-well-formed", case, ir.get("r"), "illFormed"))
                        continue
                    mv = model_view(mo["request"], b)
                    iv = impl_view(ir, mo["request"], b)
                    if not views_equal(iv, mv):
                        region = next((t for t in (TRIG_F2, TRIG_F1) if trigs[k][t]), None)
                        res.mismatches.append(Mismatch("execute-in-sequence", case, iv, mv, trigger=region if (valids[k] and sig is None) else None))
                    if ir.get("r") in ("json", "multipart") and mo["client_unchanged"] != ir.get("client_unchanged"):
                        res.mismatches.append(Mismatch("client-frame", case, ir.get("client_unchanged"), mo["client_unchanged"]))
                    real_heap = {"hdrs": after["hdrs"], "vars": after["vars"]}
                    if not common.same_json(real_heap, mo["heap"]):
                        res.mismatches.append(Mismatch("argument-heap-after-call", case, real_heap, mo["heap"]))
                    for t in (TRIG_F1, TRIG_F2):
                        if mo.get(t) != trigs[k][t]:
                            res.mismatches.append(Mismatch("trigger-agreement:" + t, case, trigs[k][t], mo.get(t)))
                    if mo.get("valid") != valids[k]:
                        res.mismatches.append(Mismatch("validity-agreement", case, valids[k], mo.get("valid")))
                    if mo_obj is not None:
                        ob = mo_obj["steps"][k]
                        if ob.get("request") is None:
                            res.mismatches.append(Mismatch("objects-sequence-well-formed", case, ir.get("r"), "illFormed"))
                        else:
                            ov = model_view(ob["request"], b)
                            if ov.get("r") == "multipart":   # the file parts as the object-level model builds them
                                specs_u = b.spec.get("uploads", [])
                                ov["files"] = [[nm, t[0], t[2], specs_u[t[1]]["content_b64"]] if t is not None else [nm, None, None, None]
                                               for nm, t in ob["files"]]
                            if not views_equal(iv, ov):
                                region = next((t for t in (TRIG_F2, TRIG_F1) if trigs[k][t]), None)
                                res.mismatches.append(Mismatch("execute-on-objects", case, iv, ov, trigger=region if (valids[k] and sig is None) else None))
                            real_objs = {"hdrs": after["hdrs"], "objs": after["objs"]}
                            if not common.same_json(real_objs, ob["heap"]):
                                res.mismatches.append(Mismatch("objects-after-call", case, real_objs["objs"], ob["heap"]["objs"]))
                            if ob.get("valid") != valids[k] or any(ob.get(t) != trigs[k][t] for t in (TRIG_F1, TRIG_F2)):
                                res.mismatches.append(Mismatch("objects-deref-agreement", case, [valids[k], trigs[k]], {x: ob.get(x) for x in ("valid", TRIG_F1, TRIG_F2)}))
                    if k == nsteps - 1:
                        whole = [model_view(r, sb.step(j)) if r is not None else None for j, r in enumerate(mo_seq["requests"])]
                        stepwise = [model_view(x["request"], sb.step(j)) if x.get("request") is not None else None for j, x in enumerate(mo_seq["steps"])]
                        if not common.same_json(whole, stepwise) or not common.same_json(mo_seq["final_heap"], mo["heap"]):
                            res.mismatches.append(Mismatch("runSeqH-vs-stepwise", case, stepwise, whole))
                views.append(comparable_ir(ir))
            per_pass_views.append(views)
        if len(per_pass_views) > 1 and all(valids):
            for pn, views in enumerate(per_pass_views[1:], start=1):
                if not common.same_json(views, per_pass_views[0], ordered=True):
                    kind, tracer = CONFIGS[pn]
                    res.failures.append(Failure("clients-disagree", None, {"sequence": spec, "configurations": [pn] * nsteps},
                                                f"the sequence on sync vs on {kind}/tracer={tracer} sent different requests"))
                    break
        res.seen(spec, nontrivial=True)


def impl_summary(ir: Dict[str, Any]) -> Dict[str, Any]:
    keep = ("r", "exc", "body", "operations", "map", "part_names")
    out = {k: v for k, v in ir.items() if k in keep}
    if "files" in ir:
        out["files"] = [f[:3] for f in ir["files"]]
    if "raw_headers" in ir:
        out["content_type"] = [v.split(";")[0] for k, v in ir["raw_headers"] if k.lower() == "content-type"]
    return out


def comparable_ir(ir: Dict[str, Any]) -> Dict[str, Any]:
    """everything of a request that must be identical across the six configurations"""
    out = {k: v for k, v in ir.items() if k not in ("raw_headers",)}
    if "raw_headers" in ir:
        out["headers"] = sorted([k, (v.split("boundary=")[0] if k.lower() == "content-type" else v)] for k, v in ir["raw_headers"])
    return out


# --------------------------------------------------------------------------------------------
# concurrency oracle: N calls in flight on ONE client give the requests of the sequential run
# --------------------------------------------------------------------------------------------


def _close(kind: str, client: Any) -> None:
    try:
        if clients.is_async(kind):
            asyncio.run(client.http_client.aclose())
        else:
            client.http_client.close()
    except Exception:  # noqa: BLE001
        pass


def _run_calls(kind: str, tracer: Optional[str], builts: List[Any], concurrent: bool, delays: Dict[str, float]) -> Tuple[List[str], Dict[str, Any]]:
    """run the calls on ONE fresh client, one after the other or all in flight; returns outcomes and the
    requests seen by the transport, keyed by the call's query text"""
    got: Dict[str, Any] = {}
    lock = threading.Lock()

    def record(request: httpx.Request) -> float:
        request.read()
        try:
            ir = request_ir(request)
            q = (ir.get("body") or ir.get("operations") or {}).get("query")
        except Exception as e:  # noqa: BLE001
            ir, q = {"r": "undecodable", "exc": repr(e)}, None
        with lock:
            got.setdefault(str(q), []).append(comparable_ir(ir))
        return delays.get(str(q), 0.0)

    async def ahandler(request: httpx.Request) -> httpx.Response:
        await asyncio.sleep(record(request))
        return httpx.Response(200, json={"data": {}})

    def shandler(request: httpx.Request) -> httpx.Response:
        d = record(request)
        if d:
            threading.Event().wait(d)
        return httpx.Response(200, json={"data": {}})

    is_async = clients.is_async(kind)
    client = clients.make(kind, ahandler if is_async else shandler, url=URL, headers=dict(CLIENT_HEADERS), tracer=tracer)

    def sync_call(b: Built) -> str:
        try:
            client.execute(b.query, b.op_name, b.variables, **b.kwargs)
            return "ok"
        except Exception as e:  # noqa: BLE001
            return type(e).__name__

    async def async_call(b: Built) -> str:
        try:
            await client.execute(b.query, b.op_name, b.variables, **b.kwargs)
            return "ok"
        except Exception as e:  # noqa: BLE001
            return type(e).__name__

    if is_async:
        async def main() -> List[str]:
            if concurrent:
                return list(await asyncio.gather(*[async_call(b) for b in builts]))
            return [await async_call(b) for b in builts]
        outs = asyncio.run(main())
    elif concurrent:
        with ThreadPoolExecutor(max_workers=len(builts)) as pool:
            outs = [f.result() for f in [pool.submit(sync_call, b) for b in builts]]
    else:
        outs = [sync_call(b) for b in builts]
    _close(kind, client)
    return outs, got


def concurrency(ctx: Ctx, res: Result, rounds: int, width: int) -> None:
    rng = ctx.sub_rng("concurrency")
    for rnd in range(rounds):
        if flooded(res):
            return
        specs = []
        for n in range(width):
            s = gen_call(rng, 1000 * rnd + n)
            s["query"] = "query C%d_%d { x }" % (rnd, n)  # the call's identity on the wire
            specs.append(s)
        delays = {s["query"]: rng.choice([0.0, 0.0, 0.001, 0.003]) for s in specs}
        # every second round the calls in flight are handed ONE headers dict object (and one params dict);
        # the reference run gives each call objects of its own
        shared_hs: Optional[List[List[str]]] = None
        sharers: List[int] = []
        if rnd % 2 == 1:
            shared_hs = Gen(rng).headers() or [["Authorization", "Bearer t"]]
            sharers = [n for n in range(width) if rng.random() < 0.8]
            for n in sharers:
                specs[n]["headers"] = shared_hs
        for kind, tracer in CONFIGS:
            seq_out, sequential = _run_calls(kind, tracer, [Built(s) for s in specs], False, {})
            con_builts = [Built(s) for s in specs]
            shared_obj = {k: v for k, v in (shared_hs or [])}
            for n in sharers:
                con_builts[n].kwargs["headers"] = shared_obj
            con_out, concurrent = _run_calls(kind, tracer, con_builts, True, delays)
            res.count("concurrency:calls-in-flight", len(specs))
            if sharers:
                res.count("concurrency:calls-in-flight-sharing-one-headers-dict", len(sharers))
            res.evaluations += len(specs)
            case = {"calls": specs, "kind": kind, "tracer": tracer, "share_headers_object": sharers}
            if sharers and shared_obj != {k: v for k, v in (shared_hs or [])}:
                res.failures.append(Failure("caller-arguments-modified", None, case,
                                            f"the headers dict shared by the calls in flight is now {shared_obj!r}"))
            if seq_out != con_out:
                res.failures.append(Failure("concurrent-outcomes-differ", None, case, f"sequential {seq_out} concurrent {con_out}"))
            elif not common.same_json(sequential, concurrent):
                bad = [q for q in sequential if not common.same_json(sequential.get(q), concurrent.get(q))]
                res.failures.append(Failure("concurrent-requests-differ", None, case, f"calls {bad[:3]} sent different requests when run concurrently"))


# --------------------------------------------------------------------------------------------
# entry points
# --------------------------------------------------------------------------------------------


def upload_eq_observations(ctx: Ctx, st: Optional[LeanStatus], res: Result) -> None:
    """what `obj in files_list` / `files_list.index(obj)` / `==` answer on REAL Upload objects — the same object, two
    objects with identical attributes (sharing one stream or not), equal name and type but other bytes, different —
    against the model's `uploadEq` (identity)"""
    Upload = models()["Upload"]
    one = io.BytesIO(b"front")
    ups = [Upload("photo.jpg", io.BytesIO(b"front"), "image/jpeg"), Upload("photo.jpg", io.BytesIO(b"back-side"), "image/jpeg"),
           Upload("photo.jpg", io.BytesIO(b"front"), "image/jpeg"), Upload("photo.jpg", one, "image/jpeg"), Upload("photo.jpg", one, "image/jpeg"),
           Upload("a.txt", io.BytesIO(b"front"), "text/plain"), Upload("photo.jpg", io.BytesIO(b"front"), "image/png")]
    labels = ["photo/front", "photo/back", "photo/front(2nd object)", "photo/stream S", "photo/stream S (2nd object)", "a.txt", "photo as png"]
    pairs = [(a, b_) for a in range(len(ups)) for b_ in range(len(ups))]
    model_out = None
    if st is not None and st.driver_ok:
        model_out = common.run_driver(ctx.prop, [{"op": "uploadEq", "a": a, "b": b_} for a, b_ in pairs])
    for n, (a, b_) in enumerate(pairs):
        case = {"files_list": [labels[a]], "obj": labels[b_], "same_object": a == b_}
        try:
            real_in = ups[b_] in [ups[a]]
            try:
                [ups[a]].index(ups[b_])
                real_index = True
            except ValueError:
                real_index = False
            real = {"in": bool(real_in), "index": real_index, "eq": bool(ups[a] == ups[b_])}
        except Exception as e:  # noqa: BLE001 - a comparison method that raises
            real = {"exc": f"{type(e).__name__}: {e}"}
        res.count("upload-eq:pairs")
        res.evaluations += 1
        want = a == b_   # the property: "each DISTINCT Upload is sent once" — distinct means another object
        if real != {"in": want, "index": want, "eq": want}:
            res.count("upload-eq:real-comparison-is-not-identity")
        if model_out is not None:
            mv = bool(model_out[n]["eq"])
            if real != {"in": mv, "index": mv, "eq": mv}:
                res.mismatches.append(Mismatch("upload-eq", case, real, mv))


def fingerprint_items() -> List[Tuple[str, Optional[str]]]:
    items: List[Tuple[str, Optional[str]]] = []
    for kind, rel in clients.REL.items():
        cls = [c for k, _, c, _ in clients.CLIENTS if k == kind][0]
        names = ["execute", *SHARED_METHODS]
        if kind.endswith("OT"):
            names += ["_execute", "_execute_with_telemetry", "_execute_json_with_telemetry", "_execute_multipart_with_telemetry"]
        items += [(rel, f"{cls}.{n}") for n in names]
    items.append(("ariadne_codegen/client_generators/dependencies/base_model.py", None))
    return items


def corpus_specs() -> List[Tuple[str, Dict[str, Any]]]:
    out = []
    d = common.CORPUS / "C11"
    if d.is_dir():
        for p in sorted(d.glob("*.json")):
            out.append((p.name, json.loads(p.read_text())))
    return out


def replay_witnesses(ctx: Ctx, res: Result, rig: Rig) -> None:
    """every finding witness (open or fixed) is replayed against the real code on every run"""
    for f in common.load_findings(ctx.prop):
        w = f.get("witness") or {}
        spec = w.get("call")
        if not spec:
            continue
        sigs = f["signature"] if isinstance(f["signature"], list) else [f["signature"]]
        reproduced = False
        for i, (kind, tracer) in enumerate(CONFIGS):
            b = Built(spec)
            shape = Shape(b)
            ir = rig.execute(i, b)
            sig = oracle(b, shape, ir)
            if sig and sig.startswith("no-request-sent"):
                sig = "no-request-sent"
            if sig in sigs:
                reproduced = True
            elif sig and f.get("status") != "open":
                res.failures.append(Failure(sig, None, {"call": spec, "kind": kind, "tracer": tracer}, f"fixed finding {f['id']} fails again"))
        res.witness_status[f["id"]] = "reproduces" if reproduced else "gone"
        if reproduced and f.get("status") != "open":
            res.failures.append(Failure(sigs[0], None, {"call": spec}, f"fixed finding {f['id']} is back"))


def run(ctx: Ctx, st: Optional[LeanStatus]) -> Result:
    res = Result()
    res.rule = ("seeded call specs (type-directed variables trees x caller headers x timeout/params) executed by the six real "
                "client configurations, plus seeded SEQUENCES of 2-5 calls sharing their argument objects (headers dict, variables dict, "
                "Uploads, params dict, a pool of shared list/dict objects referenced from several places; on one configuration x6 or hopping between "
                "configurations; each also run through the object-level model on the identity-encoded real objects); a case is non-trivial when its "
                "variables are non-empty (every sequence is); distinct = distinct call specs / sequence specs")
    res.extra["fingerprints"] = common.fingerprints(ctx, fingerprint_items())
    div = clients.four_way(SHARED_METHODS)
    res.extra["four_way_textual_divergence"] = div
    if div:
        ctx.boost = True
        ctx.log(f"shared request methods are no longer textually identical in the four clients: {div}")
    upload_eq_observations(ctx, st, res)
    rig = Rig()
    try:
        replay_witnesses(ctx, res, rig)
        specs = [s for _, s in corpus_specs() if "query" in s] + HAND_CASES
        seqs = [s for _, s in corpus_specs() if "steps" in s] + HAND_SEQUENCES
        judge_sequences(ctx, st, seqs, res, rig)   # regression cases first
        rng = ctx.sub_rng("calls")
        specs += [gen_call(rng, n) for n in range(ctx.budget(2500, 40000))]
        for lo in range(0, len(specs), 2000):
            judge(ctx, st, specs[lo: lo + 2000], res, rig)
        srng = ctx.sub_rng("sequences")
        seqs = [gen_sequence(srng, n) for n in range(ctx.budget(500, 5000))]
        for lo in range(0, len(seqs), 1000):
            judge_sequences(ctx, st, seqs[lo: lo + 1000], res, rig)
    finally:
        rig.close()
    concurrency(ctx, res, rounds=ctx.budget(6, 40), width=6)
    res.oracle_only += [
        "httpx: header normalisation, merge of client-level and per-request headers, multipart encoding (boundary, part order, file part headers) — observed on the captured request, not modelled",
        "pydantic: model_dump(by_alias=True, exclude_unset=True) and to_jsonable_python results are inputs of the model, computed with the real library; that model_dump returns list/dict objects of its own (none shared with what the model holds) is checked on every model the run builds",
        "concurrent calls on one client (asyncio.gather / threads) are exercised on the real clients; the Lean interleaving theorem is about the model's two-step call machine",
        "what httpx does with the objects it is handed (copies the headers mapping, reads and rewinds the Upload streams) is observed on the real objects after every call, not modelled; concurrent calls never share an Upload stream (two sends reading one file object race inside httpx)",
    ]
    res.assumptions += [
        "reading: UNSET is the 'argument omitted' marker of top-level variable values; a nested UNSET or an object json.dumps(default=to_jsonable_python) cannot serialise is outside the quantifier (model has an explicit serializationError branch, compared by correspondence)",
        "reading: floats are finite (json.dumps would emit the non-JSON token NaN/Infinity)",
        "dict keys of variables trees are strings and unique (Python dicts)",
    ]
    return res


def search(ctx: Ctx) -> Result:
    res = Result()
    rig = Rig()
    try:
        rng = ctx.sub_rng("search")
        judge_sequences(ctx, None, [s for _, s in corpus_specs() if "steps" in s] + HAND_SEQUENCES, res, rig)
        seqs = [gen_sequence(rng, n) for n in range(3000)]
        judge_sequences(ctx, None, seqs, res, rig)
        specs = [gen_call(rng, n) for n in range(10000)]
        for lo in range(0, len(specs), 2000):
            judge(ctx, None, specs[lo: lo + 2000], res, rig)
    finally:
        rig.close()
    concurrency(ctx, res, rounds=20, width=6)
    return res


def replay_sequence(spec: Dict[str, Any], cfgs: Optional[List[int]]) -> int:
    """re-run one sequence of calls sharing argument objects against the real code"""
    rig = Rig()
    rc = 0
    try:
        for pass_cfgs in ([cfgs] if cfgs else seq_passes(spec)):
            sb0 = SeqBuilt(spec)
            shapes = [Shape(sb0.step(k)) for k in range(len(spec["steps"]))]
            sb = SeqBuilt(spec)
            base = sb.snapshot()
            for k, cfg in enumerate(pass_cfgs):
                kind, tracer = CONFIGS[cfg]
                b = sb.step(k)
                ir = rig.execute(cfg, b)
                sig = oracle(b, shapes[k], ir) if py_valid(b, shapes[k]) else None
                changed = changed_parts(base, sb.snapshot())
                if changed:
                    sig = (sig + " + " if sig else "") + "caller-arguments-modified: " + ", ".join(changed) + " " + json.dumps({k: sb.snapshot()[k] for k in ("hdrs", "objs")})[:400]
                print("call", k, kind, tracer, json.dumps(impl_summary(ir), default=repr)[:400], "->", sig or "ok")
                rc = rc or (1 if sig else 0)
    finally:
        rig.close()
    return rc


def replay(ctx: Ctx, payload: Dict[str, Any]) -> int:
    inp = payload.get("input") or payload
    if "sequence" in inp or "steps" in inp:
        return replay_sequence(inp.get("sequence") or inp, inp.get("configurations"))
    if "calls" in inp:
        print("concurrency case: %d calls on one %s client (tracer=%s); replaying each call on its own" % (len(inp["calls"]), inp["kind"], inp.get("tracer")))
        specs = inp["calls"]
    elif "call" in inp:
        specs = [inp["call"]]
    elif "query" in inp:
        specs = [inp]
    else:
        print(json.dumps(payload, indent=1)[:2000])
        return 1
    rig = Rig()
    rc = 0
    try:
        for spec in specs:
            for i, (kind, tracer) in enumerate(CONFIGS):
                b = Built(spec)
                shape = Shape(b)
                ir = rig.execute(i, b)
                sig = oracle(b, shape, ir) if py_valid(b, shape) else None
                print(kind, tracer, json.dumps(impl_summary(ir), default=repr)[:500], "->", sig or "ok")
                rc = rc or (1 if sig else 0)
    finally:
        rig.close()
    return rc
