"""C06 — Input models accept exactly the schema's input values, with its defaults.

Three parts (DESIGN.md §1.3, §3 C06):

  * correspondence A (class IR): the REAL `InputTypesGenerator` on `build_ast_schema(parse(sdl))`, called directly in
    a forked child, its `ast.ClassDef`s canonicalised to (python name, annotation, alias/default expression tree),
    against the Lean driver (`Model/InputField.lean`); plus the finding-trigger predicates (Python twins vs Lean);
  * correspondence B (reference semantics): `Spec/CoerceInput.lean` against graphql-core's `coerce_input_value`,
    `value_from_ast` and the `default_value`s of the built schema; `Spec/PydInput.lean` (`construct`, default
    evaluation, dump) against real pydantic on the REALLY GENERATED package (main.client in a forked child);
  * the oracle (the property itself, independent of the Lean model): for every generated input type and every
    canonical value graphql-core accepts, the really generated model is built by GraphQL names, by Python names
    (`model_validate`) and by keyword construction; a value lacking a required field is refused; for every field with
    a schema default an instance built without it reads back the coerced schema default, and what the server gets
    from `model_dump(by_alias=True, exclude_unset=True)` coerces to that same default.
"""
from __future__ import annotations

import ast
import copy
import importlib
import json
import keyword
import random
import sys
from pathlib import Path
from typing import Any, Dict, List, Optional, Tuple

from . import common, engine, wire
from .common import Ctx, Failure, LeanStatus, Mismatch, Result
from .gen import schema_gen

PROP = "C06"


def _quiet_fork_warning() -> None:
    """ariadne_codegen/config.py switches DeprecationWarning to "default" at import; CPython 3.12 then prints one warning per
    fork() of an engine.pmap_forked worker.  Re-applied before every parallel section."""
    import warnings

    warnings.filterwarnings("ignore", message=".*multi-threaded, use of fork.*", category=DeprecationWarning)

# --------------------------------------------------------------------------------------------
# definitions, literals, SDL
# --------------------------------------------------------------------------------------------

BUILTINS = ["Int", "Float", "String", "Boolean", "ID"]
ENUM_NAMES = ["Color", "Order", "Mode"]
ENUM_VALUE_POOL = ["RED", "GREEN", "BLUE", "ASC", "DESC", "lower_case", "Mixed_Case", "V1", "A", "B"]
KW_ENUM_VALUES = ["class", "None", "True", "import", "from", "is", "lambda"]
SCALAR_NAMES = ["DateTime", "JSON", "Code", "Upload"]
INPUT_NAMES = ["Filter", "Paging", "UserInput", "RangeInput", "Deep", "In2"]
SAFE_FIELD_NAMES = ["id", "name", "count", "ratio", "active", "items", "tags", "owner", "parent", "kind", "label", "x1",
                    "createdAt", "bestFriend", "URLPath", "camelCaseHTTPField", "snake_case_field", "Field9", "fooBar",
                    # keywords, soft keywords, pydantic-reserved names, leading underscores: all handled by aliases
                    "class", "from", "import", "in", "is", "None", "True", "match", "type", "copy", "json", "dict", "schema",
                    "validate", "construct", "fields", "model_config", "model_fields", "_private", "_camelCase", "__dunderish",
                    # reserved only AFTER snake_case conversion
                    "modelConfig", "modelFields", "modelDump", "modelValidate", "Copy", "Json", "Schema"]
# names that C18's findings are about (digit after stripping, merges, trim-to-keyword)
DEFECT_FIELD_NAMES = ["_1x", "_9", "foo_bar", "FooBar", "_class", "_copy", "_id", "class_", "copy_", "x_1", "_"]
FLOAT_LEXEMES = ["0.5", "-1.25", "2.0", "1e3", "1.5E2", "3.25e-2", "0.0", "10.75"]
STRINGS = ["", "s", "two words", "quote\"d", "ü", "a\\b"]


def t_named(n: str) -> List[Any]:
    return ["named", n]


def type_str(t: List[Any]) -> str:
    return schema_gen.type_str(t)


def base_name(t: List[Any]) -> str:
    return schema_gen.unwrap(t)


def is_nonnull(t: List[Any]) -> bool:
    return t[0] == "nonnull"


def un_nn(t: List[Any]) -> List[Any]:
    while t[0] == "nonnull":
        t = t[1]
    return t


def lit_sdl(l: Dict[str, Any]) -> str:
    k = l["k"]
    if k == "int":
        return str(l["v"])
    if k == "float":
        return l["v"]
    if k == "str":
        return json.dumps(l["v"], ensure_ascii=False)
    if k == "bool":
        return "true" if l["v"] else "false"
    if k == "null":
        return "null"
    if k == "enum":
        return l["v"]
    if k == "list":
        return "[" + ", ".join(lit_sdl(x) for x in l["v"]) + "]"
    return "{" + ", ".join(f"{kk}: {lit_sdl(v)}" for kk, v in l["v"]) + "}"


def defs_sdl(defs: List[Dict[str, Any]]) -> str:
    out = []
    for d in defs:
        if d["kind"] == "enum":
            out.append(f"enum {d['name']} {{ " + " ".join(d["values"]) + " }")
        elif d["kind"] == "scalar":
            out.append(f"scalar {d['name']}")
        elif d["kind"] == "input":
            fs = []
            for f in d["fields"]:
                dv = f" = {lit_sdl(f['default'])}" if f["default"] is not None else ""
                fs.append(f"  {f['name']}: {type_str(f['type'])}{dv}")
            out.append(f"input {d['name']} {{\n" + "\n".join(fs) + "\n}")
        else:
            args = ", ".join(f"a{i}: {x['name']}" for i, x in enumerate(dd for dd in defs if dd["kind"] == "input"))
            out.append(f"type Query {{ q{'(' + args + ')' if args else ''}: Int }}")
    return "\n\n".join(out) + "\n"


def by_name(defs: List[Dict[str, Any]]) -> Dict[str, Dict[str, Any]]:
    return {d["name"]: d for d in defs}


# --------------------------------------------------------------------------------------------
# Python twins of the finding triggers (Lean: Model/InputField.lean)
# --------------------------------------------------------------------------------------------

INPUT_SCALARS = {"String": "str", "ID": "str", "Int": "int", "Boolean": "bool", "Float": "float", "Upload": "Upload"}


def kind_of(cfg: Dict[str, Any], dn: Dict[str, Dict[str, Any]], n: str) -> str:
    d = dn.get(n)
    if d is not None and d["kind"] in ("enum", "input", "composite"):
        return d["kind"]
    if d is not None or n in BUILTINS:
        if n in INPUT_SCALARS:
            return "builtin"
        if any(s["name"] == n for s in cfg.get("scalars", [])):
            return "custom"
        return "any"
    return "unknown"


def nullable_item_under_nonnull(seen: bool, t: List[Any]) -> bool:
    if t[0] == "named":
        return False
    if t[0] == "nonnull":
        return nullable_item_under_nonnull(True, t[1])
    return (seen and not is_nonnull(t[1])) or nullable_item_under_nonnull(seen, t[1])


def lit_has_enum(l: Dict[str, Any]) -> bool:
    if l["k"] == "enum":
        return True
    if l["k"] == "list":
        return any(lit_has_enum(x) for x in l["v"])
    if l["k"] == "obj":
        return any(lit_has_enum(v) for _, v in l["v"])
    return False


def lit_has_kw_enum(l: Dict[str, Any]) -> bool:
    if l["k"] == "enum":
        return keyword.iskeyword(l["v"])
    if l["k"] == "list":
        return any(lit_has_kw_enum(x) for x in l["v"])
    if l["k"] == "obj":
        return any(lit_has_kw_enum(v) for _, v in l["v"])
    return False


def lit_obj_in_list(in_list: bool, l: Dict[str, Any]) -> bool:
    if l["k"] == "obj":
        return in_list
    if l["k"] == "list":
        return any(lit_obj_in_list(True, x) for x in l["v"])
    return False


def coercing(dn: Dict[str, Dict[str, Any]], t: List[Any], l: Dict[str, Any]) -> bool:
    k = l["k"]
    u = un_nn(t)
    if k == "null":
        return False
    if k == "list":
        return u[0] == "list" and any(coercing(dn, u[1], x) for x in l["v"])
    if u[0] == "list":
        return True
    if k == "obj":
        d = dn.get(u[1])
        if d is None or d["kind"] != "input":
            return False
        fm = {}
        for f in d["fields"]:
            fm.setdefault(f["name"], f)
        return any(kk in fm and coercing(dn, fm[kk]["type"], v) for kk, v in l["v"])
    if k == "int":
        return u[1] == "ID"
    return False


FIELD_TRIGGERS = ["trigNullableListItem", "trigEnumInObjectDefault", "trigKeywordEnumDefault", "trigObjectInListDefault",
                  "trigCoercingDefault", "trigObjectDefaultOnScalar", "trigDefaultLostIntro"]


def effective_default(f: Dict[str, Any]) -> bool:
    """twin of Lean InputGen.effectiveDefault: a default the SDL path emits and the introspection path cannot see"""
    d = f["default"]
    if d is None:
        return False
    return is_nonnull(f["type"]) if d["k"] == "null" else True


def field_triggers(cfg: Dict[str, Any], defs: List[Dict[str, Any]], f: Dict[str, Any], source: str = "sdl") -> Dict[str, bool]:
    """twin of Lean InputSource.fieldTriggersSrc: the triggers of the emitted text are evaluated on what the generator sees
    (no default literal reaches it on the introspection path), plus C06-F8's"""
    dn = by_name(defs)
    d = f["default"] if source == "sdl" else None
    bk = kind_of(cfg, dn, base_name(f["type"]))
    return {
        "trigNullableListItem": nullable_item_under_nonnull(False, f["type"]),
        "trigEnumInObjectDefault": d is not None and lit_has_enum(d) and bk != "enum",
        "trigKeywordEnumDefault": d is not None and lit_has_kw_enum(d),
        "trigObjectInListDefault": d is not None and lit_obj_in_list(False, d),
        "trigCoercingDefault": d is not None and coercing(dn, f["type"], d),
        "trigObjectDefaultOnScalar": d is not None and d["k"] == "obj" and bk != "input",
        "trigDefaultLostIntro": source != "sdl" and effective_default(f),
    }


def real_py_name(snake: bool, n: str) -> str:
    from ariadne_codegen.utils import process_name

    return process_name(n, convert_to_snake_case=snake, trim_leading_underscore=True, handle_pydantic_resrved_field_names=True)


def trig_name_defect(snake: bool, fields: List[Dict[str, Any]]) -> bool:
    names = [f["name"] for f in fields]
    pys = [real_py_name(snake, n) for n in names]
    if len(set(pys)) != len(pys):
        return True
    if any((not p.isidentifier()) or keyword.iskeyword(p) or not p.isascii() for p in pys):
        return True
    return any(p == m and n != m for n, p in zip(names, pys) for m in names)


def python_triggers(case: Dict[str, Any]) -> Dict[str, Any]:
    """{type name: {"trigNameDefect": bool, "fields": {field: {trigger: bool}}}}"""
    out: Dict[str, Any] = {}
    for d in case["defs"]:
        if d["kind"] == "input":
            out[d["name"]] = {"trigNameDefect": trig_name_defect(case["cfg"]["snake"], d["fields"]),
                              "fields": {f["name"]: field_triggers(case["cfg"], case["defs"], f, case.get("source", "sdl")) for f in d["fields"]}}
    return out


def lean_triggers(o: Any) -> Dict[str, Any]:
    return {t["name"]: {"trigNameDefect": t["trigNameDefect"],
                        "fields": {f["name"]: {k: f[k] for k in FIELD_TRIGGERS} for f in t["fields"]}} for t in o}


def reachable_types(defs: List[Dict[str, Any]], root: str) -> List[str]:
    dn = by_name(defs)
    seen: List[str] = []
    todo = [root]
    while todo:
        n = todo.pop()
        if n in seen or n not in dn or dn[n]["kind"] != "input":
            continue
        seen.append(n)
        for f in dn[n]["fields"]:
            todo.append(base_name(f["type"]))
    return seen


def active_triggers(trigs: Dict[str, Any], types: List[str]) -> List[str]:
    act: List[str] = []
    for t in types:
        tt = trigs.get(t)
        if not tt:
            continue
        if tt["trigNameDefect"]:
            act.append("trigNameDefect")
        for ft in tt["fields"].values():
            act += [k for k, v in ft.items() if v]
    return sorted(set(act))


# which failure classes each finding explains (must agree with findings.d/C06.json)
EXPLAINS = {
    "trigNullableListItem": ["valid-value-rejected", "default-raises"],
    "trigEnumInObjectDefault": ["default-raises", "generation-crash", "import-error"],
    "trigKeywordEnumDefault": ["generation-crash", "import-error"],
    "trigObjectInListDefault": ["default-mismatch"],
    "trigCoercingDefault": ["default-mismatch", "default-raises", "valid-value-rejected"],
    "trigObjectDefaultOnScalar": ["default-raises"],
    "trigDefaultLostIntro": ["default-mismatch", "valid-value-rejected"],
    "trigNameDefect": ["generation-crash", "import-error", "valid-value-rejected", "required-not-enforced", "default-mismatch",
                       "server-default-mismatch", "class-missing"],
}
PRIORITY = ["trigKeywordEnumDefault", "trigEnumInObjectDefault", "trigObjectDefaultOnScalar", "trigObjectInListDefault",
            "trigCoercingDefault", "trigDefaultLostIntro", "trigNullableListItem", "trigNameDefect"]


def explain(signature: str, active: List[str]) -> Optional[str]:
    for t in PRIORITY:
        if t in active and signature in EXPLAINS[t]:
            return t
    return None


# --------------------------------------------------------------------------------------------
# generator of input-centric schemas
# --------------------------------------------------------------------------------------------


class Gen:
    """random input type definitions: all wrapper combinations, enums incl. keyword-named values, nested and recursive
    inputs, custom scalars, stress field names, default literals of every kind.  `clean=True` repairs every field until no
    finding trigger fires (so that the theorem region is sampled densely)."""

    def __init__(self, rng: random.Random, clean: bool, snake: bool, p_default: float = 0.5) -> None:
        self.rng = rng
        self.clean = clean
        self.snake = snake
        self.p_default = p_default
        self.enums: Dict[str, List[str]] = {}
        self.scalars: List[str] = []
        self.cfg: Dict[str, Any] = {"snake": snake, "scalars": []}
        self.inputs: Dict[str, List[Dict[str, Any]]] = {}

    def wrap(self, base: List[Any]) -> List[Any]:
        rng = self.rng
        t = base
        if rng.random() < 0.45:
            t = ["nonnull", t]
        depth = rng.choice([0, 0, 0, 1, 1, 2, 3]) if rng.random() < 0.55 else 0
        for _ in range(depth):
            t = ["list", t]
            if rng.random() < 0.45:
                t = ["nonnull", t]
        return t

    def defs(self) -> List[Dict[str, Any]]:
        out: List[Dict[str, Any]] = [{"kind": "enum", "name": n, "values": vs} for n, vs in self.enums.items()]
        out += [{"kind": "scalar", "name": n} for n in self.scalars]
        out += [{"kind": "input", "name": n, "fields": fs} for n, fs in self.inputs.items()]
        out.append({"kind": "composite", "name": "Query"})
        return out

    def lit(self, t: List[Any], depth: int, nullable: bool, max_idx: int, in_obj: bool = False) -> Optional[Dict[str, Any]]:
        rng = self.rng
        if t[0] == "nonnull":
            return self.lit(t[1], depth, False, max_idx, in_obj)
        if nullable and rng.random() < 0.1:
            return {"k": "null"}
        if t[0] == "list":
            if not self.clean and rng.random() < 0.1:
                return self.lit(t[1], depth + 1, True, max_idx, in_obj)  # a single item where a list is expected
            items = [self.lit(t[1], depth + 1, True, max_idx, in_obj) for _ in range(rng.choice([0, 1, 2, 3]) if depth < 3 else 0)]
            if any(x is None for x in items):
                return None
            return {"k": "list", "v": items}
        n = t[1]
        if n == "Int":
            return {"k": "int", "v": rng.choice([0, 5, -3, 42, 2147483647, -2147483648])}
        if n == "Float":
            return {"k": "float", "v": rng.choice(FLOAT_LEXEMES)} if rng.random() < 0.7 else {"k": "int", "v": rng.choice([2, -7, 0])}
        if n == "String":
            return {"k": "str", "v": rng.choice(STRINGS)}
        if n == "ID":
            if not self.clean and rng.random() < 0.3:
                return {"k": "int", "v": 7}
            return {"k": "str", "v": rng.choice(["id-1", "42"])}
        if n == "Boolean":
            return {"k": "bool", "v": rng.random() < 0.5}
        if n in self.enums:
            return {"k": "enum", "v": rng.choice(self.enums[n])}
        if n in self.inputs:
            j = list(self.inputs).index(n)
            if j >= max_idx:
                return {"k": "null"} if nullable else None
            fields = []
            for f in self.inputs[n]:
                required = is_nonnull(f["type"]) and f["default"] is None
                if required or (depth < 2 and rng.random() < 0.55):
                    if depth >= 2 and not is_nonnull(f["type"]):
                        fields.append([f["name"], {"k": "null"}])
                    else:
                        v = self.lit(f["type"], depth + 1, True, j, True)
                        if v is None:
                            if required:
                                return {"k": "null"} if nullable else None
                            continue
                        fields.append([f["name"], v])
            return {"k": "obj", "v": fields}
        if n == "Upload":
            return {"k": "null"} if nullable else None
        # custom scalar: any literal; structured ones only for unconfigured (Any) scalars
        sc = next((s for s in self.cfg["scalars"] if s["name"] == n), None)
        configured = sc is not None
        # a configured scalar is typed as configured (what its Python type does with other literals is C07's subject)
        choices: List[Dict[str, Any]] = [{"k": "str", "v": "2020-01-01"}, {"k": "str", "v": "c-1"}]
        if sc is not None and sc["typeName"] == "int":
            choices = [{"k": "int", "v": 12}, {"k": "int", "v": 0}]
        if not configured:
            choices += [{"k": "int", "v": 12}, {"k": "float", "v": "0.5"}, {"k": "bool", "v": True},
                        {"k": "list", "v": [{"k": "int", "v": 1}, {"k": "str", "v": "x"}]}]
            if not self.clean:
                choices += [{"k": "obj", "v": [["a", {"k": "int", "v": 1}]]}, {"k": "enum", "v": "FOO"}]
        return rng.choice(choices)

    def make_field(self, names: List[str], idx: int, fname: str) -> Dict[str, Any]:
        rng = self.rng
        pool = BUILTINS + list(self.enums) + self.scalars
        base = rng.choice(pool) if rng.random() < 0.72 else rng.choice(names)
        t = self.wrap(t_named(base))
        if base in names and names.index(base) >= idx and is_nonnull(t):
            t = t[1]  # keep required chains acyclic
        if base == "Upload":
            t = t_named("Upload") if rng.random() < 0.7 else ["list", t_named("Upload")]  # no JSON value: keep it nullable
        return {"name": fname, "type": t, "default": None, "deprecated": False}

    def generate(self) -> Dict[str, Any]:
        rng = self.rng
        for n in rng.sample(ENUM_NAMES, rng.choice([1, 2, 3])):
            vals = rng.sample(ENUM_VALUE_POOL, rng.choice([1, 2, 3, 4]))
            if rng.random() < (0.25 if self.clean else 0.4):
                vals += rng.sample(KW_ENUM_VALUES, rng.choice([1, 2]))
            self.enums[n] = vals
        self.scalars = rng.sample(SCALAR_NAMES, rng.choice([0, 1, 2, 3]))
        for s in self.scalars:
            if s != "Upload" and rng.random() < 0.5:
                self.cfg["scalars"].append({"name": s, "typeName": rng.choice(["str", "str", "int"]),
                                            "serialize": rng.choice([None, "scalar_helpers.ser"])})
        names = rng.sample(INPUT_NAMES, rng.choice([1, 2, 3, 4]))
        name_pool = SAFE_FIELD_NAMES + ([] if self.clean else DEFECT_FIELD_NAMES)
        for idx, n in enumerate(names):
            fnames = rng.sample(name_pool, rng.choice([1, 2, 3, 4, 5, 6]))
            self.inputs[n] = [self.make_field(names, idx, fn) for fn in fnames]
        if self.clean:
            self.repair_types(names)
        # defaults only after every type is final (an object literal is drawn from the target's fields)
        for ix, n in enumerate(names):
            for f in self.inputs[n]:
                if rng.random() < self.p_default:
                    f["default"] = self.lit(f["type"], 0, True, ix)
                    if self.clean:
                        for attempt in range(12):
                            if f["default"] is None or not any(field_triggers(self.cfg, self.defs(), f).values()):
                                break
                            f["default"] = self.lit(f["type"], 0, True, ix) if attempt < 10 else None
                        if f["default"] is not None and any(field_triggers(self.cfg, self.defs(), f).values()):
                            f["default"] = None
        defs = self.defs()
        rng.shuffle(defs)
        return {"defs": defs, "sdl": defs_sdl(defs), "cfg": self.cfg, "clean": self.clean}

    def repair_types(self, names: List[str]) -> None:
        """clean profile: usable Python names, and no list with a nullable item below a NonNull wrapper"""
        for ix, n in enumerate(names):
            for _ in range(20):
                if not trig_name_defect(self.snake, self.inputs[n]) or len(self.inputs[n]) <= 1:
                    break
                self.inputs[n].pop(self.rng.randrange(len(self.inputs[n])))
            if trig_name_defect(self.snake, self.inputs[n]):
                self.inputs[n] = [self.make_field(names, ix, "plain")]
            for f in self.inputs[n]:
                for attempt in range(30):
                    if not nullable_item_under_nonnull(False, f["type"]):
                        break
                    f["type"] = self.make_field(names, ix, f["name"])["type"] if attempt < 28 else t_named("Int")


def drop_invalid_defaults(case: Dict[str, Any]) -> Dict[str, Any]:
    """graphql-core is the judge of default literals: a literal `value_from_ast` refuses (it would silently become "no
    default") is removed, until every remaining default is valid"""
    from graphql import Undefined, build_ast_schema, parse

    for _ in range(12):
        try:
            schema = build_ast_schema(parse(case["sdl"]))
        except Exception:  # noqa: BLE001
            return case
        changed = False
        for d in case["defs"]:
            if d["kind"] == "input":
                for f in d["fields"]:
                    if f["default"] is not None and schema.type_map[d["name"]].fields[f["name"]].default_value is Undefined:
                        f["default"] = None
                        changed = True
        if not changed:
            return case
        case["sdl"] = defs_sdl(case["defs"])
    return case


def gen_case(rng: random.Random, clean: Optional[bool] = None) -> Dict[str, Any]:
    if clean is None:
        clean = rng.random() < 0.5
    return drop_invalid_defaults(Gen(rng, clean, snake=rng.random() < 0.6).generate())


# --------------------------------------------------------------------------------------------
# values
# --------------------------------------------------------------------------------------------


def gen_value(case: Dict[str, Any], t: List[Any], rng: random.Random, depth: int = 0, null_p: float = 0.2) -> Any:
    """a canonical-form value of type t (IDs as strings, enums by name, lists as lists, null items where allowed)"""
    dn = by_name(case["defs"])
    if t[0] == "nonnull":
        return gen_value(case, t[1], rng, depth, 0.0)
    if null_p and rng.random() < null_p:
        return None
    if t[0] == "list":
        n = rng.choice([0, 1, 2, 3]) if depth < 4 else 0
        return [gen_value(case, t[1], rng, depth + 1, 0.3) for _ in range(n)]
    name = t[1]
    if name == "Int":
        return rng.choice([0, 3, -5, 1000, 2147483647])
    if name == "Float":
        return rng.choice([0.5, 2.0, -1.25, 7, 0])
    if name == "String":
        return rng.choice(["", "s", "two words", "ü", "5"])
    if name == "Boolean":
        return rng.random() < 0.5
    if name == "ID":
        return rng.choice(["id1", "42", ""])
    d = dn.get(name)
    if d is None:
        return None
    if d["kind"] == "scalar":
        if name == "Upload":
            return None
        sc = next((s for s in case["cfg"]["scalars"] if s["name"] == name), None)
        if sc is not None:
            return rng.choice(["2021-02-03", "raw"]) if sc["typeName"] == "str" else rng.choice([12, 0])
        return rng.choice(["2021-02-03", 12, "raw", [1, "x"], {"a": 1, "b": [None]}, True, 1.5])
    if d["kind"] == "enum":
        return rng.choice(d["values"])
    if d["kind"] == "input":
        out: Dict[str, Any] = {}
        for f in d["fields"]:
            required = is_nonnull(f["type"]) and f["default"] is None
            if required or (depth < 3 and rng.random() < 0.55):
                np = null_p if depth < 3 else (0.0 if is_nonnull(f["type"]) else 1.0)
                v = gen_value(case, f["type"], rng, depth + 1, np)
                if v is None and is_nonnull(f["type"]):
                    continue  # no JSON value exists (required Upload): leave it out, graphql-core will refuse the object
                out[f["name"]] = v
        return out
    return None


def corrupt(v: Any, rng: random.Random) -> Any:
    """replace one node by a value of another JSON kind / drop or add a key"""
    v = copy.deepcopy(v)
    repl = [None, True, 5, 5.0, 1.5, "5", "1.5", "true", "abc", "", [], [1], {}, {"zzz": 1}]
    paths: List[List[Any]] = []

    def walk(x: Any, p: List[Any]) -> None:
        paths.append(p)
        if isinstance(x, dict):
            for k in x:
                walk(x[k], p + [k])
        elif isinstance(x, list):
            for i, y in enumerate(x):
                walk(y, p + [i])

    walk(v, [])
    p = rng.choice(paths)
    if not p:
        if isinstance(v, dict) and rng.random() < 0.7:
            if v and rng.random() < 0.5:
                v.pop(rng.choice(list(v)))
            else:
                v["extraKey"] = rng.choice(repl)
            return v
        return rng.choice(repl)
    cur = v
    for step in p[:-1]:
        cur = cur[step]
    if isinstance(cur, dict) and rng.random() < 0.3:
        cur.pop(p[-1])
    else:
        cur[p[-1]] = rng.choice(repl)
    return v


LAX_STRINGS = ["5", "1.5", "true", "abc", "", "s", "two words", "ü", "id1", "42", "2021-02-03", "raw", "x", "c-1", "2020-01-01",
               "RED", "GREEN", "BLUE", "ASC", "DESC", "A", "B", "V1", "lower_case", "Mixed_Case", "id-1"] + KW_ENUM_VALUES + STRINGS


def lax_table() -> Dict[str, Any]:
    """pydantic-core's lax string parsers on the strings the generators use (the `Lax` parameter of Spec/PydInput)"""
    from pydantic import TypeAdapter

    out: Dict[str, List[Any]] = {"int": [], "float": [], "bool": []}
    for name, ty in (("int", int), ("float", float), ("bool", bool)):
        ta = TypeAdapter(ty)
        for s in sorted(set(LAX_STRINGS)):
            try:
                out[name].append([s, ta.validate_python(s)])
            except Exception:  # noqa: BLE001
                pass
    return out


# --------------------------------------------------------------------------------------------
# correspondence A: class IR of the real InputTypesGenerator
# --------------------------------------------------------------------------------------------


def expr_json(node: Optional[ast.AST]) -> Any:
    """canonical form of an emitted value expression (twin of Driver/C06.lean encExpr/encValue)"""
    if node is None:
        return None
    if isinstance(node, ast.Constant):
        v = node.value
        if v is None:
            return {"e": "none"}
        if isinstance(v, bool):
            return {"e": "bool", "v": v}
        if isinstance(v, int):
            return {"e": "int", "v": v}
        if isinstance(v, float):
            return {"e": "float", "v": v}
        if isinstance(v, str):
            return {"e": "str", "v": v}
    if isinstance(node, ast.Name):
        return {"e": "name", "v": node.id}
    if isinstance(node, ast.List):
        return {"e": "list", "v": [expr_json(x) for x in node.elts]}
    if isinstance(node, ast.Dict):
        return {"e": "dict", "v": [[k.value if isinstance(k, ast.Constant) else "?", expr_json(v)] for k, v in zip(node.keys, node.values)]}
    if isinstance(node, ast.Lambda) and not node.args.args:
        return {"e": "lambda", "v": expr_json(node.body)}
    if isinstance(node, ast.Call) and isinstance(node.func, ast.Name) and node.func.id == "Field" and not node.args:
        return {"e": "field", "kw": [[k.arg, expr_json(k.value)] for k in node.keywords]}
    if (isinstance(node, ast.Call) and isinstance(node.func, ast.Attribute) and node.func.attr == "model_validate"
            and isinstance(node.func.value, ast.Subscript) and isinstance(node.func.value.value, ast.Call)
            and getattr(node.func.value.value.func, "id", "") == "globals" and len(node.args) == 1 and not node.keywords):
        key = node.func.value.slice
        return {"e": "modelValidate", "t": key.value if isinstance(key, ast.Constant) else "?", "v": expr_json(node.args[0])}
    return {"e": "?", "v": ast.dump(node)[:200]}


def same_expr(a: Any, b: Any) -> bool:
    """impl expression (floats as values) vs model expression (floats as lexemes)"""
    if isinstance(a, dict) and isinstance(b, dict):
        if a.get("e") == "float" and b.get("e") == "float":
            try:
                return float(a["v"]) == float(b["v"])
            except (TypeError, ValueError):
                return False
        if set(a) != set(b):
            return False
        return all(same_expr(a[k], b[k]) for k in a)
    if isinstance(a, list) and isinstance(b, list):
        return len(a) == len(b) and all(same_expr(x, y) for x, y in zip(a, b))
    return a == b and type(a) is type(b)


def value_required(v: Any) -> bool:
    if v is None:
        return True
    if isinstance(v, dict) and v.get("e") == "field":
        return not any(k in ("default", "default_factory") for k, _ in v["kw"])
    return False


def classes_of_module(module: ast.Module) -> List[Dict[str, Any]]:
    out = []
    for node in module.body:
        if isinstance(node, ast.ClassDef):
            fields = []
            for s in node.body:
                if isinstance(s, ast.AnnAssign) and isinstance(s.target, ast.Name):
                    v = expr_json(s.value)
                    fields.append({"py": s.target.id, "ann": ast.unparse(s.annotation), "value": v, "required": value_required(v)})
            out.append({"name": node.name, "bases": [ast.unparse(b) for b in node.bases], "fields": fields})
    return out


def enum_import_of(module: ast.Module) -> List[str]:
    """the names of `from .enums import ...` (raw: order and repetitions as `get_used_enums()` returns them)"""
    out: List[str] = []
    for node in module.body:
        if isinstance(node, ast.ImportFrom) and node.module == "enums" and node.level == 1:
            out += [a.name for a in node.names]
    return out


def _observe_generator(schema: Any, c: Dict[str, Any]) -> Dict[str, Any]:
    """the REAL InputTypesGenerator on one schema object: class IR of generate(), and for generate() and
    generate(types_to_include=roots) the emitted class names and the enum import list"""
    from ariadne_codegen.client_generators.input_types import InputTypesGenerator
    from ariadne_codegen.client_generators.scalars import ScalarData

    def make() -> Any:
        scalars = {s["name"]: ScalarData(type_=s["typeName"], serialize=s["serialize"], graphql_name=s["name"]) for s in c["cfg"]["scalars"]}
        return InputTypesGenerator(schema=schema, convert_to_snake_case=c["cfg"]["snake"], custom_scalars=scalars)

    out: Dict[str, Any] = {"modules": []}
    for roots in (None, c.get("roots")):
        try:
            mod = make().generate() if roots is None else make().generate(types_to_include=list(roots))
        except Exception as e:  # noqa: BLE001
            if roots is None:
                return {"error": type(e).__name__}
            out["modules"].append({"error": type(e).__name__})
            continue
        if roots is None:
            out["classes"] = classes_of_module(mod)
        out["modules"].append({"names": [n.name for n in mod.body if isinstance(n, ast.ClassDef)], "enumImport": enum_import_of(mod)})
    return out


def _classes_chunk(cases: List[Dict[str, Any]]) -> List[Dict[str, Any]]:
    """child side: the REAL generator on the schema built from the SDL of each case and on the schema obtained from it by
    introspection (`build_client_schema(introspection_from_schema(schema))`: no `ast_node` anywhere)"""
    from graphql import build_ast_schema, build_client_schema, introspection_from_schema, parse

    outs = []
    for c in cases:
        try:
            schema = build_ast_schema(parse(c["sdl"]))
        except Exception as e:  # noqa: BLE001
            outs.append({"build_error": f"{type(e).__name__}: {e}"[:300]})
            continue
        o: Dict[str, Any] = {}
        try:
            o["sdl"] = _observe_generator(schema, c)
            try:
                client_schema = build_client_schema(introspection_from_schema(schema))
            except Exception as e:  # noqa: BLE001   graphql-core cannot print a structured default of a custom scalar
                o["intro"] = {"not_introspectable": f"{type(e).__name__}: {e}"[:200]}
            else:
                o["intro"] = _observe_generator(client_schema, c)
        except (AttributeError, ImportError, TypeError) as e:
            o = {"observer": repr(e)[:300]}
        outs.append(o)
    return outs


def cfg_wire(cfg: Dict[str, Any]) -> Dict[str, Any]:
    return {"snake": cfg["snake"], "scalars": [{"name": s["name"], "typeName": s["typeName"].rsplit(".", 1)[-1],
                                                "serialize": s["serialize"].rsplit(".", 1)[-1] if s["serialize"] else None}
                                               for s in cfg["scalars"]]}


def model_classes(o: Dict[str, Any]) -> Dict[str, Any]:
    if any(f is None for c in o["classes"] for f in c["fields"]):
        return {"error": "ParsingError"}
    return {"classes": o["classes"]}


def same_classes(impl: Dict[str, Any], model: Dict[str, Any]) -> bool:
    if "error" in impl or "error" in model:
        return impl.get("error") == model.get("error")
    a, b = impl["classes"], model["classes"]
    if [c["name"] for c in a] != [c["name"] for c in b]:
        return False
    for ca, cb in zip(a, b):
        if ca.get("bases", ["BaseModel"]) != ["BaseModel"] or len(ca["fields"]) != len(cb["fields"]):
            return False
        for fa, fb in zip(ca["fields"], cb["fields"]):
            if fa["py"] != fb["py"] or fa["ann"] != fb["ann"] or fa["required"] != fb["required"] or not same_expr(fa["value"], fb["value"]):
                return False
    return True


def differing_classes(impl: Dict[str, Any], model: Dict[str, Any]) -> Optional[List[str]]:
    """names of the classes whose IR differs; None when the difference is not per class"""
    if "error" in impl or "error" in model:
        return None
    a, b = impl["classes"], model["classes"]
    if [c["name"] for c in a] != [c["name"] for c in b]:
        return None
    return [ca["name"] for ca, cb in zip(a, b) if not same_classes({"classes": [ca]}, {"classes": [cb]})]


def chunks(xs: List[Any], n: int) -> List[List[Any]]:
    return [xs[i:i + n] for i in range(0, len(xs), n)]


def fixed_cases() -> List[Dict[str, Any]]:
    """hand-written definitions: every wrapper shape up to depth 3, every default kind, the finding shapes"""
    out = []
    wrappers: List[List[Any]] = []

    def grow(t: List[Any], depth: int) -> None:
        wrappers.append(t)
        wrappers.append(["nonnull", t])
        if depth < 3:
            grow(["list", t], depth + 1)
            grow(["list", ["nonnull", t]], depth + 1)

    grow(t_named("Int"), 0)
    for base in ["Int", "Color", "Sub", "JSON", "Code"]:
        fields = []
        for i, w in enumerate(wrappers):
            def rebase(t: List[Any]) -> List[Any]:
                return t_named(base) if t[0] == "named" else [t[0], rebase(t[1])]
            fields.append({"name": f"w{i}", "type": rebase(w), "default": None, "deprecated": False})
        defs = [{"kind": "enum", "name": "Color", "values": ["RED", "GREEN"]}, {"kind": "scalar", "name": "JSON"},
                {"kind": "scalar", "name": "Code"},
                {"kind": "input", "name": "Sub", "fields": [{"name": "s", "type": t_named("String"), "default": None, "deprecated": False}]},
                {"kind": "input", "name": "In", "fields": fields}, {"kind": "composite", "name": "Query"}]
        for snake in (True, False):
            out.append({"defs": defs, "sdl": defs_sdl(defs), "clean": False,
                        "cfg": {"snake": snake, "scalars": [{"name": "Code", "typeName": "str", "serialize": "scalar_helpers.ser"}]}})
    return out


def strip_effective_defaults(case: Dict[str, Any]) -> Dict[str, Any]:
    """remove every default the introspection path cannot see (what is left: `= null` on nullable types): the theorem region
    of the introspection source"""
    for d in case["defs"]:
        if d["kind"] == "input":
            for f in d["fields"]:
                if effective_default(f):
                    f["default"] = None
    case["sdl"] = defs_sdl(case["defs"])
    return case


def pick_roots(rng: random.Random, case: Dict[str, Any]) -> List[str]:
    """an argument for generate(types_to_include=...): some input names (repetitions allowed), now and then a name that is
    not an input type"""
    inputs = [d["name"] for d in case["defs"] if d["kind"] == "input"]
    others = [d["name"] for d in case["defs"] if d["kind"] != "input"] + ["Nope"]
    roots = rng.sample(inputs, rng.randint(0, len(inputs)))
    if roots and rng.random() < 0.15:
        roots.append(rng.choice(roots))
    if rng.random() < 0.15:
        roots.insert(rng.randint(0, len(roots)), rng.choice(others))
    return roots


def check_classes(ctx: Ctx, st: Optional[LeanStatus], res: Result, n: int) -> None:
    rng = ctx.sub_rng("classes")
    cases = fixed_cases()
    for i in range(n):
        c = gen_case(rng)
        if i % 6 == 5:
            c = strip_effective_defaults(c)
        cases.append(c)
    for c in cases:
        c["roots"] = pick_roots(rng, c)
    parts = chunks(cases, 40)
    _quiet_fork_warning()
    results = engine.pmap_forked(_classes_chunk, [(p,) for p in parts], timeout=300)
    impl: List[Any] = []
    for p, (status, val) in zip(parts, results):
        if status != "ok":
            raise common.Infra(f"classes chunk: {status} {val}")
        impl += val
    model: Dict[Tuple[int, str, str], Any] = {}
    if st is not None and st.driver_ok:
        lines: List[Dict[str, Any]] = []
        keys: List[Tuple[int, str, str]] = []
        for i, (c, o) in enumerate(zip(cases, impl)):
            if "observer" in o or "build_error" in o:
                continue
            for source in ("sdl", "intro"):
                if "not_introspectable" in o[source]:
                    continue
                base = {"cfg": cfg_wire(c["cfg"]), "defs": c["defs"], "mode": source}
                lines.append({"op": "classes", **base})
                keys.append((i, source, "classes"))
                lines.append({"op": "module", **base, "roots": None})
                keys.append((i, source, "all"))
                lines.append({"op": "module", **base, "roots": c["roots"]})
                keys.append((i, source, "roots"))
        model = dict(zip(keys, common.run_driver(PROP, lines)))
    for i, (c, o) in enumerate(zip(cases, impl)):
        if "observer" in o:
            res.mismatches.append(Mismatch("classIR", {"kind": "classes", "sdl": c["sdl"], "cfg": c["cfg"]}, "observer: " + o["observer"], None))
            continue
        if "build_error" in o:
            res.count("classes:schema-refused-by-graphql-core")
            continue
        n_fields = sum(len(d["fields"]) for d in c["defs"] if d["kind"] == "input")
        n_defaults = sum(1 for d in c["defs"] if d["kind"] == "input" for f in d["fields"] if f["default"] is not None)
        res.count("classes:fields", n_fields)
        res.count("classes:defaults", n_defaults)
        for d in c["defs"]:
            if d["kind"] == "input":
                for f in d["fields"]:
                    if f["default"] is not None:
                        res.count("default-kind:" + f["default"]["k"])
                    if real_py_name(c["cfg"]["snake"], f["name"]) != f["name"]:
                        res.count("classes:aliased-fields")
        for source in ("sdl", "intro"):
            tag = "classes" if source == "sdl" else "classes-intro"
            oo = o[source]
            if "not_introspectable" in oo:
                res.count("classes-intro:schema-not-introspectable (structured default of a custom scalar; graphql-core)")
                continue
            inp = {"kind": "classes", "sdl": c["sdl"], "cfg": c["cfg"], "source": source}
            ptr = python_triggers({**c, "source": source})
            act = active_triggers(ptr, list(ptr))
            res.count(f"{tag}:clean" if not act else f"{tag}:in-trigger-region")
            for t in act:
                res.count(("region:" if source == "sdl" else "region-intro:") + t)
            res.seen([c["sdl"], c["cfg"], source], nontrivial=n_fields > 0)
            if not model:
                continue
            m = model[(i, source, "classes")]
            if not same_classes(oo, model_classes(m)):
                # the model reproduces the generator inside the finding regions too; a difference that is confined to
                # classes inside a region is reported as such (a repaired finding must not read as a violation)
                bad = differing_classes(oo, model_classes(m))
                region = None
                if bad is not None and bad and all(active_triggers(ptr, [b]) for b in bad):
                    region = active_triggers(ptr, bad)[0]
                res.mismatches.append(Mismatch("classIR" if source == "sdl" else "classIR-introspection", inp, oo, model_classes(m), trigger=region))
            ltr = lean_triggers(m["triggers"])
            if ltr != ptr:
                diff = {t: {f: (ptr[t]["fields"].get(f), ltr.get(t, {}).get("fields", {}).get(f)) for f in ptr[t]["fields"]
                            if ptr[t]["fields"].get(f) != ltr.get(t, {}).get("fields", {}).get(f)} for t in ptr}
                res.mismatches.append(Mismatch("triggers", inp, {"python": diff, "names": {t: ptr[t]["trigNameDefect"] for t in ptr}},
                                               {"names": {t: ltr.get(t, {}).get("trigNameDefect") for t in ptr}}))
            if (not act) != bool(m["supported"]):
                res.mismatches.append(Mismatch("supported", inp, not act, m["supported"]))
            # the hypothesis of the acceptance theorem (`InputRel.related`) is what the generator establishes outside
            # the triggers: measured here on every trigger-free case, for both sources
            if not act:
                res.count(f"{tag}:related-holds" if m["related"] else f"{tag}:related-fails")
                if not m["related"]:
                    res.mismatches.append(Mismatch("related", inp, "no trigger fires", "InputRel.related = false"))
                # WF_06 / WF_06_src: there Proved_06 is a theorem (C06.proved_06_of_wf, proved_06_src_of_wf); elsewhere it is this
                # measurement only
                res.count(f"{tag}:Proved_06-is-a-theorem (WF_06)" if m.get("wf") else
                          f"{tag}:Proved_06-measured-only (object-literal default / structured literal on a custom scalar)")
            # class selection and the enum import of generate() / generate(types_to_include=roots)
            if "error" not in oo:
                for which, real_mod, roots in (("all", oo["modules"][0], None), ("roots", oo["modules"][1], c["roots"])):
                    mm = model[(i, source, which)]
                    res.count(f"{tag}:module-{which}")
                    if roots is not None:
                        res.count("module:roots", len(roots))
                        res.count("module:classes-emitted", len(real_mod.get("names", [])))
                        res.count("module:enum-import-names", len(real_mod.get("enumImport", [])))
                    # isort sorts and de-duplicates the names of one `from ... import`: order and repetitions of the enum list
                    # are not part of the property
                    got = {"names": mm.get("names"), "enumImport": sorted(set(mm.get("enumImport") or []))}
                    real_mod = {**real_mod, "enumImport": sorted(set(real_mod.get("enumImport") or []))} if "enumImport" in real_mod else real_mod
                    if real_mod != got:
                        res.mismatches.append(Mismatch("module(class selection, enum import)", {**inp, "roots": roots}, real_mod, got))
            if i < 3 and source == "sdl":
                res.sample({"input": c["sdl"][:400], "impl": oo.get("classes", oo)[:1] if isinstance(oo.get("classes"), list) else oo, "model_agrees": True})


# --------------------------------------------------------------------------------------------
# correspondence B1: graphql-core coercion vs Spec/CoerceInput
# --------------------------------------------------------------------------------------------


def gql_plain(v: Any) -> Any:
    """graphql-core's coerced Python value as JSON (floats stay floats; inf/nan do not occur)"""
    if isinstance(v, dict):
        return {k: gql_plain(x) for k, x in v.items()}
    if isinstance(v, (list, tuple)):
        return [gql_plain(x) for x in v]
    return v


def _coerce_chunk(items: List[Dict[str, Any]]) -> List[Dict[str, Any]]:
    """child side (graphql-core only): per item the schema's default_values, coerce_input_value on the probe values and
    value_from_ast on the probe literals"""
    from graphql import Undefined, build_ast_schema, parse, parse_const_value, parse_type, type_from_ast, value_from_ast
    from graphql.utilities import coerce_input_value

    outs = []
    for it in items:
        try:
            schema = build_ast_schema(parse(it["sdl"]))
        except Exception as e:  # noqa: BLE001
            outs.append({"build_error": f"{type(e).__name__}: {e}"[:200]})
            continue
        o: Dict[str, Any] = {"defaults": {}, "coerce": [], "lits": []}
        for d in it["inputs"]:
            t = schema.type_map[d]
            o["defaults"][d] = {fn: (None if f.default_value is Undefined else {"ok": gql_plain(f.default_value)}) for fn, f in t.fields.items()}
        for tstr, v in it["values"]:
            ty = type_from_ast(schema, parse_type(tstr))
            errs: List[Any] = []
            try:
                c = coerce_input_value(v, ty, lambda path, val, err: errs.append(str(err)))
                o["coerce"].append({"err": True} if errs else {"ok": gql_plain(c)})
            except Exception as e:  # noqa: BLE001
                o["coerce"].append({"raised": type(e).__name__})
        for tstr, ltext in it["lits"]:
            ty = type_from_ast(schema, parse_type(tstr))
            try:
                c = value_from_ast(parse_const_value(ltext), ty)
                o["lits"].append({"err": True} if c is Undefined else {"ok": gql_plain(c)})
            except Exception as e:  # noqa: BLE001
                o["lits"].append({"raised": type(e).__name__})
        outs.append(o)
    return outs


def rand_lit(rng: random.Random, case: Dict[str, Any], depth: int = 0) -> Dict[str, Any]:
    """an arbitrary literal (mostly ill-typed for any given type)"""
    enums = [v for d in case["defs"] if d["kind"] == "enum" for v in d["values"]] or ["X"]
    ks = ["int", "float", "str", "bool", "null", "enum"] + (["list", "obj"] if depth < 2 else [])
    k = rng.choice(ks)
    if k == "int":
        return {"k": "int", "v": rng.choice([0, 7, -1, 2147483648, 3000000000])}
    if k == "float":
        return {"k": "float", "v": rng.choice(FLOAT_LEXEMES)}
    if k == "str":
        return {"k": "str", "v": rng.choice(STRINGS + ["RED", "5"])}
    if k == "bool":
        return {"k": "bool", "v": rng.random() < 0.5}
    if k == "null":
        return {"k": "null"}
    if k == "enum":
        return {"k": "enum", "v": rng.choice(enums + ["NOPE"])}
    if k == "list":
        return {"k": "list", "v": [rand_lit(rng, case, depth + 1) for _ in range(rng.choice([0, 1, 2]))]}
    fns = [f["name"] for d in case["defs"] if d["kind"] == "input" for f in d["fields"]] or ["a"]
    keys = rng.sample(sorted(set(fns + ["zzz"])), min(len(set(fns + ["zzz"])), rng.choice([0, 1, 2])))
    return {"k": "obj", "v": [[kk, rand_lit(rng, case, depth + 1)] for kk in keys]}


def all_types(case: Dict[str, Any]) -> List[List[Any]]:
    ts = []
    for d in case["defs"]:
        if d["kind"] == "input":
            ts.append(t_named(d["name"]))
            for f in d["fields"]:
                ts.append(f["type"])
    return ts


def check_coerce(ctx: Ctx, st: Optional[LeanStatus], res: Result, n: int) -> None:
    rng = ctx.sub_rng("coerce")
    cases = [gen_case(rng) for _ in range(n)]
    items = []
    for c in cases:
        ts = all_types(c)
        gen = Gen(rng, False, c["cfg"]["snake"])
        gen.enums = {d["name"]: d["values"] for d in c["defs"] if d["kind"] == "enum"}
        gen.scalars = [d["name"] for d in c["defs"] if d["kind"] == "scalar"]
        gen.inputs = {d["name"]: d["fields"] for d in c["defs"] if d["kind"] == "input"}
        gen.cfg = c["cfg"]
        values, lits = [], []
        for _ in range(10):
            t = rng.choice(ts)
            v = gen_value(c, t, rng)
            values.append([type_str(t), v])
            values.append([type_str(t), corrupt(v, rng)])
        for _ in range(8):
            t = rng.choice(ts)
            l = gen.lit(t, 0, True, 99)
            if l is not None:
                lits.append([type_str(t), l])
            lits.append([type_str(t), rand_lit(rng, c)])
        items.append({"sdl": c["sdl"], "inputs": [d["name"] for d in c["defs"] if d["kind"] == "input"], "values": values,
                      "lits": [[t, lit_sdl(l)] for t, l in lits], "lit_trees": lits})
    parts = chunks(items, 25)
    _quiet_fork_warning()
    results = engine.pmap_forked(_coerce_chunk, [(p,) for p in parts], timeout=300)
    impl: List[Any] = []
    for status, val in results:
        if status != "ok":
            raise common.Infra(f"coerce chunk: {status} {val}")
        impl += val
    if st is None or not st.driver_ok:
        return
    lines: List[Dict[str, Any]] = []
    index: List[Tuple[int, str, int]] = []
    for i, (c, it, o) in enumerate(zip(cases, items, impl)):
        if "build_error" in o:
            continue
        lines.append({"op": "defaults", "defs": c["defs"]})
        index.append((i, "defaults", 0))
        for j, (tstr, v) in enumerate(it["values"]):
            lines.append({"op": "coerce", "defs": c["defs"], "type": parse_type_str(tstr), "value": wire.enc(v)})
            index.append((i, "coerce", j))
        for j, (tstr, l) in enumerate(it["lit_trees"]):
            lines.append({"op": "coerceLit", "defs": c["defs"], "type": parse_type_str(tstr), "lit": l})
            index.append((i, "lits", j))
    outs = common.run_driver(PROP, lines)
    for (i, kind, j), m in zip(index, outs):
        c, it, o = cases[i], items[i], impl[i]
        if kind == "defaults":
            got = {t["name"]: {f["name"]: (None if f["default"] is None else dec_result(f["default"])) for f in t["fields"]} for t in m}
            if not same_results(o["defaults"], got):
                res.mismatches.append(Mismatch("default_value", {"kind": "coerce", "sdl": c["sdl"]}, o["defaults"], got))
            res.count("coerce:schemas")
            continue
        real = o[kind][j]
        mod = dec_result(m)
        probe = it["values"][j] if kind == "coerce" else it["lits"][j]
        res.count(f"{kind}:{'accepted' if 'ok' in real else 'rejected'}")
        res.seen([c["sdl"], kind, probe], nontrivial="ok" in real)
        if "raised" in real or not same_results(real, mod):
            res.mismatches.append(Mismatch("coerce_input_value" if kind == "coerce" else "value_from_ast",
                                           {"kind": "coerce", "sdl": c["sdl"], "type": probe[0], "probe": probe[1]}, real, mod))


def parse_type_str(s: str) -> List[Any]:
    if s.endswith("!"):
        return ["nonnull", parse_type_str(s[:-1])]
    if s.startswith("["):
        return ["list", parse_type_str(s[1:-1])]
    return ["named", s]


def dec_result(m: Any) -> Any:
    if isinstance(m, dict) and "ok" in m:
        return {"ok": wire.dec(m["ok"])}
    return {"err": True}


def same_results(a: Any, b: Any) -> bool:
    if isinstance(a, dict) and isinstance(b, dict) and ("ok" in a or "err" in a) and ("ok" in b or "err" in b):
        if ("ok" in a) != ("ok" in b):
            return False
        return "ok" not in a or common.same_json(a["ok"], b["ok"])
    if isinstance(a, dict) and isinstance(b, dict):
        return set(a) == set(b) and all(same_results(a[k], b[k]) for k in a)
    return a is None and b is None


# --------------------------------------------------------------------------------------------
# the really generated package (child side)
# --------------------------------------------------------------------------------------------

HELPERS_SRC = "def ser(v):\n    return v\n"


def queries_for(defs: List[Dict[str, Any]], roots: List[str]) -> str:
    """an operation whose variables are typed with the inputs `roots` (argument a<i> of Query.q takes the i-th input type:
    defs_sdl); with no roots the operation uses no input at all"""
    inputs = [d["name"] for d in defs if d["kind"] == "input"]
    used = [(i, n) for i, n in enumerate(inputs) if n in roots]
    if not used:
        return "query Q { q }"
    vars_ = ", ".join(f"$v{i}: {n}" for i, n in used)
    args = ", ".join(f"a{i}: $v{i}" for i, n in used)
    return f"query Q({vars_}) {{ q({args}) }}"


def expected_types(case: Dict[str, Any]) -> List[str]:
    """the input types the package must contain: all of them, or (include_all_inputs = false) those the operation's variables
    reach - decided here from the definitions, independently of the Lean model"""
    inputs = [d["name"] for d in case["defs"] if d["kind"] == "input"]
    prune = case.get("prune")
    if prune is None:
        return inputs
    keep: List[str] = []
    for r in prune["roots"]:
        for t in reachable_types(case["defs"], r):
            if t not in keep:
                keep.append(t)
    return [n for n in inputs if n in keep]


def to_plain(v: Any) -> Any:
    """a Python value as the JSON the Lean driver prints for `PV` (Driver/C06.lean encPV)"""
    import enum

    from pydantic import BaseModel
    from pydantic.fields import FieldInfo

    if isinstance(v, BaseModel):
        return {"$model": type(v).__name__, "fields": [[k, to_plain(getattr(v, k))] for k in type(v).model_fields],
                "set": sorted(v.model_fields_set)}
    if isinstance(v, enum.Enum):
        return {"$enum": [type(v).__name__, v.name, v.value]}
    if isinstance(v, FieldInfo):
        return {"$fieldinfo": True}
    if isinstance(v, (list, tuple)):
        return [to_plain(x) for x in v]
    if isinstance(v, dict):
        return {"$dict": [[str(k), to_plain(x)] for k, x in v.items()]}
    if isinstance(v, (str, int, float, bool)) or v is None:
        return v
    return {"$py": repr(v)[:80]}


def classify_exc(e: BaseException, cls_name: str) -> Dict[str, Any]:
    from pydantic import ValidationError

    if isinstance(e, ValidationError):
        if e.title != cls_name:
            return {"err": "default:ValidationError"}
        missing = [".".join(str(p) for p in x["loc"]) for x in e.errors() if x["type"] == "missing"]
        return {"err": "validation", "missing": missing, "n": e.error_count()}
    return {"err": "default:" + type(e).__name__, "msg": str(e)[:120]}


def _package_case(root: Path, case: Dict[str, Any]) -> Dict[str, Any]:
    """child side: generate with the REAL main.client, import, exercise the input classes"""
    from graphql import GraphQLEnumType, GraphQLInputObjectType, GraphQLList, GraphQLNonNull, Undefined, build_schema
    from graphql.utilities import coerce_input_value

    out: Dict[str, Any] = {}
    cfg: Dict[str, Any] = {"convert_to_snake_case": case["cfg"]["snake"]}
    if case["cfg"]["scalars"]:
        cfg["scalars"] = {s["name"]: {k: v for k, v in (("type", s["typeName"]), ("serialize", s["serialize"])) if v} for s in case["cfg"]["scalars"]}
        (root / "scalar_helpers.py").write_text(HELPERS_SRC)
    prune = case.get("prune")
    if prune is not None:
        cfg["include_all_inputs"] = False
        cfg["include_all_enums"] = bool(prune["all_enums"])
    queries = queries_for(case["defs"], prune["roots"] if prune is not None else [])
    try:
        if case.get("source", "sdl") == "intro":
            # the schema is obtained by introspection of an in-process endpoint (no ast_node on any schema object)
            from . import c19

            cfg["remote_schema_url"] = "http://verif.test/graphql"
            with c19.patched_httpx(c19.graphql_server(case["sdl"])):
                gen = engine.generate_client(root, None, queries, cfg)
        else:
            gen = engine.generate_client(root, case["sdl"], queries, cfg)
    except BaseException as e:  # noqa: BLE001
        return {"gen_error": type(e).__name__, "refusal": engine.classify_exception(type(e).__name__), "msg": str(e)[:300]}
    try:
        engine.import_package(gen)
        mod = importlib.import_module("gen_pkg.input_types")
        enums_mod = importlib.import_module("gen_pkg.enums")
    except BaseException as e:  # noqa: BLE001
        return {"import_error": type(e).__name__, "msg": str(e)[:300], "src": gen.read("input_types.py")[:1500]}
    schema = build_schema(case["sdl"])

    def unwrap(t: Any) -> Any:
        while isinstance(t, (GraphQLNonNull, GraphQLList)):
            t = t.of_type
        return t

    def key_map(tname: str) -> Dict[str, str]:
        cls = getattr(mod, tname)
        return {(fi.alias or n): n for n, fi in cls.model_fields.items()}

    def rekey(t: Any, v: Any, members: bool) -> Any:
        """GraphQL keys -> python names at every input-object position (and enum names -> members)"""
        if isinstance(t, GraphQLNonNull):
            return rekey(t.of_type, v, members)
        if v is None:
            return None
        if isinstance(t, GraphQLList):
            return [rekey(t.of_type, x, members) for x in v] if isinstance(v, list) else v
        if isinstance(t, GraphQLInputObjectType) and isinstance(v, dict) and hasattr(mod, t.name):
            km = key_map(t.name)
            return {km.get(k, k): (rekey(t.fields[k].type, x, members) if k in t.fields else x) for k, x in v.items()}
        if members and isinstance(t, GraphQLEnumType) and isinstance(v, str) and hasattr(enums_mod, t.name):
            try:
                return getattr(enums_mod, t.name)(v)
            except ValueError:
                return v
        return v

    def attempt(cls: Any, fn: Any) -> Dict[str, Any]:
        try:
            inst = fn()
        except BaseException as e:  # noqa: BLE001
            return classify_exc(e, cls.__name__)
        r: Dict[str, Any] = {"ok": to_plain(inst)}
        try:
            r["dump"] = inst.model_dump(mode="json", by_alias=True, exclude_unset=True)
        except BaseException as e:  # noqa: BLE001
            r["dump_error"] = type(e).__name__
        return r

    def server(t: Any, dumped: Any) -> Dict[str, Any]:
        errs: List[str] = []
        try:
            c = coerce_input_value(dumped, t, lambda path, val, err: errs.append(str(err)))
        except BaseException as e:  # noqa: BLE001
            return {"err": type(e).__name__}
        return {"err": errs[0][:120]} if errs else {"ok": gql_plain(c)}

    out["src"] = gen.read("input_types.py")[:3000] if case.get("want_src") else ""
    out["types"] = {}
    for tname, probes in case["probes"].items():
        t = schema.type_map[tname]
        if not hasattr(mod, tname):
            out["types"][tname] = {"missing_class": True}
            continue
        cls = getattr(mod, tname)
        info: Dict[str, Any] = {"fields": {}, "values": [], "corrupt": []}
        km = key_map(tname)
        for fn, f in t.fields.items():
            py = km.get(fn)
            fi = cls.model_fields.get(py) if py else None
            info["fields"][fn] = {"py": py, "required_model": fi.is_required() if fi is not None else None,
                                  "required_schema": isinstance(f.type, GraphQLNonNull) and f.default_value is Undefined,
                                  "default": None if f.default_value is Undefined else {"ok": gql_plain(f.default_value)}}
        for v in probes["values"]:
            rec: Dict[str, Any] = {"value": v, "coerced": server(t, v)}
            if "ok" in rec["coerced"]:
                rec["alias"] = attempt(cls, lambda: cls.model_validate(v))
                v_py = rekey(t, v, False)
                rec["py_value"] = v_py
                rec["name"] = attempt(cls, lambda: cls.model_validate(v_py))
                rec["kw"] = attempt(cls, lambda: cls(**v_py))
                v_mem = rekey(t, v, True)
                rec["members"] = attempt(cls, lambda: cls(**v_mem))
                if "dump" in rec["alias"]:
                    rec["server"] = server(t, rec["alias"]["dump"])
                # a value lacking a required field
                rec["lacking"] = {}
                for fn, fi in info["fields"].items():
                    if fi["required_schema"] and fn in v:
                        v2 = {k: x for k, x in v.items() if k != fn}
                        rec["lacking"][fn] = attempt(cls, lambda: cls.model_validate(v2))
                # read back every schema default: an instance created without that field
                rec["readback"] = {}
                for fn, fi in info["fields"].items():
                    if fi["default"] is not None and fi["py"] is not None:
                        v3 = {k: x for k, x in v.items() if k != fn}
                        r3 = attempt(cls, lambda: cls.model_validate(v3))
                        rb: Dict[str, Any] = {"built": "ok" in r3}
                        if "ok" in r3:
                            rb["attr"] = dict(r3["ok"]["fields"]).get(fi["py"], {"$absent": True})
                            rb["server"] = server(t, r3["dump"]) if "dump" in r3 else {"err": "dump"}
                        else:
                            rb["error"] = r3
                        rec["readback"][fn] = rb
            info["values"].append(rec)
        for v in probes["corrupt"]:
            info["corrupt"].append({"value": v, "alias": attempt(cls, lambda: cls.model_validate(v))})
        out["types"][tname] = info
    return out


package_case = engine.with_scratch(_package_case)


# --------------------------------------------------------------------------------------------
# judging: the oracle (property on the real code) and correspondence B2 (pydantic vs Spec/PydInput)
# --------------------------------------------------------------------------------------------


def plain_matches(dn: Dict[str, Dict[str, Any]], attr: Any, coerced: Any) -> bool:
    """does what the instance reads back equal the coerced schema default?  enum member by name, model instance field by
    field (a key absent from the coerced dict must read None), numbers numerically"""
    if isinstance(attr, dict) and "$enum" in attr:
        return isinstance(coerced, str) and attr["$enum"][2] == coerced
    if isinstance(attr, dict) and "$model" in attr:
        if not isinstance(coerced, dict):
            return False
        return None is not attr and _model_matches(dn, attr, coerced)
    if isinstance(attr, dict) and "$dict" in attr:
        if not isinstance(coerced, dict) or len(attr["$dict"]) != len(coerced):
            return False
        return all(k in coerced and plain_matches(dn, v, coerced[k]) for k, v in attr["$dict"])
    if isinstance(attr, dict):
        return False
    if isinstance(attr, list):
        return isinstance(coerced, list) and len(attr) == len(coerced) and all(plain_matches(dn, a, c) for a, c in zip(attr, coerced))
    return common.same_json(attr, coerced)


def _model_matches(dn: Dict[str, Dict[str, Any]], attr: Dict[str, Any], coerced: Dict[str, Any]) -> bool:
    # python name -> GraphQL name through the REAL class is not available here; the schema's field order is the class's
    d = dn.get(attr["$model"])
    if d is None or len(d["fields"]) != len(attr["fields"]):
        return False
    for f, (py, v) in zip(d["fields"], attr["fields"]):
        if f["name"] in coerced:
            if not plain_matches(dn, v, coerced[f["name"]]):
                return False
        elif v is not None:
            return False
    return set(coerced) <= {f["name"] for f in d["fields"]}


def value_hits_nullable_item(dn: Dict[str, Dict[str, Any]], t: List[Any], v: Any, seen_nn: bool = False, under_trigger: bool = False) -> bool:
    """does the value put a null at a list-item position that C06-F1 mis-annotates?"""
    if t[0] == "nonnull":
        return value_hits_nullable_item(dn, t[1], v, True, under_trigger)
    if v is None:
        return False
    if t[0] == "list":
        if not isinstance(v, list):
            return False
        bad_here = seen_nn and not is_nonnull(t[1])
        return any((x is None and bad_here) or value_hits_nullable_item(dn, t[1], x, seen_nn, under_trigger) for x in v)
    d = dn.get(t[1])
    if d is not None and d["kind"] == "input" and isinstance(v, dict):
        fm = {f["name"]: f for f in d["fields"]}
        return any(k in fm and value_hits_nullable_item(dn, fm[k]["type"], x) for k, x in v.items())
    return False


def lit_to_value(l: Dict[str, Any]) -> Any:
    k = l["k"]
    if k == "null":
        return None
    if k == "list":
        return [lit_to_value(x) for x in l["v"]]
    if k == "obj":
        return {kk: lit_to_value(v) for kk, v in l["v"]}
    if k == "float":
        return float(l["v"])
    return l["v"]


def default_hits_nullable_item(case: Dict[str, Any], scope: List[str]) -> bool:
    """does a default literal of a type in scope put a null where C06-F1 mis-annotates?  (then the default_factory's
    model_validate raises, which inside a nested class looks like a refusal of the outer value)"""
    dn = by_name(case["defs"])
    for t in scope:
        for f in dn[t]["fields"]:
            if f["default"] is not None and value_hits_nullable_item(dn, f["type"], lit_to_value(f["default"])):
                return True
    return False


def value_lacks_flipped(dn: Dict[str, Dict[str, Any]], t: List[Any], v: Any) -> bool:
    """does the value leave out (at any input-object level) a non-null field that has a schema default?  On the
    introspection path C06-F8 makes exactly those fields required"""
    if t[0] == "nonnull":
        return value_lacks_flipped(dn, t[1], v)
    if v is None:
        return False
    if t[0] == "list":
        return isinstance(v, list) and any(value_lacks_flipped(dn, t[1], x) for x in v)
    d = dn.get(t[1])
    if d is not None and d["kind"] == "input" and isinstance(v, dict):
        for f in d["fields"]:
            if f["name"] not in v:
                if is_nonnull(f["type"]) and f["default"] is not None:
                    return True
            elif value_lacks_flipped(dn, f["type"], v[f["name"]]):
                return True
    return False


def judge_package(case: Dict[str, Any], obs: Dict[str, Any], trigs: Dict[str, Any], res: Result) -> None:
    """the property on the real code; every deviation is a Failure with the trigger that explains it (or None)"""
    dn = by_name(case["defs"])
    intro = case.get("source", "sdl") == "intro"
    inp = {"kind": "package", "sdl": case["sdl"], "cfg": case["cfg"], "source": case.get("source", "sdl"), "prune": case.get("prune")}
    # only an emitted class can break generation / the import
    all_inputs = expected_types(case)

    def fail(sig: str, scope: List[str], detail: str, extra: Optional[Dict[str, Any]] = None, only: Optional[List[str]] = None) -> None:
        act = active_triggers(trigs, scope)
        if only is not None:
            act = [a for a in act if a in only]
        res.failures.append(Failure(sig, explain(sig, act), {**inp, **(extra or {})}, detail[:500]))

    if "gen_error" in obs:
        if obs.get("refusal", "").startswith("refusal:"):
            res.count("package:refused:" + obs["gen_error"])
            fail("generation-refused", all_inputs, f"{obs['gen_error']}: {obs.get('msg')}")
        else:
            fail("generation-crash", all_inputs, f"{obs['gen_error']}: {obs.get('msg')}")
        return
    if "import_error" in obs:
        fail("import-error", all_inputs, f"{obs['import_error']}: {obs.get('msg')}")
        return
    for tname, info in obs["types"].items():
        scope = reachable_types(case["defs"], tname)
        if info.get("missing_class"):
            fail("class-missing", all_inputs, f"no class {tname} in input_types.py")
            continue
        for fn, fi in info["fields"].items():
            if fi["py"] is None:
                fail("class-missing", [tname], f"{tname}.{fn}: no model field carries this GraphQL name", {"type": tname, "field": fn})
            elif fi["required_model"] != fi["required_schema"]:
                fdef0 = next(f for f in dn[tname]["fields"] if f["name"] == fn)
                flipped = intro and is_nonnull(fdef0["type"]) and fdef0["default"] is not None and not fi["required_schema"]
                fail("required-not-enforced" if fi["required_schema"] else "valid-value-rejected", [tname],
                     f"{tname}.{fn}: required in schema={fi['required_schema']} in model={fi['required_model']}", {"type": tname, "field": fn},
                     only=["trigNameDefect"] + (["trigDefaultLostIntro"] if flipped else []))
        for rec in info["values"]:
            res.count("oracle:values")
            if "ok" not in rec["coerced"]:
                res.count("oracle:values-refused-by-graphql-core (not judged)")
                continue
            res.count("oracle:values-accepted-by-graphql-core")
            v = rec["value"]
            hits_f1 = value_hits_nullable_item(dn, t_named(tname), v) or (not intro and default_hits_nullable_item(case, scope))
            hits_f8 = intro and value_lacks_flipped(dn, t_named(tname), v)
            for how in ("alias", "name", "kw", "members"):
                r = rec[how]
                if "ok" in r:
                    continue
                if r["err"].startswith("default:"):
                    fail("default-raises", scope, f"{tname} built {how} from {json.dumps(v)[:200]}: {r}", {"type": tname, "value": v, "how": how})
                else:
                    # a ValidationError raised by a default_factory of a NESTED class is indistinguishable from a refusal
                    only = (["trigNameDefect", "trigCoercingDefault"] + (["trigNullableListItem"] if hits_f1 else [])
                            + (["trigDefaultLostIntro"] if hits_f8 else []))
                    fail("valid-value-rejected", scope, f"{tname} built {how} from {json.dumps(v)[:200]}: {r}",
                         {"type": tname, "value": v, "how": how}, only=only)
            for fn, r in rec.get("lacking", {}).items():
                if "ok" in r:
                    fail("required-not-enforced", [tname], f"{tname} without required {fn} was accepted", {"type": tname, "value": v, "field": fn})
                elif r["err"] != "validation":
                    fail("default-raises", scope, f"{tname} without required {fn}: {r}", {"type": tname, "value": v, "field": fn})
            for fn, rb in rec.get("readback", {}).items():
                res.count("oracle:readbacks")
                fdef = next(f for f in dn[tname]["fields"] if f["name"] == fn)
                fscope = [tname] + reachable_types(case["defs"], base_name(fdef["type"]))
                ftrigs = {tname: {"trigNameDefect": trigs.get(tname, {}).get("trigNameDefect", False),
                                  "fields": {fn: trigs.get(tname, {}).get("fields", {}).get(fn, {})}}}
                for t2 in fscope[1:]:
                    ftrigs[t2] = trigs.get(t2, {"trigNameDefect": False, "fields": {}})
                act = active_triggers(ftrigs, list(ftrigs))
                want = info["fields"][fn]["default"]["ok"]
                ext = {"type": tname, "value": v, "field": fn}
                if not rb["built"]:
                    e = rb["error"]
                    if e["err"].startswith("default:"):
                        # the field's own default, or another default of the same class, raised
                        act_all = active_triggers(trigs, scope)
                        res.failures.append(Failure("default-raises", explain("default-raises", act_all), {**inp, **ext}, f"{tname} without {fn}: {e}"[:500]))
                    else:
                        lost_here = intro and (hits_f8 or (is_nonnull(fdef["type"]) and fdef["default"] is not None))
                        only = (["trigNameDefect", "trigCoercingDefault"] + (["trigNullableListItem"] if hits_f1 else [])
                                + (["trigDefaultLostIntro"] if lost_here else []))
                        fail("valid-value-rejected", scope, f"{tname} without {fn}: {e}", ext, only=only)
                    continue
                if not plain_matches(dn, rb["attr"], want):
                    res.failures.append(Failure("default-mismatch", explain("default-mismatch", act), {**inp, **ext},
                                                f"{tname}.{fn} reads back {json.dumps(rb['attr'])[:200]}, coerced schema default is {json.dumps(want)[:200]}"))
                srv = rb["server"]
                if "ok" not in srv:
                    # the server refuses the whole dump: the cause can sit anywhere in the value, not in this field
                    fail("server-default-mismatch", scope, f"{tname}.{fn}: server refuses the dump: {json.dumps(srv)[:200]}", ext)
                elif not isinstance(srv["ok"], dict) or fn not in srv["ok"] or not common.same_json(srv["ok"][fn], want):
                    res.failures.append(Failure("server-default-mismatch", explain("server-default-mismatch", act), {**inp, **ext},
                                                f"{tname}.{fn}: server sees {json.dumps(srv)[:200]}, schema default is {json.dumps(want)[:200]}"))
            res.seen([case["sdl"], tname, v], nontrivial=bool(v))


def same_pv(a: Any, b: Any) -> bool:
    """real Python value (to_plain) vs the model's PV"""
    if isinstance(a, dict) and isinstance(b, dict):
        if "$model" in a and "$model" in b:
            return (a["$model"] == b["$model"] and sorted(a["set"]) == sorted(b["set"]) and len(a["fields"]) == len(b["fields"])
                    and all(x[0] == y[0] and same_pv(x[1], y[1]) for x, y in zip(a["fields"], b["fields"])))
        if "$dict" in a and "$dict" in b:
            da, db = dict(map(tuple, a["$dict"])), dict(map(tuple, b["$dict"]))
            return set(da) == set(db) and all(same_pv(da[k], db[k]) for k in da)
        return a == b
    if isinstance(a, list) and isinstance(b, list):
        return len(a) == len(b) and all(same_pv(x, y) for x, y in zip(a, b))
    if isinstance(a, (dict, list)) or isinstance(b, (dict, list)):
        return False
    return common.same_json(a, b)


def pydantic_lines(case: Dict[str, Any], obs: Dict[str, Any], lax: Dict[str, Any]) -> List[Tuple[Dict[str, Any], List[Tuple[Any, Dict[str, Any]]]]]:
    """driver lines for `construct` and, per line, the list of (value, real result) it answers"""
    out = []
    for tname, info in obs.get("types", {}).items():
        if info.get("missing_class"):
            continue
        pairs: List[Tuple[Any, Dict[str, Any]]] = []
        for rec in info["values"]:
            if "alias" in rec:
                pairs.append((rec["value"], rec["alias"]))
                pairs.append((rec["py_value"], rec["name"]))
                for fn, r in rec.get("lacking", {}).items():
                    pairs.append(({k: x for k, x in rec["value"].items() if k != fn}, r))
        for rec in info["corrupt"]:
            pairs.append((rec["value"], rec["alias"]))
        if pairs:
            out.append(({"op": "construct", "cfg": cfg_wire(case["cfg"]), "defs": case["defs"], "cls": tname, "lax": lax, "acc": [],
                         "mode": case.get("source", "sdl"), "roots": case["prune"]["roots"] if case.get("prune") is not None else None,
                         "values": [wire.enc(v) for v, _ in pairs]}, pairs))
    return out


def compare_pydantic(case: Dict[str, Any], tname: str, pairs: List[Tuple[Any, Dict[str, Any]]], model: List[Any], trigs: Dict[str, Any],
                     res: Result) -> None:
    act = active_triggers(trigs, reachable_types(case["defs"], tname))
    region = ("trigNameDefect" if "trigNameDefect" in act else act[0]) if act else None
    for (v, real), m in zip(pairs, model):
        res.count("pydantic:accepted" if "ok" in real else "pydantic:rejected")
        ok = False
        if "ok" in real and "ok" in m:
            ok = same_pv(real["ok"], m["ok"]) and ("dump" not in real or common.same_json(real["dump"], wire.dec(m["dump"])))
        elif "ok" not in real and "ok" not in m:
            ok = real["err"] == m["err"] or (real["err"].startswith("default:") and m["err"].startswith("default:"))
        if not ok:
            res.mismatches.append(Mismatch("construct", {"kind": "package", "sdl": case["sdl"], "cfg": case["cfg"], "source": case.get("source", "sdl"),
                                                         "prune": case.get("prune"), "type": tname, "value": v},
                                           {k: real[k] for k in real if k != "msg"}, m, trigger=region))


def introspectable(sdl: str) -> bool:
    """graphql-core cannot print a list / object default of a custom scalar (`Cannot convert value to AST`): such a schema
    cannot be served to an introspection query at all"""
    from graphql import build_schema, introspection_from_schema

    try:
        introspection_from_schema(build_schema(sdl))
        return True
    except Exception:  # noqa: BLE001
        return False


def make_probes(case: Dict[str, Any], rng: random.Random, n_values: int, n_corrupt: int) -> Dict[str, Any]:
    probes: Dict[str, Any] = {}
    expected = expected_types(case)
    for d in case["defs"]:
        if d["kind"] != "input" or d["name"] not in expected:
            continue
        vals = [gen_value(case, ["nonnull", t_named(d["name"])], rng) for _ in range(n_values)]
        # always include the smallest value (required fields only) so that every default is read back at least once
        vals.append(gen_value(case, ["nonnull", t_named(d["name"])], random.Random(0), depth=3))
        probes[d["name"]] = {"values": vals, "corrupt": [corrupt(rng.choice(vals), rng) for _ in range(n_corrupt)]}
    return probes


def run_packages(ctx: Ctx, st: Optional[LeanStatus], res: Result, cases: List[Dict[str, Any]], label: str) -> List[Dict[str, Any]]:
    _quiet_fork_warning()
    results = engine.pmap_forked(package_case, [(c,) for c in cases], timeout=240)
    lax = lax_table()
    observations: List[Dict[str, Any]] = []
    lines: List[Dict[str, Any]] = []
    owners: List[Tuple[int, str, List[Tuple[Any, Dict[str, Any]]]]] = []
    trig_list: List[Dict[str, Any]] = []
    for i, (c, (status, obs)) in enumerate(zip(cases, results)):
        if status == "timeout":
            raise common.Infra(f"{label}: package case timed out")
        if status != "ok":
            raise common.Infra(f"{label}: package case crashed in the harness: {obs}")
        observations.append(obs)
        trigs = python_triggers(c)
        trig_list.append(trigs)
        act = active_triggers(trigs, list(trigs))
        res.count(f"{label}:clean-schema" if not act else f"{label}:schema-in-trigger-region")
        judge_package(c, obs, trigs, res)
        if st is not None and st.driver_ok and "types" in obs:
            for line, pairs in pydantic_lines(c, obs, lax):
                lines.append(line)
                owners.append((i, line["cls"], pairs))
    if lines:
        outs = common.run_driver(PROP, lines)
        for (i, tname, pairs), m in zip(owners, outs):
            compare_pydantic(cases[i], tname, pairs, m, trig_list[i], res)
    return observations


def check_packages(ctx: Ctx, st: Optional[LeanStatus], res: Result, n: int, label: str = "package") -> None:
    rng = ctx.sub_rng(label)
    cases = []
    for _ in range(n):
        c = gen_case(rng)
        r = rng.random()
        # schema_path | remote_schema_url (introspection), include_all_inputs true | false with an operation that uses some inputs
        c["source"] = "intro" if r < 0.3 else "sdl"
        if c["source"] == "intro":
            if rng.random() < 0.5:
                c = strip_effective_defaults(c)  # the theorem region of the introspection source
            if not introspectable(c["sdl"]):
                c["source"] = "sdl"
        c["prune"] = None
        if rng.random() < 0.35:
            inputs = [d["name"] for d in c["defs"] if d["kind"] == "input"]
            c["prune"] = {"roots": sorted(rng.sample(inputs, rng.randint(0 if len(inputs) > 1 else 1, max(1, len(inputs) - 1)))),
                          "all_enums": rng.random() < 0.5}
        c["probes"] = make_probes(c, rng, 4, 4)
        res.count(f"{label}:source-{c['source']}:{'all-inputs' if c['prune'] is None else 'used-inputs-only'}")
        cases.append(c)
    run_packages(ctx, st, res, cases, label)


# --------------------------------------------------------------------------------------------
# corpus (finding witnesses and regression cases)
# --------------------------------------------------------------------------------------------


def case_from_sdl(sdl: str, cfg: Optional[Dict[str, Any]] = None) -> Dict[str, Any]:
    """definitions (the JSON the Lean driver reads) from SDL text, through graphql-core's parser only"""
    from graphql import parse
    from graphql.language import ast as gast

    def tref(n: Any) -> List[Any]:
        if isinstance(n, gast.NonNullTypeNode):
            return ["nonnull", tref(n.type)]
        if isinstance(n, gast.ListTypeNode):
            return ["list", tref(n.type)]
        return ["named", n.name.value]

    def lit(n: Any) -> Dict[str, Any]:
        if isinstance(n, gast.IntValueNode):
            return {"k": "int", "v": int(n.value)}
        if isinstance(n, gast.FloatValueNode):
            return {"k": "float", "v": n.value}
        if isinstance(n, gast.StringValueNode):
            return {"k": "str", "v": n.value}
        if isinstance(n, gast.BooleanValueNode):
            return {"k": "bool", "v": bool(n.value)}
        if isinstance(n, gast.NullValueNode):
            return {"k": "null"}
        if isinstance(n, gast.EnumValueNode):
            return {"k": "enum", "v": n.value}
        if isinstance(n, gast.ListValueNode):
            return {"k": "list", "v": [lit(x) for x in n.values]}
        return {"k": "obj", "v": [[f.name.value, lit(f.value)] for f in n.fields]}

    defs: List[Dict[str, Any]] = []
    for d in parse(sdl).definitions:
        if isinstance(d, gast.EnumTypeDefinitionNode):
            defs.append({"kind": "enum", "name": d.name.value, "values": [v.name.value for v in d.values or ()]})
        elif isinstance(d, gast.ScalarTypeDefinitionNode):
            defs.append({"kind": "scalar", "name": d.name.value})
        elif isinstance(d, gast.InputObjectTypeDefinitionNode):
            defs.append({"kind": "input", "name": d.name.value, "fields": [
                {"name": f.name.value, "type": tref(f.type), "default": lit(f.default_value) if f.default_value else None, "deprecated": False}
                for f in d.fields or ()]})
        elif hasattr(d, "name"):
            defs.append({"kind": "composite", "name": d.name.value})
    return {"defs": defs, "sdl": sdl, "cfg": cfg or {"snake": True, "scalars": []}, "clean": False}


def replay_corpus(ctx: Ctx, st: Optional[LeanStatus], res: Result) -> None:
    files = sorted((common.CORPUS / PROP).glob("*.json"))
    cases, metas = [], []
    for f in files:
        payload = json.loads(f.read_text())
        c = case_from_sdl(payload["sdl"], payload.get("cfg"))
        c["source"] = payload.get("source", "sdl")
        c["prune"] = payload.get("prune")
        c["probes"] = {t: {"values": vs, "corrupt": []} for t, vs in payload["probes"].items()}
        cases.append(c)
        metas.append(payload)
    if not cases:
        return
    sub = Result()
    run_packages(ctx, st, sub, cases, "corpus")
    for payload, c in zip(metas, cases):
        fid = payload.get("finding")
        mine = [f for f in sub.failures if f.input.get("sdl") == c["sdl"] and f.input.get("source", "sdl") == c["source"]
                and f.input.get("prune") == c["prune"]]
        if fid:
            hit = [f for f in mine if f.trigger == payload["trigger"] and f.signature in payload["signature"]]
            res.witness_status[fid] = "reproduces" if hit else "gone"
            res.count("corpus:witness-" + ("reproduces" if hit else "gone"))
        elif payload.get("expect") == "ok" and mine:
            res.count("corpus:regression-case-fails")
    res.merge(sub)


# --------------------------------------------------------------------------------------------
# entry points
# --------------------------------------------------------------------------------------------

GEN_DIR = "ariadne_codegen/client_generators/"


def fingerprint_items() -> List[Tuple[str, Optional[str]]]:
    return [
        (GEN_DIR + "input_fields.py", "parse_input_field_type"),
        (GEN_DIR + "input_fields.py", "parse_input_field_default_value"),
        (GEN_DIR + "input_fields.py", "parse_input_const_value_node"),
        (GEN_DIR + "input_types.py", "InputTypesGenerator._parse_input_definition"),
        (GEN_DIR + "input_types.py", "InputTypesGenerator._process_field_value"),
        (GEN_DIR + "input_types.py", "InputTypesGenerator._save_dependencies"),
        (GEN_DIR + "input_types.py", "InputTypesGenerator.generate"),
        (GEN_DIR + "input_types.py", "InputTypesGenerator.get_used_enums"),
        (GEN_DIR + "input_types.py", "InputTypesGenerator._filter_class_defs"),
        (GEN_DIR + "input_types.py", "InputTypesGenerator._get_dependencies_of_type"),
        (GEN_DIR + "package.py", "PackageGenerator._generate_input_types"),
        ("ariadne_codegen/schema.py", "get_graphql_schema_from_url"),
        (GEN_DIR + "scalars.py", "generate_input_scalar_annotation"),
        (GEN_DIR + "enums.py", "EnumsGenerator._parse_enum_definition"),
        (GEN_DIR + "dependencies/base_model.py", "BaseModel"),
        ("ariadne_codegen/utils.py", "process_name"),
        ("ariadne_codegen/codegen.py", "generate_annotation_name"),
        ("ariadne_codegen/codegen.py", "generate_list_annotation"),
        ("ariadne_codegen/codegen.py", "generate_nullable_annotation"),
    ]


def run(ctx: Ctx, st: Optional[LeanStatus]) -> Result:
    res = Result()
    res.rule = ("seeded input-type definitions (half of them repaired until no finding trigger fires; one in six without any default the "
                "introspection path would lose): class IR, emitted class selection and enum import list of the real InputTypesGenerator "
                "(generate() and generate(types_to_include=roots)) on the schema built from SDL AND on the schema obtained from it by "
                "introspection vs the Lean model; graphql-core coercion vs Spec/CoerceInput; real pydantic on packages really generated "
                "by main.client (schema_path or remote_schema_url served in-process; include_all_inputs true, or false with an operation "
                "that uses some inputs, include_all_enums on/off) vs Spec/PydInput; and the property oracle on those packages, the import "
                "of every generated module included. A case is non-trivial when the schema has at least one input field / the value is "
                "accepted by graphql-core / the probe value is not the empty object; distinct = distinct (SDL, configuration, source"
                "[, type, value])")
    res.extra["fingerprints"] = common.fingerprints(ctx, fingerprint_items())
    engine.cleanup_scratch()
    replay_corpus(ctx, st, res)
    check_classes(ctx, st, res, ctx.budget(1500, 12000))
    check_coerce(ctx, st, res, ctx.budget(300, 2500))
    check_packages(ctx, st, res, ctx.budget(260, 2600))
    res.oracle_only += [
        "unparse -> autoflake -> isort -> black -> import of input_types.py (exercised by the package oracle, not modelled)",
        "keyword construction with enum MEMBERS instead of names (real pydantic only)",
        "Upload fields: only null/absent (an Upload instance has no JSON form)",
        "object-literal defaults: default_readback is proved for literal shapes without object literals; defaults containing object "
        "literals are covered by the construct correspondence (real pydantic vs Spec/PydInput) and the oracle",
        "Proved_06 (InputRel.related) is evaluated by the driver on every trigger-free generated case, for both schema sources "
        "(input_distribution classes:related-holds / classes-intro:related-holds / related-fails). That the generator establishes "
        "it is a THEOREM on the decidable class WF_06 / WF_06_src (C06.proved_06_of_wf, proved_06_src_of_wf: plain default "
        "literals; input_distribution classes:Proved_06-is-a-theorem, classes-intro:Proved_06-is-a-theorem); for trigger-free schemas "
        "with object-literal defaults or structured literals on custom scalars (…:Proved_06-measured-only) it is measured, not proved",
        "pruned packages (include_all_inputs = false): the pydantic reference semantics runs on the definitions without the "
        "unselected input types (InputDeps.emittedDefs); that this is the module of the selected classes is validated by the "
        "construct correspondence, not proved; which inputs an operation uses is C09's / C03's subject (here: the variables' types)",
        "schemas whose introspection graphql-core cannot serve (list / object default of a custom scalar) are generated from SDL only",
    ]
    res.assumptions += [
        "canonical form: IDs as strings, enum values by name, lists as lists, custom scalars typed as configured (DESIGN.md §3.0)",
        "readback equality: numbers numerically, enum member by name, nested model field by field where a key absent from the coerced dict reads None",
        "the server is graphql-core's coerce_input_value on model_dump(mode='json', by_alias=True, exclude_unset=True)",
        "enum values named like Enum internals (mro, name, value) are C04's subject and are not generated here",
    ]
    return res


def search(ctx: Ctx) -> Result:
    """after a broken proof / correspondence: the oracle alone with a large budget"""
    res = Result()
    check_packages(ctx, None, res, 700, label="search")
    return res


def replay(ctx: Ctx, payload: Dict[str, Any]) -> int:
    inp = payload.get("input")
    if not inp or "sdl" not in inp:
        print(json.dumps(payload, indent=1)[:3000])
        return 1
    c = case_from_sdl(inp["sdl"], inp.get("cfg"))
    c["source"] = inp.get("source", "sdl")
    c["prune"] = inp.get("prune")
    rng = random.Random(0)
    if "type" in inp and "value" in inp and isinstance(inp["value"], dict):
        c["probes"] = {inp["type"]: {"values": [inp["value"]], "corrupt": []}}
    else:
        c["probes"] = make_probes(c, rng, 4, 0)
    res = Result()
    run_packages(ctx, None, res, [c], "replay")
    for f in res.failures:
        print(f"{f.signature} trigger={f.trigger}: {f.detail}")
    print("fails" if res.failures else "ok")
    return 1 if res.failures else 0
