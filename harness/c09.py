"""C09 — pruning unused inputs and enums never removes something needed.

Tie (model = lean/AriadneModel/Model/Prune.lean, theorems = Properties/C09.lean):
  * unit level: the REAL InputTypesGenerator / EnumsGenerator are built (in forked children) on seeded
    random schemas; `_get_dependencies_of_type` (ordered), `generate(types_to_include)` class names +
    `get_used_enums()` (ordered) and `EnumsGenerator.generate(types_to_include)` class names are compared
    with the compiled Lean driver fed with the dependency graph abstracted from graphql-core's schema;
  * package level: the REAL `ariadne_codegen.main.client` generates the package for the four flag
    combinations; the ordered class-name lists of input_types.py / enums.py and the import sets of
    input_types.py / client.py (read back with Python `ast`) are compared with the driver's `generate`;
  * the decidable trigger of finding C09-F1 exists in Lean and in Python; both are compared.
Oracle (independent of the model): pruned vs unpruned package of the same input — every retained class
textually identical and in the same relative order, retained set == closure computed here from
graphql-core's schema (worklist, not the model's DFS), package imports, every client method called
through httpx.MockTransport with arguments built from the generated input models sends the same
variables and ends the same way as in the unpruned package.
"""
from __future__ import annotations

import ast
import json
import random
import warnings
from pathlib import Path
from typing import Any, Dict, List, Optional, Set, Tuple

from . import common, engine
from .common import Ctx, Failure, LeanStatus, Mismatch, Result

PROP = "C09"
# the worker pool of engine.pmap_forked forks while multiprocessing's queue feeder thread exists
def _quiet_fork_warning() -> None:
    warnings.filterwarnings("ignore", message=".*multi-threaded, use of fork.*", category=DeprecationWarning)


COMBOS: List[Tuple[bool, bool]] = [(True, True), (True, False), (False, True), (False, False)]
BUILTIN_SCALARS = ("Int", "String", "Boolean", "Float", "ID")
TRIGGER_F1 = "customOpsPruned"

FINGERPRINTS = [
    ("ariadne_codegen/client_generators/input_types.py", "InputTypesGenerator.generate"),
    ("ariadne_codegen/client_generators/input_types.py", "InputTypesGenerator.get_used_enums"),
    ("ariadne_codegen/client_generators/input_types.py", "InputTypesGenerator._filter_input_types"),
    ("ariadne_codegen/client_generators/input_types.py", "InputTypesGenerator._filter_class_defs"),
    ("ariadne_codegen/client_generators/input_types.py", "InputTypesGenerator._get_dependencies_of_type"),
    ("ariadne_codegen/client_generators/input_types.py", "InputTypesGenerator._save_dependencies"),
    ("ariadne_codegen/client_generators/input_fields.py", "parse_input_field_type"),
    ("ariadne_codegen/client_generators/enums.py", "EnumsGenerator.generate"),
    ("ariadne_codegen/client_generators/enums.py", "EnumsGenerator._filter_enum_types"),
    ("ariadne_codegen/client_generators/enums.py", "EnumsGenerator._filter_class_defs"),
    ("ariadne_codegen/client_generators/arguments.py", "ArgumentsGenerator._parse_named_type_node"),
    ("ariadne_codegen/client_generators/arguments.py", "ArgumentsGenerator._parse_type_node"),
    ("ariadne_codegen/client_generators/arguments.py", "ArgumentsGenerator.get_used_enums"),
    ("ariadne_codegen/client_generators/arguments.py", "ArgumentsGenerator.get_used_inputs"),
    ("ariadne_codegen/client_generators/package.py", "PackageGenerator.generate"),
    ("ariadne_codegen/client_generators/package.py", "PackageGenerator.add_operation"),
    ("ariadne_codegen/client_generators/package.py", "PackageGenerator._generate_input_types"),
    ("ariadne_codegen/client_generators/package.py", "PackageGenerator._generate_fragments"),
    ("ariadne_codegen/client_generators/package.py", "PackageGenerator._generate_client"),
    ("ariadne_codegen/client_generators/package.py", "PackageGenerator._generate_enums"),
    ("ariadne_codegen/client_generators/fragments.py", "FragmentsGenerator.generate"),
    ("ariadne_codegen/client_generators/fragments.py", "FragmentsGenerator.get_used_enums"),
    ("ariadne_codegen/client_generators/result_types.py", "ResultTypesGenerator.get_used_enums"),
    ("ariadne_codegen/client_generators/result_fields.py", "parse_enum_type"),
    ("ariadne_codegen/client_generators/client.py", "ClientGenerator.generate"),
    ("ariadne_codegen/client_generators/custom_arguments.py", "ArgumentGenerator._parse_graphql_type_name"),
    ("ariadne_codegen/client_generators/arguments.py", "ArgumentsGenerator.generate"),
    ("ariadne_codegen/client_generators/result_types.py", "ResultTypesGenerator.__init__"),
    ("ariadne_codegen/client_generators/result_types.py", "ResultTypesGenerator._resolve_selection_set"),
    ("ariadne_codegen/client_generators/result_types.py", "ResultTypesGenerator._unpack_fragment"),
    ("ariadne_codegen/client_generators/result_types.py", "ResultTypesGenerator.get_unpacked_fragments"),
    ("ariadne_codegen/main.py", "client"),
]

# --------------------------------------------------------------------------------------------
# generator of cases: schema (SDL) + operations (text)
# --------------------------------------------------------------------------------------------

WRAPS = ["{}", "{}", "{}!", "[{}]", "[{}!]", "[{}]!", "[{}!]!", "[[{}]]", "[[{}!]!]!"]
CYCLE_SAFE_WRAPS = [w for w in WRAPS if w != "{}!"]


def _required(type_str: str, has_default: bool) -> bool:
    return type_str.endswith("!") and not has_default


def gen_schema(rng: random.Random) -> Dict[str, Any]:
    """A random schema description (plain data) with input/enum dependency graphs of every shape."""
    n_enum = rng.choice([0, 1, 2, 3, 4, 6, 8])
    n_in = rng.choice([0, 1, 2, 3, 4, 5, 7, 9])
    n_obj = rng.randint(1, 4)
    enums = {f"En{i}": [f"V{i}x{j}" for j in range(rng.randint(1, 3))] for i in range(n_enum)}
    input_names = [f"In{i}" for i in range(n_in)]
    obj_names = [f"Ty{i}" for i in range(n_obj)]
    use_custom_scalar = rng.random() < 0.4
    scalars = list(BUILTIN_SCALARS) + (["Date"] if use_custom_scalar else [])
    shape = rng.choice(["random", "chain", "cycle", "diamond", "self", "sparse", "dense"])

    def leaf_type() -> str:
        r = rng.random()
        if enums and r < 0.45:
            return rng.choice(list(enums))
        return rng.choice(scalars)

    # ---- input types
    inputs: Dict[str, List[Dict[str, Any]]] = {}
    for i, name in enumerate(input_names):
        fields: List[Dict[str, Any]] = []
        targets: List[int] = []
        if shape == "chain" and i + 1 < n_in:
            targets = [i + 1]
        elif shape == "cycle":
            targets = [(i + 1) % n_in]
        elif shape == "diamond":
            targets = [j for j in (2 * i + 1, 2 * i + 2, n_in - 1) if j < n_in and j != i]
        elif shape == "self":
            targets = [i] if rng.random() < 0.6 else []
        elif shape == "sparse":
            targets = [rng.randrange(n_in)] if rng.random() < 0.3 else []
        elif shape == "dense":
            targets = [j for j in range(n_in) if rng.random() < 0.5]
        else:
            targets = [rng.randrange(n_in) for _ in range(rng.randint(0, 2))]
        if shape in ("chain", "cycle", "diamond") and rng.random() < 0.2:
            targets.append(rng.randrange(n_in))  # an extra back/cross edge
        for j in targets:
            wraps = WRAPS if j > i else CYCLE_SAFE_WRAPS  # non-null cycles are invalid GraphQL
            fields.append({"type": rng.choice(wraps).format(input_names[j]), "named": input_names[j], "kind": "input"})
        for _ in range(rng.randint(0 if fields else 1, 3)):
            t = leaf_type()
            fields.append({"type": rng.choice(WRAPS).format(t), "named": t, "kind": "enum" if t in enums else "scalar"})
        rng.shuffle(fields)
        for k, f in enumerate(fields):
            f["name"] = f"f{k}"
            f["default"] = None
        inputs[name] = fields
    # defaults (second pass: `{}` is only valid for targets without required fields)
    for name, fields in inputs.items():
        for f in fields:
            if rng.random() > 0.3:
                continue
            listy = f["type"].startswith("[")
            if f["kind"] == "enum":
                v = rng.choice(enums[f["named"]])
                f["default"] = f"[{v}]" if f["type"].startswith("[") and not f["type"].startswith("[[") else (None if listy else v)
            elif f["kind"] == "scalar" and not listy:
                f["default"] = {"Int": "3", "String": '"d"', "Boolean": "true", "Float": "1.5", "ID": '"i"', "Date": '"2020"'}[f["named"]]
    for name, fields in inputs.items():
        for f in fields:
            if f["kind"] == "input" and not f["type"].startswith("[") and rng.random() < 0.25 \
                    and input_names.index(f["named"]) > input_names.index(name):  # forward edges only: `{}` defaults must not recurse
                target = inputs[f["named"]]
                if not any(_required(g["type"], g["default"] is not None) for g in target):
                    f["default"] = "{}"

    # ---- object types (results)
    def arg_list(max_args: int) -> List[Dict[str, Any]]:
        args = []
        for k in range(rng.randint(0, max_args)):
            r = rng.random()
            if input_names and r < 0.5:
                t, kind = rng.choice(input_names), "input"
            elif enums and r < 0.8:
                t, kind = rng.choice(list(enums)), "enum"
            else:
                t, kind = rng.choice(scalars), "scalar"
            args.append({"name": f"a{k}", "type": rng.choice(WRAPS).format(t), "named": t, "kind": kind})
        return args

    objects: Dict[str, List[Dict[str, Any]]] = {}
    for i, name in enumerate(obj_names):
        t0 = leaf_type()
        fields = [{"name": "f0", "type": rng.choice(WRAPS).format(t0), "named": t0, "kind": "enum" if t0 in enums else "scalar", "args": []}]
        for k in range(1, rng.randint(1, 4)):
            r = rng.random()
            if r < 0.35:
                t = rng.choice(obj_names)
                fields.append({"name": f"f{k}", "type": rng.choice(["{}", "[{}]", "[{}!]", "{}"]).format(t), "named": t, "kind": "object", "args": arg_list(2)})
            else:
                t = leaf_type()
                fields.append({"name": f"f{k}", "type": rng.choice(WRAPS).format(t), "named": t, "kind": "enum" if t in enums else "scalar", "args": arg_list(1)})
        objects[name] = fields

    def root_fields(n: int) -> List[Dict[str, Any]]:
        out = []
        for k in range(n):
            r = rng.random()
            if r < 0.65:
                t = rng.choice(obj_names)
                out.append({"name": f"r{k}", "type": rng.choice(["{}", "[{}]", "{}!", "[{}!]!"]).format(t), "named": t, "kind": "object", "args": arg_list(3)})
            else:
                t = leaf_type()
                out.append({"name": f"r{k}", "type": rng.choice(WRAPS).format(t), "named": t, "kind": "enum" if t in enums else "scalar", "args": arg_list(3)})
        return out

    roots = {"Query": root_fields(rng.randint(1, 4))}
    if rng.random() < 0.4:
        roots["Mutation"] = root_fields(rng.randint(1, 2))

    # ---- abstract types: interfaces implemented by some object types, unions of object types; fields of those types.
    # Field names of an interface are its own (`i0g1`), so that nothing an implementing type declares clashes with them.
    interfaces: Dict[str, Dict[str, Any]] = {}
    unions: Dict[str, List[str]] = {}
    for i in range(rng.choice([0, 0, 1, 1, 2])):
        ifields = []
        for k in range(rng.randint(1, 2)):
            t = leaf_type()
            ifields.append({"name": f"i{i}g{k}", "type": rng.choice(WRAPS).format(t), "named": t,
                            "kind": "enum" if t in enums else "scalar", "args": []})
        members = sorted(rng.sample(obj_names, rng.randint(1, len(obj_names))))
        interfaces[f"If{i}"] = {"fields": ifields, "members": members}
        for m in members:
            objects[m] += [dict(f) for f in ifields]
    for i in range(rng.choice([0, 0, 1, 1, 2])):
        unions[f"Un{i}"] = sorted(rng.sample(obj_names, rng.randint(1, min(3, len(obj_names)))))
    abstract_names = list(interfaces) + list(unions)
    if abstract_names:
        for name in obj_names:
            if rng.random() < 0.3:
                t = rng.choice(abstract_names)
                objects[name].append({"name": f"fa{len(objects[name])}", "type": rng.choice(["{}", "[{}]", "[{}!]", "{}"]).format(t),
                                      "named": t, "kind": "abstract", "args": arg_list(1)})
        for k in range(rng.randint(1, 2)):
            t = rng.choice(abstract_names)
            roots["Query"].append({"name": f"ra{k}", "type": rng.choice(["{}", "[{}]", "{}!", "[{}!]!"]).format(t), "named": t,
                                   "kind": "abstract", "args": arg_list(2)})
    order = ([("enum", n) for n in enums] + [("input", n) for n in input_names] + [("object", n) for n in obj_names]
             + [("root", n) for n in roots] + [("interface", n) for n in interfaces] + [("union", n) for n in unions])
    rng.shuffle(order)
    return {"enums": enums, "inputs": inputs, "objects": objects, "roots": roots, "order": order,
            "interfaces": interfaces, "unions": unions, "custom_scalar": use_custom_scalar, "shape": shape}


def schema_sdl(s: Dict[str, Any]) -> str:
    out: List[str] = []
    if s["custom_scalar"]:
        out.append("scalar Date")

    def args_txt(args: List[Dict[str, Any]]) -> str:
        return ("(" + ", ".join(f"{a['name']}: {a['type']}" for a in args) + ")") if args else ""

    for kind, name in s["order"]:
        if kind == "enum":
            out.append(f"enum {name} {{ " + " ".join(s["enums"][name]) + " }")
        elif kind == "input":
            fs = [f"{f['name']}: {f['type']}" + (f" = {f['default']}" if f["default"] is not None else "") for f in s["inputs"][name]]
            out.append(f"input {name} {{ " + "  ".join(fs) + " }")
        elif kind == "union":
            out.append(f"union {name} = " + " | ".join(s["unions"][name]))
        elif kind == "interface":
            fs = [f"{f['name']}: {f['type']}" for f in s["interfaces"][name]["fields"]]
            out.append(f"interface {name} {{ " + "  ".join(fs) + " }")
        else:
            fields = s["objects"][name] if kind == "object" else s["roots"][name]
            fs = [f"{f['name']}{args_txt(f['args'])}: {f['type']}" for f in fields]
            impl = [i for i, d in s.get("interfaces", {}).items() if name in d["members"]] if kind == "object" else []
            out.append(f"type {name}" + (" implements " + " & ".join(impl) if impl else "") + " { " + "  ".join(fs) + " }")
    return "\n".join(out) + "\n"


def _letters(i: int) -> str:
    return "abcdefghijklmnopqrstuvwxyz"[i] if i < 26 else _letters(i // 26 - 1) + _letters(i % 26)


def gen_queries(rng: random.Random, s: Dict[str, Any]) -> str:
    """Valid operations grown from the schema: variables of every wrapper shape (with enum defaults),
    nested selections, named fragments on object types (spread where the parent type is the type
    condition), unused fragments, operations without variables, or no operation at all."""
    n_ops = rng.choice([0, 1, 1, 2, 2, 3, 4])
    fragments: List[str] = []
    frag_types: Dict[str, List[str]] = {}

    def select(type_name: str, depth: int, variables: Optional[List[str]], allow_frag: bool = True) -> str:
        fields = s["objects"][type_name]
        cands = [f for f in fields if depth < 3 or f["kind"] not in ("object", "abstract")]
        if variables is None:  # inside a fragment: argument-less fields only (no conflicts with siblings of the spread)
            cands = [f for f in cands if not f["args"]]
        chosen = rng.sample(cands, rng.randint(1, min(3, len(cands))))
        parts = [field_txt(f, depth, variables) for f in sorted(chosen, key=lambda f: f["name"])]
        if allow_frag and rng.random() < 0.35:
            parts.append("..." + fragment_on(type_name, depth))
        return "{ " + " ".join(parts) + " }"

    interfaces: Dict[str, Dict[str, Any]] = s.get("interfaces", {})
    unions: Dict[str, List[str]] = s.get("unions", {})
    abstract_frags: Dict[str, List[str]] = {}   # fragments WITHOUT a class of their own (on a union / with an inline fragment)
    iface_mixins: Dict[str, List[str]] = {}     # fragments on an interface selecting interface fields only (inherited)

    def inline_on(member: str, tag: str, variables: Optional[List[str]]) -> str:
        """`... on Member { aliased leaf fields }` - aliases keep sibling inline fragments from conflicting"""
        leafs = [f for f in s["objects"][member] if f["kind"] in ("enum", "scalar") and (variables is not None or not f["args"])]
        chosen = rng.sample(leafs, rng.randint(1, min(2, len(leafs))))
        return "... on " + member + " { " + " ".join(f"{tag}{f['name']}: " + field_txt(f, 3, variables) for f in chosen) + " }"

    def abstract_body(type_name: str, variables: Optional[List[str]], need_inline: bool) -> str:
        members = interfaces[type_name]["members"] if type_name in interfaces else unions[type_name]
        parts = ["__typename"]
        if type_name in interfaces:
            own = interfaces[type_name]["fields"]
            parts += [f["name"] for f in rng.sample(own, rng.randint(0 if need_inline else 1, len(own)))]
        picked = rng.sample(members, rng.randint(1 if need_inline or type_name in unions else 0, min(2, len(members))))
        parts += [inline_on(m, m.lower(), variables) for m in picked]  # one alias per (member, field): mergeable wherever it recurs
        return "{ " + " ".join(parts) + " }"

    def abstract_fragment_on(type_name: str) -> str:
        existing = abstract_frags.get(type_name, [])
        if existing and rng.random() < 0.5:
            return rng.choice(existing)
        name = f"Fr{len(fragments)}"
        fragments.append(f"fragment {name} on {type_name} " + abstract_body(type_name, None, need_inline=True))
        abstract_frags.setdefault(type_name, []).append(name)
        return name

    def iface_mixin_on(type_name: str) -> str:
        existing = iface_mixins.get(type_name, [])
        if existing and rng.random() < 0.5:
            return rng.choice(existing)
        name = f"Fr{len(fragments)}"
        own = interfaces[type_name]["fields"]
        fragments.append(f"fragment {name} on {type_name} {{ " + " ".join(f["name"] for f in rng.sample(own, rng.randint(1, len(own)))) + " }")
        iface_mixins.setdefault(type_name, []).append(name)
        return name

    def select_abstract(type_name: str, variables: Optional[List[str]]) -> str:
        """Selection set at a position of an interface / union type.  Spreads of class-less fragments occur only at
        positions of their own type condition, inherited interface fragments only next to no inline fragment."""
        r = rng.random()
        if r < 0.4:
            return "{ " + rng.choice(["", "__typename "]) + "..." + abstract_fragment_on(type_name) + " }"
        if type_name in interfaces and r < 0.55:
            return "{ " + rng.choice(["", "__typename "]) + "..." + iface_mixin_on(type_name) + " }"
        return abstract_body(type_name, variables, need_inline=False)

    def field_txt(f: Dict[str, Any], depth: int, variables: Optional[List[str]]) -> str:
        args = []
        for a in f["args"]:
            if variables is not None and (_required(a["type"], False) or rng.random() < 0.7):
                v = "v" + _letters(len(variables))  # letters only: python name == GraphQL name
                default = ""
                if a["kind"] == "enum" and not a["type"].startswith("[") and not a["type"].endswith("!") and rng.random() < 0.4:
                    default = " = " + rng.choice(s["enums"][a["named"]])
                variables.append(f"${v}: {a['type']}{default}")
                args.append(f"{a['name']}: ${v}")
        txt = f["name"] + ("(" + ", ".join(args) + ")" if args else "")
        if f["kind"] == "object":
            txt += " " + select(f["named"], depth + 1, variables)
        elif f["kind"] == "abstract":
            txt += " " + select_abstract(f["named"], variables)
        return txt

    def fragment_on(type_name: str, depth: int) -> str:
        existing = frag_types.get(type_name, [])
        if existing and rng.random() < 0.5:
            return rng.choice(existing)
        name = f"Fr{len(fragments)}"
        fragments.append("")  # reserve the index
        body = select(type_name, max(depth, 2), None, allow_frag=rng.random() < 0.3)
        fragments[int(name[2:])] = f"fragment {name} on {type_name} {body}"
        frag_types.setdefault(type_name, []).append(name)
        return name

    ops: List[str] = []
    for i in range(n_ops):
        root = "Mutation" if "Mutation" in s["roots"] and rng.random() < 0.3 else "Query"
        variables: Optional[List[str]] = [] if rng.random() < 0.85 else None
        cands = s["roots"][root]
        if variables is None:
            cands = [f for f in cands if not any(_required(a["type"], False) for a in f["args"])]
            if not cands:
                variables, cands = [], s["roots"][root]
        chosen = rng.sample(cands, rng.randint(1, min(3, len(cands))))
        body = "{ " + " ".join(field_txt(f, 1, variables) for f in sorted(chosen, key=lambda f: f["name"])) + " }"
        head = ("mutation" if root == "Mutation" else "query") + " op" + _letters(i)
        if variables:
            head += "(" + ", ".join(variables) + ")"
        ops.append(head + " " + body)
    for _ in range(rng.choice([0, 0, 0, 1, 2]) or (0 if ops or fragments else 1)):  # fragments that no operation spreads
        target = rng.choice(list(s["objects"]) + list(interfaces) + list(unions))
        if target in s["objects"]:
            fragment_on(target, 2)
        elif target in interfaces and rng.random() < 0.5:
            iface_mixin_on(target)
        else:
            abstract_fragment_on(target)
    return "\n".join(ops + fragments) + "\n"


def underscore_names(rng: random.Random, s: Dict[str, Any], schema: str, queries: str) -> Tuple[str, str]:
    """Hasura-style names: some input / enum types get a leading underscore (`_in3_exp`, `_en1`) - legal GraphQL, and a
    Python class name that conventions treat as private.  Done on the texts (whole-word replacement of the type name)."""
    import re

    if rng.random() >= 0.35:
        return schema, queries
    names = [n for n in list(s["inputs"]) + list(s["enums"]) if rng.random() < 0.4]
    for n in names:
        new = "_" + n.lower() + ("_exp" if n in s["inputs"] else "")
        schema = re.sub(rf"\b{n}\b", new, schema)
        queries = re.sub(rf"\b{n}\b", new, queries)
    return schema, queries


def gen_case(rng: random.Random) -> Dict[str, Any]:
    s = gen_schema(rng)
    schema, queries = schema_sdl(s), gen_queries(rng, s)
    schema, queries = underscore_names(rng, s, schema, queries)
    return {"schema": schema, "queries": queries, "shape": s["shape"]}


# --------------------------------------------------------------------------------------------
# abstraction: graphql-core schema/document  ->  what the Lean model reads   (trusted, kept simple)
# --------------------------------------------------------------------------------------------


def build_schema_like_the_generator(sdl: str) -> Any:
    from graphql import build_ast_schema, parse

    return build_ast_schema(parse(sdl), assume_valid=True)  # same graphql-core call as schema.py


def abstract_inputs(schema: Any) -> List[Dict[str, Any]]:
    from graphql import get_named_type, is_enum_type, is_input_object_type

    out = []
    for name, t in schema.type_map.items():
        if is_input_object_type(t) and not name.startswith("__"):
            fields = []
            for f in t.fields.values():
                named = get_named_type(f.type)
                if is_input_object_type(named):
                    fields.append(["i", named.name])
                elif is_enum_type(named):
                    fields.append(["e", named.name])
            out.append({"name": name, "fields": fields})
    return out


def abstract_enums(schema: Any) -> List[str]:
    from graphql import is_enum_type

    return [n for n, t in schema.type_map.items() if is_enum_type(t) and not n.startswith("__")]


def _named_of_type_node(node: Any) -> str:
    while not hasattr(node, "name"):
        node = node.type
    return node.name.value


def _selected_enums(schema: Any, node: Any, fragments: Dict[str, Any]) -> List[str]:
    """enum types of every field selected under `node`, following fragment spreads"""
    from graphql import FragmentSpreadNode, FieldNode, TypeInfo, TypeInfoVisitor, Visitor, get_named_type, is_enum_type, visit

    found: List[str] = []
    seen: Set[str] = set()

    def walk(n: Any) -> None:
        info = TypeInfo(schema)

        class V(Visitor):
            def enter(self, node: Any, *_: Any) -> None:
                if isinstance(node, FieldNode):
                    t = info.get_type()
                    if t is not None and is_enum_type(get_named_type(t)):
                        found.append(get_named_type(t).name)
                elif isinstance(node, FragmentSpreadNode) and node.name.value not in seen:
                    seen.add(node.name.value)
                    walk(fragments[node.name.value])

        visit(n, TypeInfoVisitor(info, V()))

    walk(node)
    return found


def abstract_document(schema: Any, queries: str) -> Tuple[List[Dict[str, Any]], Optional[List[str]]]:
    from graphql import FragmentDefinitionNode, OperationDefinitionNode, is_enum_type, is_input_object_type, parse

    doc = parse(queries) if queries.strip() else None
    defs = list(doc.definitions) if doc else []
    fragments = {d.name.value: d for d in defs if isinstance(d, FragmentDefinitionNode)}
    ops = []
    for d in defs:
        if not isinstance(d, OperationDefinitionNode):
            continue
        vi, ve = [], []
        for v in d.variable_definitions or ():
            t = schema.type_map.get(_named_of_type_node(v.type))
            if is_input_object_type(t):
                vi.append(t.name)
            elif is_enum_type(t):
                ve.append(t.name)
        ops.append({"vi": vi, "ve": ve, "re": _selected_enums(schema, d, fragments)})
    frag: Optional[List[str]] = None
    if fragments:
        # the ORACLE's reading of "enums reachable from fragments": every enum-typed field selected in a fragment
        # definition that the package represents by a class (following spreads).  A fragment without a class of its
        # own (is_classless) exists in the package only where an operation spreads it - there its fields are result
        # fields of that operation, which the TypeInfo walk above reaches through the spread.
        frag = []
        for f in fragments.values():
            if not is_classless(schema, f):
                frag += _selected_enums(schema, f, fragments)
    return ops, frag


def classless_fragment_enums(schema: Any, queries: str) -> Set[str]:
    """enum-typed fields selected (transitively) in fragment definitions that have no class of their own"""
    from graphql import FragmentDefinitionNode, parse

    doc = parse(queries) if queries.strip() else None
    fragments = {d.name.value: d for d in (doc.definitions if doc else ()) if isinstance(d, FragmentDefinitionNode)}
    out: Set[str] = set()
    for f in fragments.values():
        if is_classless(schema, f):
            out |= set(_selected_enums(schema, f, fragments))
    return out


def is_classless(schema: Any, fdef: Any) -> bool:
    """A fragment definition that never gets a class of its own: its type condition is a union, or one of its
    top-level selections is an inline fragment (result_types.py: `_unpack_fragment(self.operation_definition)` makes
    `_class_defs = []`; wherever it is spread its fields are unpacked into the spreading class)."""
    from graphql import InlineFragmentNode, is_union_type

    if is_union_type(schema.type_map.get(fdef.type_condition.name.value)):
        return True
    return any(isinstance(sel, InlineFragmentNode) for sel in fdef.selection_set.selections)


def component_spec(schema: Any, fragments: Dict[str, Any], definition: Any) -> Tuple[List[str], List[str]]:
    """What ONE ResultTypesGenerator built for `definition` (an operation or a fragment) reports:
    (get_used_enums(), get_unpacked_fragments()).  Specification written against graphql-core's objects (own typed
    walk); valid where the generators and the corpus stay: a class-less fragment is spread at positions of its own
    type condition, an inline fragment names a member / implementation of the abstract parent or the parent itself.
    A spread of a fragment WITH a class stops the walk (the fragment's own generator reports what is below)."""
    from graphql import FieldNode, FragmentDefinitionNode, FragmentSpreadNode, InlineFragmentNode, get_named_type, is_enum_type

    enums: List[str] = []
    unpacked: List[str] = []

    def walk(selection_set: Any, parent: Any, path: Tuple[str, ...]) -> None:
        for sel in selection_set.selections:
            if isinstance(sel, FieldNode):
                fdef = (getattr(parent, "fields", None) or {}).get(sel.name.value)
                if fdef is None:
                    continue  # __typename
                t = get_named_type(fdef.type)
                if is_enum_type(t):
                    enums.append(t.name)
                if sel.selection_set:
                    walk(sel.selection_set, t, path)
            elif isinstance(sel, InlineFragmentNode):
                walk(sel.selection_set, schema.type_map[sel.type_condition.name.value] if sel.type_condition else parent, path)
            elif isinstance(sel, FragmentSpreadNode):
                f = fragments[sel.name.value]
                if is_classless(schema, f) and sel.name.value not in path:
                    if sel.name.value not in unpacked:
                        unpacked.append(sel.name.value)
                    walk(f.selection_set, schema.type_map[f.type_condition.name.value], path + (sel.name.value,))

    if isinstance(definition, FragmentDefinitionNode):
        if is_classless(schema, definition):
            return [], []
        root = schema.type_map[definition.type_condition.name.value]
    else:
        root = {"query": schema.query_type, "mutation": schema.mutation_type, "subscription": schema.subscription_type}[definition.operation.value]
    walk(definition.selection_set, root, ())
    return enums, unpacked


def _enc_type_node(node: Any) -> Any:
    from graphql import ListTypeNode, NonNullTypeNode

    if isinstance(node, ListTypeNode):
        return ["l", _enc_type_node(node.type)]
    if isinstance(node, NonNullTypeNode):
        return ["n", _enc_type_node(node.type)]
    return node.name.value


def _base_of(t: Any) -> str:
    while not isinstance(t, str):
        t = t[1]
    return t


def schema_kinds(schema: Any) -> List[List[str]]:
    from graphql import is_enum_type, is_input_object_type, is_scalar_type

    out = []
    for name, t in schema.type_map.items():
        if not name.startswith("__"):
            out.append([name, "input" if is_input_object_type(t) else "enum" if is_enum_type(t) else "scalar" if is_scalar_type(t) else "other"])
    return out


def abstract_document_doc(schema: Any, queries: str) -> Tuple[List[Dict[str, Any]], List[Dict[str, Any]]]:
    """The document as Model/PruneDoc.lean reads it: per operation the variable TYPE NODES (wrappers kept; the model
    classifies the named type itself) and the two component outputs; per fragment definition its component output."""
    from graphql import FragmentDefinitionNode, OperationDefinitionNode, parse

    doc = parse(queries) if queries.strip() else None
    defs = list(doc.definitions) if doc else []
    fragments = {d.name.value: d for d in defs if isinstance(d, FragmentDefinitionNode)}
    ops = []
    for d in defs:
        if isinstance(d, OperationDefinitionNode):
            re_, unp = component_spec(schema, fragments, d)
            ops.append({"vars": [_enc_type_node(v.type) for v in d.variable_definitions or ()], "re": re_, "unpacked": unp})
    frags = [{"name": n, "enums": component_spec(schema, fragments, f)[0]} for n, f in fragments.items()]
    return ops, frags


def doc_input(case: Dict[str, Any], ai: bool, ae: bool, custom: bool = False) -> Dict[str, Any]:
    schema = build_schema_like_the_generator(case["schema"])
    ops, frags = abstract_document_doc(schema, case["queries"])
    line: Dict[str, Any] = {"op": "generateDoc", "kinds": schema_kinds(schema), "inputs": abstract_inputs(schema),
                            "enums": abstract_enums(schema), "ops": ops, "frags": frags, "allInputs": ai, "allEnums": ae}
    if custom:
        ci, ce = custom_needs(schema)
        line.update({"customOps": True, "customInputs": ci, "customEnums": ce})
    return line


def twin_to_input(doc: Dict[str, Any]) -> Dict[str, Any]:
    """Python twin of `Ariadne.PruneDoc.toInput`: the `generate` line of Model/Prune.lean a document amounts to."""
    kinds: Dict[str, str] = {}
    for n, k in doc["kinds"]:
        kinds.setdefault(n, k)
    ops = []
    for op in doc["ops"]:
        bases = [_base_of(t) for t in op["vars"]]
        ops.append({"vi": [b for b in bases if kinds.get(b) == "input"], "ve": [b for b in bases if kinds.get(b) == "enum"], "re": op["re"]})
    unpacked = {n for op in doc["ops"] for n in op["unpacked"]}
    remaining = [f for f in doc["frags"] if f["name"] not in unpacked]
    line = {k: v for k, v in doc.items() if k not in ("kinds", "ops", "frags")}
    line.update({"op": "generate", "ops": ops, "frag": [e for f in remaining for e in f["enums"]] if remaining else None})
    return line


def custom_needs(schema: Any) -> Tuple[List[str], List[str]]:
    """input / enum types of the arguments of every field the custom_* modules cover
    (Query, Mutation and the object/interface types reachable from them)."""
    from graphql import get_named_type, is_enum_type, is_input_object_type, is_interface_type, is_object_type, is_union_type

    todo = [t for t in (schema.query_type, schema.mutation_type) if t]
    seen: Set[str] = set()
    ci: List[str] = []
    ce: List[str] = []
    while todo:
        t = todo.pop()
        if t.name in seen:
            continue
        seen.add(t.name)
        if is_union_type(t):
            todo += list(t.types)
            continue
        for f in t.fields.values():
            for a in f.args.values():
                n = get_named_type(a.type)
                if is_input_object_type(n) and n.name not in ci:
                    ci.append(n.name)
                elif is_enum_type(n) and n.name not in ce:
                    ce.append(n.name)
            n = get_named_type(f.type)
            if is_object_type(n) or is_interface_type(n) or is_union_type(n):
                todo.append(n)
        todo += list(getattr(t, "interfaces", ()))
    return sorted(ci), sorted(ce)


def model_input(case: Dict[str, Any], ai: bool, ae: bool, custom: bool = False) -> Dict[str, Any]:
    return twin_to_input(doc_input(case, ai, ae, custom))


# --------------------------------------------------------------------------------------------
# the oracle's own closure (worklist over graphql-core objects; not the model's algorithm)
# --------------------------------------------------------------------------------------------


def oracle_closure(case: Dict[str, Any], ai: bool, ae: bool) -> Tuple[Set[str], Set[str], Set[str]]:
    """(input types to keep, enums to keep, enums that only class-less fragment definitions no operation reaches select).
    The third set is the one place where the letter of the property ("reachable from fragments") and what any module
    of the package can need come apart: such a fragment has no class anywhere in the package.  The caller requires
    those enums only when some module of the generated package mentions them, and never counts them as extra."""
    from graphql import get_named_type, is_enum_type, is_input_object_type

    schema = build_schema_like_the_generator(case["schema"])
    ops, frag = abstract_document(schema, case["queries"])
    all_inputs = {n for n, t in schema.type_map.items() if is_input_object_type(t)}
    all_enums = {n for n, t in schema.type_map.items() if is_enum_type(t) and not n.startswith("__")}
    if ai:
        kept_inputs = set(all_inputs)
    else:
        kept_inputs = set()
        work = {n for op in ops for n in op["vi"]}
        while work:
            n = work.pop()
            if n in kept_inputs:
                continue
            kept_inputs.add(n)
            for f in schema.type_map[n].fields.values():
                t = get_named_type(f.type)
                if is_input_object_type(t) and t.name not in kept_inputs:
                    work.add(t.name)
    if ae:
        kept_enums = set(all_enums)
    else:
        kept_enums = {e for op in ops for e in op["ve"] + op["re"]} | set(frag or [])
        for n in kept_inputs:
            for f in schema.type_map[n].fields.values():
                t = get_named_type(f.type)
                if is_enum_type(t):
                    kept_enums.add(t.name)
    return kept_inputs, kept_enums, (classless_fragment_enums(schema, case["queries"]) & all_enums) - kept_enums


# --------------------------------------------------------------------------------------------
# child side: generation, read-back, import, driving
# --------------------------------------------------------------------------------------------


def _class_texts(src: str) -> List[Tuple[str, str]]:
    return [(n.name, ast.unparse(n)) for n in ast.parse(src).body if isinstance(n, ast.ClassDef)]


def _imports_from(src: str, module: Optional[str]) -> List[str]:
    out: List[str] = []
    for n in ast.parse(src).body:
        if isinstance(n, ast.ImportFrom) and n.level == 1 and n.module == module:
            out += [a.name for a in n.names]
    return sorted(out)


def _mentioned_names(files: Dict[str, str]) -> Set[str]:
    """every identifier the given modules mention: names, imported names, identifiers inside string constants
    (quoted annotations)"""
    import re

    out: Set[str] = set()
    for src in files.values():
        for n in ast.walk(ast.parse(src)):
            if isinstance(n, ast.Name):
                out.add(n.id)
            elif isinstance(n, ast.alias):
                out.add(n.name)
            elif isinstance(n, ast.Attribute):
                out.add(n.attr)
            elif isinstance(n, ast.Constant) and isinstance(n.value, str) and len(n.value) < 200:
                out |= set(re.findall(r"[A-Za-z_][A-Za-z_0-9]*", n.value))
    return out


def _gen_one(root: str, schema: str, queries: str, cfg: Dict[str, Any]) -> Dict[str, Any]:
    g = engine.generate_client(Path(root), schema, queries if queries.strip() else None, cfg)
    return {f.name: f.read_text() for f in g.dir.glob("*.py")}


def _combo_name(ai: bool, ae: bool) -> str:
    return "gen_" + ("t" if ai else "f") + ("t" if ae else "f")


def _synth(t: Any) -> Any:
    from graphql import is_enum_type, is_list_type, is_non_null_type, is_scalar_type

    if is_non_null_type(t):
        return _synth(t.of_type)
    if is_list_type(t):
        return [_synth(t.of_type)]
    if is_enum_type(t):
        return next(iter(t.values.values())).value
    if is_scalar_type(t):
        return {"Int": 1, "Float": 1.5, "String": "s", "Boolean": True, "ID": "id"}.get(t.name, "2020-01-01")
    return {}


def _resolver(_src: Any, info: Any, **_args: Any) -> Any:
    return _synth(info.return_type)


def _type_resolver(_value: Any, info: Any, abstract_type: Any) -> str:
    return sorted(t.name for t in info.schema.get_possible_types(abstract_type))[-1]


_resolver.type_resolver = _type_resolver  # type: ignore[attr-defined]


def _build_value(mods: Dict[str, Any], t: Any, rng: random.Random, depth: int) -> Any:
    """A schema-valid Python argument for GraphQL type `t`, made of the generated classes."""
    from graphql import is_enum_type, is_input_object_type, is_list_type, is_non_null_type

    if is_non_null_type(t):
        return _build_value_nn(mods, t.of_type, rng, depth)
    if depth > 3 or rng.random() < 0.25:
        return None
    return _build_value_nn(mods, t, rng, depth)


def _build_value_nn(mods: Dict[str, Any], t: Any, rng: random.Random, depth: int) -> Any:
    from graphql import Undefined, is_enum_type, is_input_object_type, is_list_type, is_non_null_type

    if is_list_type(t):
        n = 0 if depth > 3 else rng.choice([0, 1, 2])
        # items are never None: `[T]` is emitted as List[T] (another property's finding), keep away from it
        item = t.of_type.of_type if is_non_null_type(t.of_type) else t.of_type
        return [_build_value_nn(mods, item, rng, depth + 1) for _ in range(n)]
    if is_enum_type(t):
        return getattr(mods["enums"], t.name)(rng.choice(list(t.values)))
    if is_input_object_type(t):
        kwargs = {}
        for fname, f in t.fields.items():
            required = is_non_null_type(f.type) and f.default_value is Undefined
            if required or (depth <= 3 and rng.random() < 0.6):
                kwargs[fname] = _build_value(mods, f.type, rng, depth + 1)
        return getattr(mods["input_types"], t.name)(**kwargs)
    return {"Int": 7, "Float": 2.5, "String": "x", "Boolean": False, "ID": "i7"}.get(t.name, "2021-02-03")


def _drive(pkg_name: str, root: Path, case: Dict[str, Any], seed: str) -> Dict[str, Any]:
    """Import the package `pkg_name` under `root`, call every client method with valid arguments."""
    import importlib
    import sys

    from graphql import OperationDefinitionNode, parse, type_from_ast

    out: Dict[str, Any] = {"import": "ok", "calls": []}
    sys.path.insert(0, str(root))
    importlib.invalidate_caches()
    try:
        pkg = importlib.import_module(pkg_name)
        mods = {}
        for f in sorted((root / pkg_name).glob("*.py")):
            if f.stem != "__init__":
                mods[f.stem] = importlib.import_module(f"{pkg_name}.{f.stem}")
    except BaseException as e:  # noqa: BLE001
        out["import"] = f"{type(e).__name__}: {str(e)[:300]}".replace(str(root), "<root>").replace(pkg_name, "<pkg>")
        return out
    finally:
        sys.path.remove(str(root))
    schema = build_schema_like_the_generator(case["schema"])
    log: List[Dict[str, Any]] = []
    handler = engine.graphql_handler(case["schema"], _resolver, log)
    client = engine.make_generated_client(pkg, handler)
    doc = parse(case["queries"]) if case["queries"].strip() else None
    for d in (doc.definitions if doc else ()):
        if not isinstance(d, OperationDefinitionNode):
            continue
        rng = random.Random(f"{seed}:{d.name.value}")
        call: Dict[str, Any] = {"op": d.name.value}
        before = len(log)
        try:
            kwargs = {v.variable.name.value: _build_value(mods, type_from_ast(schema, v.type), rng, 0)
                      for v in d.variable_definitions or ()}
            res = engine.call_method(client, d.name.value, True, **kwargs)
            call["outcome"] = "ok"
            call["result"] = res.model_dump(mode="json") if hasattr(res, "model_dump") else repr(res)
        except BaseException as e:  # noqa: BLE001
            call["outcome"] = type(e).__name__
            call["detail"] = str(e)[:200].replace(pkg_name, "<pkg>")
        call["sent"] = [{"variables": r["variables"], "operationName": r["operationName"]} for r in log[before:]]
        out["calls"].append(call)
    return out


def _drive_child(pkg_name: str, root: str, case: Dict[str, Any], seed: str) -> Dict[str, Any]:
    return _drive(pkg_name, Path(root), case, seed)


def full_case_impl(root: Path, case: Dict[str, Any], custom: bool, drive: bool) -> Dict[str, Any]:
    """Generate the four flag combinations (each in its own forked child), read the modules back,
    import + drive each package (own forked child), and judge pruned against unpruned."""
    obs: Dict[str, Any] = {"combos": {}, "failures": [], "skipped": None}
    texts: Dict[str, Dict[str, str]] = {}
    for ai, ae in COMBOS:
        name = _combo_name(ai, ae)
        sub = root / name
        sub.mkdir()
        cfg: Dict[str, Any] = {"include_all_inputs": ai, "include_all_enums": ae, "target_package_name": name}
        if custom:
            cfg["enable_custom_operations"] = True
        status, val = engine.forked(_gen_one, str(sub), case["schema"], case["queries"], cfg, timeout=120)
        if status != "ok":
            texts[name] = {}
            obs["combos"][name] = {"generation": (val[0] if status == "exc" else status), "detail": (val[1][:300] if status == "exc" else "")}
            continue
        texts[name] = val
        c: Dict[str, Any] = {"generation": "ok"}
        try:
            c["inputs"] = _class_texts(val["input_types.py"])
            c["enums"] = _class_texts(val["enums.py"])
            c["inputs_enum_import"] = _imports_from(val["input_types.py"], "enums")
            c["client_inputs"] = _imports_from(val["client.py"], "input_types")
            c["client_enums"] = _imports_from(val["client.py"], "enums")
            c["fragments_written"] = "fragments.py" in val
            # the custom-operation modules are left out: what THEY import that the pruning was never told about is finding
            # C09-F1 (judged by the import oracle under its own signature), not part of this reading decision
            c["mentioned"] = sorted(_mentioned_names({k: v for k, v in val.items()
                                                      if k not in ("enums.py", "__init__.py") and not k.startswith("custom_")}))
            if custom:
                ci: Set[str] = set()
                ce: Set[str] = set()
                for fn in ("custom_queries.py", "custom_mutations.py", "custom_fields.py"):
                    if fn in val:
                        ci |= set(_imports_from(val[fn], "input_types"))
                        ce |= set(_imports_from(val[fn], None))
                c["custom_inputs"], c["custom_enums"] = sorted(ci), sorted(ce)
        except (SyntaxError, KeyError) as e:
            c["generation"] = f"unreadable: {type(e).__name__}: {e}"
        if drive and c["generation"] == "ok":
            st2, dv = engine.forked(_drive_child, name, str(sub), case, "drive", timeout=120)
            c["drive"] = dv if st2 == "ok" else {"import": f"harness:{st2}:{dv}", "calls": []}
        obs["combos"][name] = c

    base = obs["combos"]["gen_tt"]
    if base.get("generation") != "ok":
        obs["skipped"] = f"unpruned generation: {base.get('generation')}"
        # a pruned combination must not fail differently from the unpruned one
        for ai, ae in COMBOS[1:]:
            c = obs["combos"][_combo_name(ai, ae)]
            if c.get("generation") != base.get("generation"):
                obs["failures"].append({"sig": "pruned-generation-differs", "flags": [ai, ae],
                                        "detail": f"unpruned: {base.get('generation')} pruned: {c.get('generation')}"})
        return obs
    if drive and base["drive"]["import"] != "ok":
        obs["skipped"] = f"unpruned package does not import: {base['drive']['import'][:200]}"
    base_in = dict(base["inputs"])
    base_en = dict(base["enums"])
    for ai, ae in COMBOS[1:]:
        name = _combo_name(ai, ae)
        c = obs["combos"][name]

        def fail(sig: str, detail: str) -> None:
            obs["failures"].append({"sig": sig, "flags": [ai, ae], "detail": detail[:400]})

        if c.get("generation") != "ok":
            fail("pruned-generation-fails", f"{c.get('generation')} {c.get('detail', '')}")
            continue
        # (1) textual identity + relative order
        for kind, mine, theirs, order in (("input", c["inputs"], base_in, [n for n, _ in base["inputs"]]),
                                         ("enum", c["enums"], base_en, [n for n, _ in base["enums"]])):
            for n, txt in mine:
                if n not in theirs:
                    fail("retained-class-not-in-unpruned", f"{kind} {n}")
                elif theirs[n] != txt:
                    fail("retained-class-differs", f"{kind} {n}")
            kept = [n for n, _ in mine]
            if len(set(kept)) != len(kept):
                fail("retained-class-duplicated", f"{kind} {kept}")
            if kept != [n for n in order if n in set(kept)]:
                obs.setdefault("notes", []).append(f"{kind} classes reordered by pruning (not part of the property; the model comparison reports it)")
        # (2) retained set == closure (oracle's own worklist over graphql-core objects)
        if case.get("closure_check", True):
            want_in, want_en, classless_only = oracle_closure(case, ai, ae)
            got_in, got_en = {n for n, _ in c["inputs"]}, {n for n, _ in c["enums"]}
            # an enum that only a class-less, unreached fragment selects is needed iff a module of this package mentions it
            want_en |= classless_only & set(c.get("mentioned", []))
            if classless_only - got_en:
                obs.setdefault("notes", []).append("enum selected only by a class-less fragment no operation reaches: pruned, mentioned by no module")
            if want_in - got_in:
                fail("needed-input-pruned", f"missing {sorted(want_in - got_in)}")
            if got_in - want_in:
                fail("extra-input-kept", f"extra {sorted(got_in - want_in)}")
            if want_en - got_en:
                fail("needed-enum-pruned", f"missing {sorted(want_en - got_en)}")
            if got_en - want_en - classless_only:
                fail("extra-enum-kept", f"extra {sorted(got_en - want_en - classless_only)}")
        # (3)+(4) import and behaviour, relative to the unpruned package
        if drive and base["drive"]["import"] == "ok":
            d = c["drive"]
            if d["import"] != "ok":
                fail("custom-ops-import-error" if custom else "pruned-import-error", d["import"])
                continue
            for mine_call, base_call in zip(d["calls"], base["drive"]["calls"]):
                if mine_call["sent"] != base_call["sent"]:
                    fail("pruned-sends-different-variables", f"{mine_call['op']}: {json.dumps(mine_call['sent'])[:150]} vs {json.dumps(base_call['sent'])[:150]}")
                elif mine_call["outcome"] != base_call["outcome"] or mine_call.get("result") != base_call.get("result"):
                    fail("pruned-behaves-differently", f"{mine_call['op']}: {mine_call['outcome']} {mine_call.get('detail', '')} vs {base_call['outcome']}")
    # keep the payload small: names only
    for c in obs["combos"].values():
        c.pop("mentioned", None)
        if "inputs" in c:
            c["inputs"] = [n for n, _ in c["inputs"]]
            c["enums"] = [n for n, _ in c["enums"]]
        if "drive" in c:
            c["calls"] = [(x["op"], x["outcome"]) for x in c["drive"]["calls"]]
            c["import"] = c["drive"]["import"]
            del c["drive"]
    return obs


full_case = engine.with_scratch(full_case_impl)


def unit_batch(cases: List[Dict[str, Any]]) -> List[Dict[str, Any]]:
    """Unit-level observations of the REAL generators (no file is written)."""
    from ariadne_codegen.client_generators.enums import EnumsGenerator
    from ariadne_codegen.client_generators.input_types import InputTypesGenerator

    out = []
    for case in cases:
        schema = build_schema_like_the_generator(case["schema"])
        o: Dict[str, Any] = {"deps": {}, "filter": [], "enumsFilter": []}
        try:
            g = InputTypesGenerator(schema=schema)
            for n in case["dep_roots"]:
                o["deps"][n] = list(g._get_dependencies_of_type(n))
            for roots in case["root_lists"]:
                g2 = InputTypesGenerator(schema=schema)
                module = g2.generate(types_to_include=roots)
                o["filter"].append({"classes": [c.name for c in module.body if isinstance(c, ast.ClassDef)],
                                    "public": list(g2.get_generated_public_names()),
                                    "usedEnums": list(g2.get_used_enums())})
            for incl in case["enum_lists"]:
                e = EnumsGenerator(schema=schema)
                module = e.generate(types_to_include=incl)
                o["enumsFilter"].append([c.name for c in module.body if isinstance(c, ast.ClassDef)])
            o["args"] = []
            for v1, v2 in case.get("var_lists", []):
                o["args"].append(_observe_arguments(schema, v1, v2))
        except (AttributeError, ImportError, TypeError) as ex:
            o = {"observer": f"{type(ex).__name__}: {ex}"}
        out.append(o)
    return out


def _observe_arguments(schema: Any, v1: List[str], v2: List[str]) -> List[Any]:
    """ONE ArgumentsGenerator (as in the package generator), `generate` called twice: what the shared lists hold
    after each call, or the error that escaped."""
    from graphql import parse

    from ariadne_codegen.client_generators.arguments import ArgumentsGenerator

    g = ArgumentsGenerator(schema=schema)
    out: List[Any] = []
    for vs in (v1, v2):
        head = "(" + ", ".join(f"$v{_letters(k)}: {t}" for k, t in enumerate(vs)) + ")" if vs else ""
        vdefs = parse(f"query q{head} {{ __typename }}").definitions[0].variable_definitions
        try:
            g.generate(vdefs)
            out.append({"usedInputs": list(g.get_used_inputs()), "usedEnums": list(g.get_used_enums())})
        except Exception as e:  # noqa: BLE001
            if type(e).__name__ in ("AttributeError", "ImportError", "TypeError"):
                raise
            out.append({"error": type(e).__name__, "detail": str(e)})
            break
    return out


def _enc_type_str(t: str) -> Any:
    from graphql import parse_type

    return _enc_type_node(parse_type(t))


def component_batch(cases: List[Dict[str, Any]]) -> List[Dict[str, Any]]:
    """The REAL component generators the document model is parametric in: per operation
    `ResultTypesGenerator.get_used_enums()` / `get_unpacked_fragments()`, per fragment definition the used enums of
    its own generator, and `FragmentsGenerator.generate(exclude_names)` + `get_used_enums()` of the whole module."""
    from graphql import FragmentDefinitionNode, OperationDefinitionNode, parse

    out = []
    for case in cases:
        try:
            from ariadne_codegen.client_generators.fragments import FragmentsGenerator
            from ariadne_codegen.client_generators.result_types import ResultTypesGenerator

            schema = build_schema_like_the_generator(case["schema"])
            doc = parse(case["queries"]) if case["queries"].strip() else None
            defs = list(doc.definitions) if doc else []
            fragments = {d.name.value: d for d in defs if isinstance(d, FragmentDefinitionNode)}
            o: Dict[str, Any] = {"ops": [], "frags": [], "module": None}
            unpacked: Set[str] = set()
            for d in defs:
                if isinstance(d, OperationDefinitionNode):
                    g = ResultTypesGenerator(schema=schema, operation_definition=d, enums_module_name="enums",
                                             fragments_module_name="fragments", fragments_definitions=fragments)
                    o["ops"].append({"re": list(g.get_used_enums()), "unpacked": sorted(g.get_unpacked_fragments())})
                    unpacked |= set(g.get_unpacked_fragments())
            for n, f in fragments.items():
                g = ResultTypesGenerator(schema=schema, operation_definition=f, enums_module_name="enums", fragments_definitions=fragments)
                o["frags"].append({"name": n, "enums": list(g.get_used_enums())})
            fg = FragmentsGenerator(schema=schema, fragments_definitions=fragments)
            fg.generate(exclude_names=unpacked)
            o["module"] = list(fg.get_used_enums())
        except (AttributeError, ImportError, TypeError) as ex:
            o = {"observer": f"{type(ex).__name__}: {ex}"}
        except Exception as ex:  # noqa: BLE001  (a generator refusing the document: the package run reports it)
            o = {"refused": f"{type(ex).__name__}: {str(ex)[:200]}"}
        out.append(o)
    return out


def component_correspondence(ctx: Ctx, st: Optional[LeanStatus], res: Result, cases: List[Dict[str, Any]], label: str) -> None:
    """Tie of the PARAMETERS of the document model: the specification `component_spec` (this file) against the real
    component generators, and the model's `_generate_fragments` fed with the real components against the real module."""
    _quiet_fork_warning()
    batches = [cases[i:i + 25] for i in range(0, len(cases), 25)]
    results = engine.pmap_forked(component_batch, [(b,) for b in batches], timeout=300)
    lines: List[Dict[str, Any]] = []
    expect: List[Tuple[Any, Any]] = []
    for b, (status, val) in zip(batches, results):
        if status != "ok":
            raise common.Infra(f"component batch failed: {status} {val}")
        for case, o in zip(b, val):
            inp = {"schema": case["schema"], "queries": case["queries"]}
            if "observer" in o:
                res.mismatches.append(Mismatch("component-observer", inp, "observer: " + o["observer"], None))
                continue
            if "refused" in o:
                res.count(f"{label}:component-refused")
                continue
            schema = build_schema_like_the_generator(case["schema"])
            ops, frags = abstract_document_doc(schema, case["queries"])
            spec = {"ops": [{"re": sorted(set(x["re"])), "unpacked": sorted(x["unpacked"])} for x in ops],
                    "frags": [{"name": f["name"], "enums": sorted(set(f["enums"]))} for f in frags]}
            impl = {"ops": [{"re": sorted(set(x["re"])), "unpacked": sorted(x["unpacked"])} for x in o["ops"]],
                    "frags": [{"name": f["name"], "enums": sorted(set(f["enums"]))} for f in o["frags"]]}
            res.seen(["component", case["schema"], case["queries"]], nontrivial=any(x["unpacked"] for x in impl["ops"]) or any(f["enums"] for f in impl["frags"]))
            if impl != spec:
                res.mismatches.append(Mismatch("component", inp, impl, spec))
            unpacked = sorted({n for x in o["ops"] for n in x["unpacked"]})
            lines.append({"op": "fragments", "frags": o["frags"], "unpacked": unpacked})
            expect.append((inp, sorted(set(o["module"]))))
    if st is not None and st.driver_ok and lines:
        outs = common.run_driver(PROP, lines)
        for (inp, impl), model in zip(expect, outs):
            if sorted(set(model or [])) != impl:
                res.mismatches.append(Mismatch("fragments-module-enums", inp, impl, model))


# --------------------------------------------------------------------------------------------
# parent side
# --------------------------------------------------------------------------------------------


def py_trigger(line: Dict[str, Any]) -> bool:
    """Python twin of `Ariadne.Prune.trigCustomOpsPruned` on the abstracted input."""
    if not line.get("customOps"):
        return False
    deps: Dict[str, List[str]] = {}
    enums_of: Dict[str, List[str]] = {}
    for d in line["inputs"]:
        deps.setdefault(d["name"], []).extend(n for k, n in d["fields"] if k == "i")
        enums_of.setdefault(d["name"], []).extend(n for k, n in d["fields"] if k == "e")
    closure: Set[str] = set()
    work = [n for op in line["ops"] for n in op["vi"]]
    while work:
        n = work.pop()
        if n not in closure:
            closure.add(n)
            work += deps.get(n, [])
    retained = [d["name"] for d in line["inputs"] if line["allInputs"] or d["name"] in closure]
    used = {e for op in line["ops"] for e in op["re"] + op["ve"]} | set(line["frag"] or [])
    for n in retained:
        used |= set(enums_of.get(n, []))
    if not line["allInputs"] and any(n not in closure for n in line.get("customInputs", [])):
        return True
    if not line["allEnums"] and any(e not in used for e in line.get("customEnums", [])):
        return True
    return False


def _canon_unit(label: str, o: Any) -> Any:
    """What the property can see: the visiting order of the DFS and the order of `get_used_enums()` only
    feed a Python set / an import statement, so they are compared as sets; class lists stay ordered."""
    if label == "deps" and isinstance(o, dict) and "ok" in o:
        return {"ok": sorted(set(o["ok"]))}
    if label == "filter" and isinstance(o, dict) and "usedEnums" in o:
        return {"classes": o["classes"], "usedEnums": sorted(set(o["usedEnums"]))}
    return o


def unit_correspondence(ctx: Ctx, st: Optional[LeanStatus], res: Result) -> None:
    rng = ctx.sub_rng("unit")
    n = ctx.budget(400, 6000)
    cases = []
    for _ in range(n):
        s = gen_schema(rng)
        sdl = schema_sdl(s)
        names = list(s["inputs"])
        enum_names = list(s["enums"])
        if rng.random() < 0.35:  # underscore-prefixed type names (see underscore_names)
            import re
            ren = {n: "_" + n.lower() + ("_exp" if n in s["inputs"] else "") for n in names + enum_names if rng.random() < 0.4}
            for a, b in ren.items():
                sdl = re.sub(rf"\b{a}\b", b, sdl)
            names = [ren.get(n, n) for n in names]
            enum_names = [ren.get(n, n) for n in enum_names]
        root_lists: List[Optional[List[str]]] = [None, []]
        for _ in range(3):
            root_lists.append([rng.choice(names) for _ in range(rng.randint(1, 3))] if names else [])
        pool = enum_names + names + ["Nope"]
        enum_lists: List[Optional[List[str]]] = [None, [], [rng.choice(pool) for _ in range(rng.randint(1, 5))]]
        type_pool = names + enum_names + list(s["objects"]) + list(s["interfaces"]) + list(s["unions"]) + list(BUILTIN_SCALARS) \
            + (["Date"] if s["custom_scalar"] else []) + ["NotAType"]
        weights = [6] * len(names) + [6] * len(enum_names) + [1] * (len(type_pool) - len(names) - len(enum_names) - 1) + [1]
        var_lists = []
        for _ in range(2):
            var_lists.append([[rng.choice(WRAPS).format(rng.choices(type_pool, weights)[0]) for _ in range(rng.randint(0, 4))] for _ in range(2)])
        cases.append({"schema": sdl, "dep_roots": names + ["NotAType"], "root_lists": root_lists, "enum_lists": enum_lists,
                      "var_lists": var_lists, "shape": s["shape"]})
    batches = [cases[i:i + 40] for i in range(0, len(cases), 40)]
    _quiet_fork_warning()
    results = engine.pmap_forked(unit_batch, [(b,) for b in batches], timeout=300)
    lines: List[Dict[str, Any]] = []
    expect: List[Tuple[str, Any, Any]] = []
    for b, (status, val) in zip(batches, results):
        if status != "ok":
            raise common.Infra(f"unit batch failed: {status} {val}")
        for case, o in zip(b, val):
            if "observer" in o:
                res.mismatches.append(Mismatch("unit-observer", {"schema": case["schema"]}, "observer: " + o["observer"], None))
                continue
            schema = build_schema_like_the_generator(case["schema"])
            tbl = abstract_inputs(schema)
            res.count("unit:shape:" + case["shape"])
            res.count("unit:inputs:%d" % min(len(tbl), 9))
            for r in case["dep_roots"]:
                lines.append({"op": "deps", "inputs": tbl, "root": r})
                expect.append(("deps", {"schema": case["schema"], "root": r}, {"ok": o["deps"][r]}))
                res.seen(["deps", case["schema"], r], nontrivial=len(o["deps"][r]) > 1)
                if len(o["deps"][r]) > 1:
                    res.count("unit:deps-with-successors")
            for roots, got in zip(case["root_lists"], o["filter"]):
                lines.append({"op": "filter", "inputs": tbl, "roots": roots})
                if got["classes"] != got["public"]:
                    res.mismatches.append(Mismatch("public-names", {"schema": case["schema"], "roots": roots}, got["public"], got["classes"]))
                expect.append(("filter", {"schema": case["schema"], "roots": roots}, {"classes": got["classes"], "usedEnums": got["usedEnums"]}))
                res.seen(["filter", case["schema"], roots], nontrivial=bool(roots) and 0 < len(got["classes"]) < len(tbl))
            en = abstract_enums(schema)
            for incl, got in zip(case["enum_lists"], o["enumsFilter"]):
                lines.append({"op": "enumsFilter", "enums": en, "incl": incl})
                expect.append(("enumsFilter", {"schema": case["schema"], "incl": incl}, got))
                res.seen(["enumsFilter", case["schema"], incl], nontrivial=bool(incl) and 0 < len(got) < len(en))
            kinds = schema_kinds(schema)
            for (v1, v2), got in zip(case["var_lists"], o["args"]):
                # the shared generator appends: after the second call the lists hold what one call on v1 ++ v2 records
                for vs, g in zip((v1, v1 + v2), got):
                    lines.append({"op": "varsUse", "kinds": kinds, "vars": [_enc_type_str(t) for t in vs]})
                    expect.append(("varsUse", {"schema": case["schema"], "vars": vs}, g))
                    res.seen(["varsUse", case["schema"], vs], nontrivial=bool(g.get("usedInputs") or g.get("usedEnums")))
                    res.count("unit:varsUse:" + ("error:" + g["detail"].split(" ")[0] if "error" in g else "ok"))
    if st is not None and st.driver_ok:
        outs = common.run_driver(PROP, lines)
        for (label, inp, impl), model in zip(expect, outs):
            if _canon_unit(label, impl) != _canon_unit(label, model):
                res.mismatches.append(Mismatch(label, inp, impl, model))
        if expect:
            res.sample({"observation": expect[0][0], "input": {k: v for k, v in expect[0][1].items() if k != "schema"}, "impl": expect[0][2], "model": outs[0]}, limit=8)


def judge_full(ctx: Ctx, st: Optional[LeanStatus], res: Result, cases: List[Dict[str, Any]], custom: bool, drive: bool,
               label: str) -> List[Dict[str, Any]]:
    """Run full cases through the real generator; compare with the model; collect oracle failures."""
    _quiet_fork_warning()
    results = engine.pmap_forked(full_case, [(c, custom, drive) for c in cases], timeout=600)
    lines: List[Dict[str, Any]] = []
    expect: List[Tuple[str, Any, Any]] = []
    all_obs: List[Dict[str, Any]] = []
    for case, (status, obs) in zip(cases, results):
        if status != "ok":
            raise common.Infra(f"full case failed in the harness: {status} {obs}")
        all_obs.append(obs)
        res.count(f"{label}:cases")
        if "shape" in case:
            res.count(f"{label}:shape:" + case["shape"])
        if "input _" in case["schema"] or "enum _" in case["schema"]:
            res.count(f"{label}:cases-with-underscore-type-names")
        if obs["skipped"]:
            res.count(f"{label}:skipped-unpruned-broken")
        base = obs["combos"]["gen_tt"]
        nontrivial = False
        for ai, ae in COMBOS:
            c = obs["combos"][_combo_name(ai, ae)]
            if c.get("generation") != "ok":
                res.count(f"{label}:generation:" + str(c.get("generation"))[:40])
                continue
            if base.get("generation") == "ok" and (len(c["inputs"]) < len(base["inputs"]) or len(c["enums"]) < len(base["enums"])):
                nontrivial = True
                res.count(f"{label}:combos-that-pruned-something")
            if case.get("model_check", True):
                doc = doc_input(case, ai, ae, custom)
                line = twin_to_input(doc)
                impl = {"inputs": c["inputs"], "enums": c["enums"], "inputsEnumImport": c["inputs_enum_import"],
                        "clientInputs": c["client_inputs"], "clientEnums": c["client_enums"]}
                inp = {"schema": case["schema"], "queries": case["queries"], "flags": [ai, ae], "custom": custom}
                # the document model (Model/PruneDoc.lean: add_operation loop, arguments generator, _generate_fragments) ...
                lines.append(doc)
                expect.append(("generateDoc", inp, dict(impl, fragmentsWritten=c["fragments_written"])))
                # ... and Model/Prune.lean on the closed-form abstraction computed by the Python twin of `toInput`
                lines.append(line)
                expect.append(("generate", inp, impl))
                if any(op["unpacked"] for op in doc["ops"]):
                    res.count(f"{label}:combos-with-unpacked-fragments")
                if doc["frags"] and not c["fragments_written"]:
                    res.count(f"{label}:combos-fragments-module-not-written")
                if any(not isinstance(t, str) for op in doc["ops"] for t in op["vars"]):
                    res.count(f"{label}:combos-with-wrapped-variable-types")
                if custom:
                    tl = dict(line, op="trigger")
                    lines.append(tl)
                    expect.append(("trigger", {"schema": case["schema"], "queries": case["queries"], "flags": [ai, ae]}, py_trigger(line)))
                    lines.append(dict(doc, op="triggerDoc"))
                    expect.append(("triggerDoc", {"schema": case["schema"], "queries": case["queries"], "flags": [ai, ae]}, py_trigger(line)))
                    if (ai, ae) == (True, True) and (c.get("custom_inputs") != line["customInputs"] or c.get("custom_enums") != line["customEnums"]):
                        res.mismatches.append(Mismatch("custom-imports-abstraction", {"schema": case["schema"]},
                                                       [c.get("custom_inputs"), c.get("custom_enums")], [line["customInputs"], line["customEnums"]],
                                                       trigger=TRIGGER_F1))
            for op, outcome in c.get("calls", []):
                res.count(f"{label}:call:" + outcome)
        res.seen([label, case["schema"], case["queries"]], nontrivial=nontrivial)
        for note in sorted(set(obs.get("notes", []))):
            res.count(f"{label}:note:" + note[:90])
        for f in obs["failures"]:
            trig = None
            if custom and f["sig"] == "custom-ops-import-error":
                line = model_input(case, f["flags"][0], f["flags"][1], True)
                missing = [n for n in line["customInputs"] + line["customEnums"] if f"'{n}'" in f["detail"]]
                if py_trigger(line) and missing and "cannot import name" in f["detail"]:
                    trig = TRIGGER_F1
            res.failures.append(Failure(f["sig"], trig, {"schema": case["schema"], "queries": case["queries"], "flags": f["flags"],
                                                         "custom": custom, "closure_check": case.get("closure_check", True)}, f["detail"]))
    broken = [o for o in all_obs if o["skipped"]]
    if label != "corpus" and len(broken) * 2 > len(all_obs):
        # the generated inputs are valid: if the unpruned package can no longer be produced/imported for most of
        # them, the observer (or the generator's entry point) changed and nothing was compared
        res.mismatches.append(Mismatch("package-generation", {"label": label, "cases": len(all_obs)},
                                       f"observer: unpruned package unusable on {len(broken)} cases, e.g. {broken[0]['skipped'][:200]}", None))
    if st is not None and st.driver_ok and lines:
        outs = common.run_driver(PROP, lines)
        for (lab, inp, impl), model in zip(expect, outs):
            if lab in ("generate", "generateDoc"):
                ok = (isinstance(model, dict) and "error" not in model and impl["inputs"] == model["inputs"] and impl["enums"] == model["enums"]
                      and set(impl["inputsEnumImport"]) == set(model["inputsEnumImport"])
                      and set(impl["clientInputs"]) == set(model["clientInputs"]) and set(impl["clientEnums"]) == set(model["clientEnums"])
                      and (lab == "generate" or impl["fragmentsWritten"] == model.get("fragmentsWritten")))
            else:
                ok = impl == model
            if not ok:
                res.mismatches.append(Mismatch(lab, inp, impl, model))
        for (lab, inp, impl), model in zip(expect, outs):
            if lab == "generate" and inp["flags"] == [False, False] and len(impl["inputs"]) > 1:
                res.sample({"observation": "generate", "flags": inp["flags"], "queries": inp["queries"][:300], "impl": impl, "model": model}, limit=8)
                break
    return all_obs


def directed_cases(rng: random.Random, n: int) -> List[Dict[str, Any]]:
    """Small documents aimed at the places where the bookkeeping has an order or a flag to get wrong: an enum that is
    ONLY the (wrapped) variable type of the first / a middle / the last operation, an enum only below a fragment that
    an operation unpacks, only in a fragment that is inherited, only in an input field (retained or not), an enum
    nothing uses; an input reached only through a list variable.  Every case is judged for all four flag combinations."""
    out = []
    for _ in range(n):
        n_ops = rng.randint(1, 4)
        var_op = rng.randrange(n_ops)
        wrap = rng.choice(WRAPS)
        unpack = rng.random() < 0.6
        ops = []
        for i in range(n_ops):
            name = "op" + _letters(i)
            if i == var_op:
                ops.append(f"query {name}($m: {wrap.format('OnlyVar')}, $w: [[Wh!]]) {{ items(mode: $m, where: $w) {{ id }} }}")
            elif i % 3 == 0:
                ops.append(f"query {name} {{ pet {{ ...PetF }} }}" if unpack else f"query {name} {{ item {{ ...ItemF }} }}")
            elif i % 3 == 1:
                ops.append(f"query {name}($id: ID!) {{ byId(id: $id) {{ id res }} }}")
            else:
                ops.append(f"query {name} {{ item {{ ...ItemF }} }}")
        schema = ("enum OnlyVar { A B }\nenum OnlyRes { C }\nenum OnlyMixin { D }\nenum OnlyUnpacked { E }\nenum OnlyInput { F }\n"
                  "enum OnlyUnusedInput { G }\nenum Orphan { H }\n"
                  "input Wh { e: OnlyInput = F  and: [Wh!] }\ninput Unused { e: OnlyUnusedInput }\n"
                  f"type Item {{ id: ID!  res: OnlyRes  mix: OnlyMixin  unp: OnlyUnpacked }}\ntype Other {{ id: ID! }}\nunion Pet = Item | Other\n"
                  f"type Query {{ items(mode: {wrap.format('OnlyVar')}, where: [[Wh!]]): [Item!]!  byId(id: ID!): Item  item: Item  pet: Pet  unused(u: Unused): Int }}\n")
        frs = "fragment ItemF on Item { mix }\nfragment PetF on Pet { __typename ... on Item { unp } }\n"
        out.append({"schema": schema, "queries": "\n".join(ops) + "\n" + frs, "shape": "directed"})
    return out


def corpus_cases() -> List[Tuple[str, Dict[str, Any]]]:
    d = common.CORPUS / PROP
    out = []
    if d.exists():
        for f in sorted(d.glob("*.json")):
            out.append((f.name, json.loads(f.read_text())))
    return out


def replay_corpus(ctx: Ctx, st: Optional[LeanStatus], res: Result) -> None:
    findings = {f["id"]: f for f in common.load_findings(PROP)}
    plain: List[Dict[str, Any]] = []
    for fname, payload in corpus_cases():
        case = {"schema": payload["schema"], "queries": payload.get("queries", ""), "closure_check": payload.get("closure_check", True),
                "model_check": payload.get("model_check", True)}
        fid = payload.get("finding")
        if fid:
            before = len(res.failures)
            judge_full(ctx, st, res, [case], custom=bool(payload.get("custom")), drive=True, label="corpus")
            new = res.failures[before:]
            hit = [f for f in new if f.signature in (findings.get(fid, {}).get("signature") or [])]
            res.witness_status[fid] = "reproduces" if hit else "gone"
            if findings.get(fid, {}).get("status") == "fixed":
                for f in hit:
                    f.trigger = None  # a fixed finding that fails again is a plain violation
        elif payload.get("custom"):
            judge_full(ctx, st, res, [case], custom=True, drive=True, label="corpus")
        else:
            plain.append(case)
    if plain:
        judge_full(ctx, st, res, plain, custom=False, drive=True, label="corpus")


def run(ctx: Ctx, st: Optional[LeanStatus]) -> Result:
    res = Result()
    res.rule = ("unit: seeded random schemas (shapes random/chain/cycle/diamond/self/sparse/dense, interfaces and unions) x every input type "
                "as DFS root, 5 root lists, 3 enum include-lists, 2x2 variable-definition lists (every wrapper shape over input / enum / scalar / "
                "object / unknown type names; ONE ArgumentsGenerator called twice), real generators vs Lean driver; component: the real "
                "ResultTypesGenerator per operation / fragment and the real FragmentsGenerator vs the specification the document model is fed "
                "with; package: seeded (schema, operations incl. abstract positions with inline fragments, fragments unpacked / inherited / never "
                "spread) + directed documents x 4 flag combinations through main.client, ordered class lists + import sets + 'fragments.py written' "
                "vs the driver's generateDoc (document model) AND generate (closed form), and the pruned-vs-unpruned oracle incl. MockTransport "
                "calls; a case is non-trivial when a DFS has successors / a filter keeps a proper non-empty subset / a variable list records a "
                "type / an operation unpacks a fragment or a fragment uses an enum / a flag combination actually pruned a class")
    res.extra["fingerprints"] = common.fingerprints(ctx, FINGERPRINTS)
    if True:
        replay_corpus(ctx, st, res)
        ctx.log(f"corpus replayed: {res.witness_status} failures so far={len(res.failures)} mismatches={len(res.mismatches)}")
        unit_correspondence(ctx, st, res)
        ctx.log(f"unit correspondence done: evaluations={res.evaluations} mismatches={len(res.mismatches)}")
        rng = ctx.sub_rng("full")
        cases = [gen_case(rng) for _ in range(ctx.budget(70, 700))]
        rngk = ctx.sub_rng("component")
        component_correspondence(ctx, st, res, cases + [gen_case(rngk) for _ in range(ctx.budget(250, 2500))]
                                 + [{"schema": p["schema"], "queries": p.get("queries", "")} for _, p in corpus_cases() if p.get("model_check", True)],
                                 "component")
        ctx.log(f"component correspondence done: mismatches={len(res.mismatches)}")
        todo = directed_cases(ctx.sub_rng("directed"), ctx.budget(6, 40)) + cases
        found = any(f.trigger is None for f in res.failures)
        for i in range(0, len(todo), 80):
            if found:
                # the verdict is settled by a concrete failing input on the real code; the rest of the sweep would only add more of them
                ctx.log(f"concrete failing input found: {len(todo) - i} of {len(todo)} package cases not run")
                break
            judge_full(ctx, st, res, todo[i:i + 80], custom=False, drive=True, label="full")
            found = any(f.trigger is None for f in res.failures)
        ctx.log(f"package correspondence + oracle done: failures={len(res.failures)} mismatches={len(res.mismatches)}")
        if not found:
            rngc = ctx.sub_rng("custom")
            ccases = [gen_case(rngc) for _ in range(ctx.budget(12, 120))]
            judge_full(ctx, st, res, ccases, custom=True, drive=True, label="custom-ops")
    _RUN_STATE["unknown_failures"] = sum(1 for f in res.failures if f.trigger is None)
    res.oracle_only += [
        "the emitted text passes through ast_to_str (autoflake, isort, black) and CPython's import + pydantic model_rebuild: observed on the generated packages, represented in Lean only by WellScoped",
        "behavioural identity of every client method (same variables JSON, same outcome through httpx.MockTransport + graphql-core execution) is judged by the oracle only",
        "textual identity of retained classes: in Lean class bodies are opaque values and filtering is List.filter; that the emitted text of a class does not depend on the flags is observed (ast.unparse per class)",
    ]
    res.assumptions += [
        "abstraction schema -> dependency graph / kind table and variable definitions -> type-node trees (harness/c09.py, from graphql-core objects) is trusted; the roots and the variable enums are computed by the Lean model from the type nodes",
        "the per-operation / per-fragment outputs of ResultTypesGenerator (used enums, unpacked fragments) are PARAMETERS of the document model: fed from the specification component_spec (own typed walk), which every run compares with the real ResultTypesGenerator on all generated documents; the walk itself is modelled by Model/ResultTypes.lean (C01/C08), not here",
        "reading: 'enums reachable from fragments' = enums selected by a fragment definition the package has a class for; an enum selected ONLY by a fragment without a class (type condition a union / top-level inline fragment) that no operation reaches is required only if some module of the generated package (other than enums.py / __init__.py) mentions it (checked on the generated files; counted under note:)",
        "Python's recursion limit is not modelled: the recursive dfs raises RecursionError on a dependency PATH of ~970 input types; measured on the pinned tree, a package with a chain of 150 input types already cannot be imported with or without pruning (pydantic's schema generation recurses along the same path), so the hypothesis of C09 (the unpruned package loads) fails long before the dfs does",
        "plugins are not modelled (a plugin may rename classes after the dependency tables are built)",
    ]
    return res


_RUN_STATE: Dict[str, Any] = {"unknown_failures": 0}


def search(ctx: Ctx) -> Result:
    """After a broken proof / correspondence: look for a concrete failing input on the real code
    (skipped when the run that just finished already holds one)."""
    res = Result()
    if _RUN_STATE["unknown_failures"]:
        ctx.log("search skipped: the run already found a concrete failing input")
        return res
    rng = ctx.sub_rng("search")
    cases = directed_cases(rng, 40) + [gen_case(rng) for _ in range(400)]
    judge_full(ctx, None, res, cases, custom=False, drive=True, label="search")
    return res


def replay(ctx: Ctx, payload: Dict[str, Any]) -> int:
    inp = payload.get("input")
    if not inp:
        print(json.dumps(payload, indent=1)[:3000])
        return 1
    case = {"schema": inp["schema"], "queries": inp.get("queries", ""), "closure_check": inp.get("closure_check", True)}
    status, obs = engine.forked(full_case, case, bool(inp.get("custom")), True, timeout=600)
    if status != "ok":
        print("harness:", status, obs)
        return 2
    for name, c in obs["combos"].items():
        print(name, json.dumps({k: c.get(k) for k in ("generation", "inputs", "enums", "import", "calls")}, default=repr)[:600])
    for f in obs["failures"]:
        print("FAIL", f)
    return 1 if obs["failures"] else 0
