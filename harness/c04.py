"""C04 - every valid input generates, and what is generated loads.

Tie (DESIGN.md §3 C04):
  * package-IR correspondence: the package IR read back with Python `ast` from the REALLY emitted files
    (after autoflake / isort / black): per module the imports (as sets), class names in order, bases,
    field / member / parameter names, `model_rebuild()` calls, `__all__`; plus the reported file list
    and the directory listing - against lean Model/Package.lean (`generatePackage`, drv_c04 op
    `package`) for the same (configuration, schema, document);
  * property oracle (independent of the model): generation in a forked child ends in success or in one
    of the documented refusals; a fresh interpreter imports EVERY module of the package; every pydantic
    model class is `__pydantic_complete__`; every name of `__all__` resolves and `__all__` is the sorted
    list of the names `__init__` imports; the returned file list is the directory listing.
Failures inside a finding region (a trigger predicate of Model/PackageTriggers.lean - asked from the
driver, op `triggers` - holds AND the finding lists the failure signature) are known findings;
anything else is a violation.
"""
from __future__ import annotations

import ast
import json
from pathlib import Path
from typing import Any, Dict, List, Optional, Tuple

from . import c04_gen, common, e2e, engine, gqlwire
from .common import Ctx, Failure, LeanStatus, Mismatch, Result

PROP = "C04"

# the four refusals the property documents (statement of C04): anonymous operation, subscription with a
# synchronous client, colliding file names, malformed @mixin arguments
DOCUMENTED = (
    ("refusal:ParsingError", "Query without name."),
    ("refusal:NotSupported", "Operations without name are not supported."),
    ("refusal:NotSupported", "Subscriptions are only available when using async client."),
    ("refusal:ParsingError", "Duplicated file names"),
    ("refusal:ParsingError", "Arguments passed to mixin have to be strings."),
    ("refusal:ParsingError", "Required arguments (from, import) not found."),
)


# --------------------------------------------------------------------------------------------
# child side: generate, read back, import
# --------------------------------------------------------------------------------------------


def module_ir(src: str) -> Dict[str, Any]:
    """what the property can see of one emitted module, read back with `ast`"""
    tree = ast.parse(src)
    imports: List[List[Any]] = []
    classes: List[Dict[str, Any]] = []
    rebuilds: List[str] = []
    functions: List[str] = []
    all_: Optional[List[str]] = None
    for node in tree.body:
        if isinstance(node, ast.ImportFrom):
            for a in node.names:
                imports.append([node.level, node.module or "", a.name])
        elif isinstance(node, ast.Import):
            for a in node.names:
                imports.append([0, "", a.name])
        elif isinstance(node, ast.ClassDef):
            fields: List[str] = []
            methods: List[Dict[str, Any]] = []
            for st in node.body:
                if isinstance(st, ast.AnnAssign) and isinstance(st.target, ast.Name):
                    fields.append(st.target.id)
                elif isinstance(st, ast.Assign) and len(st.targets) == 1 and isinstance(st.targets[0], ast.Name):
                    fields.append(st.targets[0].id)
                elif isinstance(st, (ast.FunctionDef, ast.AsyncFunctionDef)):
                    a = st.args
                    params = [x.arg for x in a.posonlyargs + a.args] + ([a.vararg.arg] if a.vararg else []) + \
                             [x.arg for x in a.kwonlyargs] + ([a.kwarg.arg] if a.kwarg else [])
                    methods.append({"name": st.name, "params": params})
            classes.append({"name": node.name, "bases": [ast.unparse(b) for b in node.bases], "fields": fields, "methods": methods})
        elif isinstance(node, (ast.FunctionDef, ast.AsyncFunctionDef)):
            functions.append(node.name)
        elif isinstance(node, ast.Expr) and isinstance(node.value, ast.Call) and isinstance(node.value.func, ast.Attribute) \
                and node.value.func.attr == "model_rebuild" and isinstance(node.value.func.value, ast.Name):
            rebuilds.append(node.value.func.value.id)
        elif isinstance(node, ast.Assign) and len(node.targets) == 1 and isinstance(node.targets[0], ast.Name) \
                and node.targets[0].id == "__all__" and isinstance(node.value, ast.List):
            all_ = [e.value for e in node.value.elts if isinstance(e, ast.Constant)]
    return {"imports": sorted(imports), "classes": classes, "rebuilds": rebuilds, "functions": functions, "all": all_}


@engine.with_scratch
def observe_case(root: Path, case: Dict[str, Any]) -> Dict[str, Any]:
    """real generation -> directory listing / reported list / module IRs -> import of every module"""
    import importlib

    for name, text in (case.get("extra_files") or {}).items():
        (root / name).write_text(text)
    out = e2e.generate_only(root, case)
    if out["gen"] != "ok":
        pkg_dir = root / (case.get("config") or {}).get("target_package_name", "gen_pkg")
        out["dir_after_failure"] = sorted(p.name for p in pkg_dir.iterdir()) if pkg_dir.exists() else None
        return out
    gen = out.pop("_gen")
    out["files"] = sorted(p.name for p in gen.dir.iterdir())
    out["reported_files"] = gen.files
    sources = {p.name: p.read_text() for p in gen.dir.glob("*.py")}
    if "sources" in case.get("want", []):
        out["sources"] = sources
    irs: Dict[str, Any] = {}
    for name, src in sources.items():
        try:
            irs[name] = module_ir(src)
        except SyntaxError as e:
            irs[name] = {"syntax_error": f"{e.msg} (line {e.lineno})"}
    out["ir"] = irs
    try:
        pkg = engine.import_package(gen)
    except BaseException as e:  # noqa: BLE001
        import traceback

        out["import"] = f"{type(e).__name__}: {str(e)[:300]}"
        out["where"] = traceback.format_exc()[-900:]
        return out
    out["import"] = "ok"
    incomplete: List[str] = []
    for f in sorted(sources):
        mod = f[:-3]
        if mod == "__init__":
            continue
        try:
            info = e2e.class_info(pkg, mod)
        except BaseException as e:  # noqa: BLE001
            incomplete.append(f"{mod}:$error:{type(e).__name__}")
            continue
        incomplete += [f"{mod}.{c}" for c, i in info.items() if not i.get("complete")]
    out["incomplete"] = incomplete
    declared = getattr(pkg, "__all__", None)
    out["all"] = list(declared) if declared is not None else None
    out["unresolved"] = [n for n in (declared or []) if not hasattr(pkg, n)]
    return out


# --------------------------------------------------------------------------------------------
# the oracle (parent side): the property, stated on the observation only
# --------------------------------------------------------------------------------------------


def documented_refusal(gen: str, message: str) -> bool:
    return any(gen == g and m in message for g, m in DOCUMENTED)


def judge(case: Dict[str, Any], status: str, r: Any) -> List[Tuple[str, str]]:
    """-> [(signature, detail)] for everything that contradicts C04 in this case"""
    if status != "ok":
        return [("harness-" + status, str(r)[:300])]
    out: List[Tuple[str, str]] = []
    if r["gen"] != "ok":
        msg = r.get("message", "")
        if r["gen"].startswith("internal:"):
            return [("generation-" + r["gen"], msg[:300])]
        if documented_refusal(r["gen"], msg):
            return []
        return [("valid-input-refused:" + r["gen"].split(":", 1)[1], msg[:300])]
    if sorted(r["reported_files"]) != r["reported_files"] or r["files"] != r["reported_files"]:
        extra = sorted(set(r["files"]) - set(r["reported_files"]))
        missing = sorted(set(r["reported_files"]) - set(r["files"]))
        dup = sorted({f for f in r["reported_files"] if r["reported_files"].count(f) > 1})
        kind = "written-not-reported" if extra else "reported-not-written" if missing else "reported-twice" if dup else "not-sorted"
        out.append(("reported-files-differ:" + kind, f"unreported={extra} unwritten={missing} twice={dup}"))
    for name, ir in sorted(r["ir"].items()):
        if "syntax_error" in ir:
            out.append(("module-not-python", f"{name}: {ir['syntax_error']}"))
    init = r["ir"].get("__init__.py", {})
    if "syntax_error" not in init:
        imported = sorted(n for _, _, n in init.get("imports", []))
        if init.get("all") is None:
            if imported:
                out.append(("all-missing", f"imports {imported[:5]} but no __all__"))
        elif init["all"] != sorted(init["all"]) or sorted(set(init["all"])) != sorted(set(imported)):
            out.append(("all-differs", f"__all__={init['all'][:8]} imported={imported[:8]}"))
    if r["import"] != "ok":
        out.append(("import-failed:" + r["import"].split(":", 1)[0], r["import"][:300]))
        return out
    if r["incomplete"]:
        out.append(("model-incomplete", ", ".join(r["incomplete"][:5])))
    if r["unresolved"]:
        out.append(("all-unresolved", ", ".join(r["unresolved"][:5])))
    return out
