"""C04 - every valid input generates, and what is generated loads.

Tie (DESIGN.md §3 C04):
  * package-IR correspondence: the package IR read back with Python `ast` from the REALLY emitted files
    (after autoflake / isort / black): per module the imports (as sets), class names in order, bases,
    field / member / parameter names, `model_rebuild()` calls, `__all__`; plus the reported file list
    and the directory listing - against lean Model/Package.lean (`generatePackage`, drv_c04 op
    `package`) for the same (configuration, schema, document);
  * property oracle (independent of the model): generation in a forked child ends in success or in one
    of the documented refusals; a fresh interpreter imports EVERY module of the package; every pydantic
    model class is `__pydantic_complete__`; every name of `__all__` resolves and `__all__` is the sorted
    list of the names `__init__` imports; the returned file list is the directory listing.
Failures inside a finding region (a trigger predicate of Model/PackageTriggers.lean - asked from the
driver, op `triggers` - holds AND the finding lists the failure signature) are known findings;
anything else is a violation.
"""
from __future__ import annotations

import ast
import json
from pathlib import Path
from typing import Any, Dict, List, Optional, Tuple

from . import c04_gen, common, e2e, engine, gqlwire
from .common import Ctx, Failure, LeanStatus, Mismatch, Result

PROP = "C04"

# the four refusals the property documents (statement of C04): anonymous operation, subscription with a
# synchronous client, colliding file names, malformed @mixin arguments
DOCUMENTED = (
    ("refusal:ParsingError", "Query without name."),
    ("refusal:NotSupported", "Operations without name are not supported."),
    ("refusal:NotSupported", "Subscriptions are only available when using async client."),
    ("refusal:ParsingError", "Duplicated file names"),
    ("refusal:ParsingError", "Arguments passed to mixin have to be strings."),
    ("refusal:ParsingError", "Required arguments (from, import) not found."),
)


# --------------------------------------------------------------------------------------------
# child side: generate, read back, import
# --------------------------------------------------------------------------------------------


def module_ir(src: str) -> Dict[str, Any]:
    """what the property can see of one emitted module, read back with `ast`"""
    tree = ast.parse(src)
    imports: List[List[Any]] = []
    classes: List[Dict[str, Any]] = []
    rebuilds: List[str] = []
    functions: List[str] = []
    all_: Optional[List[str]] = None
    for node in tree.body:
        if isinstance(node, ast.ImportFrom):
            for a in node.names:
                imports.append([node.level, node.module or "", a.name])
        elif isinstance(node, ast.Import):
            for a in node.names:
                imports.append([0, "", a.name])
        elif isinstance(node, ast.ClassDef):
            fields: List[str] = []
            methods: List[Dict[str, Any]] = []
            for st in node.body:
                if isinstance(st, ast.AnnAssign) and isinstance(st.target, ast.Name):
                    fields.append(st.target.id)
                elif isinstance(st, ast.Assign) and len(st.targets) == 1 and isinstance(st.targets[0], ast.Name):
                    fields.append(st.targets[0].id)
                elif isinstance(st, (ast.FunctionDef, ast.AsyncFunctionDef)):
                    a = st.args
                    params = [x.arg for x in a.posonlyargs + a.args] + ([a.vararg.arg] if a.vararg else []) + \
                             [x.arg for x in a.kwonlyargs] + ([a.kwarg.arg] if a.kwarg else [])
                    methods.append({"name": st.name, "params": params})
            classes.append({"name": node.name, "bases": [ast.unparse(b) for b in node.bases], "fields": fields, "methods": methods})
        elif isinstance(node, (ast.FunctionDef, ast.AsyncFunctionDef)):
            functions.append(node.name)
        elif isinstance(node, ast.Expr) and isinstance(node.value, ast.Call) and isinstance(node.value.func, ast.Attribute) \
                and node.value.func.attr == "model_rebuild" and isinstance(node.value.func.value, ast.Name):
            rebuilds.append(node.value.func.value.id)
        elif isinstance(node, ast.Assign) and len(node.targets) == 1 and isinstance(node.targets[0], ast.Name) \
                and node.targets[0].id == "__all__" and isinstance(node.value, ast.List):
            all_ = [e.value for e in node.value.elts if isinstance(e, ast.Constant)]
    return {"imports": sorted(imports), "classes": classes, "rebuilds": rebuilds, "functions": functions, "all": all_}


@engine.with_scratch
def observe_case(root: Path, case: Dict[str, Any]) -> Dict[str, Any]:
    """real generation -> directory listing / reported list / module IRs -> import of every module"""
    import importlib

    for name, text in (case.get("extra_files") or {}).items():
        (root / name).write_text(text)
    out = e2e.generate_only(root, case)
    if out["gen"] != "ok":
        pkg_dir = root / (case.get("config") or {}).get("target_package_name", "gen_pkg")
        out["dir_after_failure"] = sorted(p.name for p in pkg_dir.iterdir()) if pkg_dir.exists() else None
        return out
    gen = out.pop("_gen")
    out["files"] = sorted(p.name for p in gen.dir.iterdir())
    out["reported_files"] = gen.files
    sources = {p.name: p.read_text() for p in gen.dir.glob("*.py")}
    if "sources" in case.get("want", []):
        out["sources"] = sources
    irs: Dict[str, Any] = {}
    for name, src in sources.items():
        try:
            irs[name] = module_ir(src)
        except SyntaxError as e:
            irs[name] = {"syntax_error": f"{e.msg} (line {e.lineno})"}
    out["ir"] = irs
    import warnings

    caught: List[Any] = []
    try:
        with warnings.catch_warnings(record=True) as caught:
            warnings.simplefilter("always")
            pkg = engine.import_package(gen)
    except BaseException as e:  # noqa: BLE001
        import traceback

        out["import"] = f"{type(e).__name__}: {str(e)[:300]}"
        out["where"] = traceback.format_exc()[-900:]
        return out
    out["import"] = "ok"
    # pydantic's class construction warns when a field is called like an attribute of BaseModel: the attribute is gone
    # only the names ariadne-codegen itself promises to escape (PYDANTIC_RESERVED_FIELD_NAMES) are judged; other shadowed
    # attributes (a field called `mro`) are recorded as an observation
    try:
        from ariadne_codegen.utils import PYDANTIC_RESERVED_FIELD_NAMES as _reserved
    except (ImportError, AttributeError):  # the constant moved: the pinned list
        _reserved = ("construct", "copy", "dict", "from_orm", "json", "model_config", "model_construct", "model_copy", "model_dump", "model_dump_json",
                     "model_fields", "model_validate", "parse_obj", "parse_raw", "schema", "schema_json", "update_forward_refs", "validate")
    shadows = sorted({str(w.message)[:160] for w in caught if "shadows an attribute in parent" in str(w.message)})
    out["shadow_warnings"] = [m for m in shadows if any(f'Field name "{n}"' in m for n in _reserved)]
    out["other_shadow_warnings"] = [m for m in shadows if m not in out["shadow_warnings"]]
    incomplete: List[str] = []
    for f in sorted(sources):
        mod = f[:-3]
        if mod == "__init__":
            continue
        try:
            info = e2e.class_info(pkg, mod)
        except BaseException as e:  # noqa: BLE001
            incomplete.append(f"{mod}:$error:{type(e).__name__}")
            continue
        incomplete += [f"{mod}.{c}" for c, i in info.items() if not i.get("complete")]
    out["incomplete"] = incomplete
    declared = getattr(pkg, "__all__", None)
    out["all"] = list(declared) if declared is not None else None
    out["unresolved"] = [n for n in (declared or []) if not hasattr(pkg, n)]
    return out


# --------------------------------------------------------------------------------------------
# the oracle (parent side): the property, stated on the observation only
# --------------------------------------------------------------------------------------------


def documented_refusal(gen: str, message: str) -> bool:
    return any(gen == g and m in message for g, m in DOCUMENTED)


def judge(case: Dict[str, Any], status: str, r: Any) -> List[Tuple[str, str]]:
    """-> [(signature, detail)] for everything that contradicts C04 in this case"""
    if status != "ok":
        return [("harness-" + status, str(r)[:300])]
    out: List[Tuple[str, str]] = []
    if r["gen"] != "ok":
        msg = r.get("message", "")
        if r["gen"].startswith("internal:"):
            return [("generation-" + r["gen"], msg[:300])]
        if documented_refusal(r["gen"], msg):
            return []
        return [("valid-input-refused:" + r["gen"].split(":", 1)[1], msg[:300])]
    if sorted(r["reported_files"]) != r["reported_files"] or r["files"] != r["reported_files"]:
        extra = sorted(set(r["files"]) - set(r["reported_files"]))
        missing = sorted(set(r["reported_files"]) - set(r["files"]))
        dup = sorted({f for f in r["reported_files"] if r["reported_files"].count(f) > 1})
        kind = "written-not-reported" if extra else "reported-not-written" if missing else "reported-twice" if dup else "not-sorted"
        out.append(("reported-files-differ:" + kind, f"unreported={extra} unwritten={missing} twice={dup}"))
    for name, ir in sorted(r["ir"].items()):
        if "syntax_error" in ir:
            out.append(("module-not-python", f"{name}: {ir['syntax_error']}"))
    init = r["ir"].get("__init__.py", {})
    if "syntax_error" not in init:
        imported = sorted(n for _, _, n in init.get("imports", []))
        if init.get("all") is None:
            if imported:
                out.append(("all-missing", f"imports {imported[:5]} but no __all__"))
        elif init["all"] != sorted(init["all"]) or sorted(set(init["all"])) != sorted(set(imported)):
            out.append(("all-differs", f"__all__={init['all'][:8]} imported={imported[:8]}"))
    if r["import"] != "ok":
        out.append(("import-failed:" + r["import"].split(":", 1)[0], r["import"][:300]))
        return out
    if r["incomplete"]:
        # which module: the fragments module rebuilds only the top-level class of every fragment (finding F15);
        # an incomplete class anywhere else is a different failure
        frag_mod = (case.get("config") or {}).get("fragments_module_name", "fragments")
        in_frag = [c for c in r["incomplete"] if c.split(".", 1)[0] == frag_mod]
        other = [c for c in r["incomplete"] if c.split(".", 1)[0] != frag_mod]
        if in_frag:
            out.append(("model-incomplete:fragments-module", ", ".join(in_frag[:5])))
        if other:
            out.append(("model-incomplete:other-module", ", ".join(other[:5])))
    if r["unresolved"]:
        out.append(("all-unresolved", ", ".join(r["unresolved"][:5])))
    if r.get("shadow_warnings"):
        # "imports cleanly": a generated field that replaces BaseModel.model_dump / copy / dict ... does not
        out.append(("import-warning:field-shadows-basemodel-attribute", "; ".join(r["shadow_warnings"][:3])))
    return out


# --------------------------------------------------------------------------------------------
# the model side: wire encoding of a case, driver calls
# --------------------------------------------------------------------------------------------

EXTRACT_OPS = "ariadne_codegen.contrib.extract_operations.ExtractOperationsPlugin"
DEFAULT_CLIENTS = {(True, False): ("AsyncBaseClient", "async_base_client.py"), (True, True): ("AsyncBaseClientOpenTelemetry", "async_base_client_open_telemetry.py"),
                   (False, False): ("BaseClient", "base_client.py"), (False, True): ("BaseClientOpenTelemetry", "base_client_open_telemetry.py")}
GENERATED_KINDS = ("result", "fragments", "inputs", "enums", "client", "init")


def default_clients() -> Dict[Tuple[bool, bool], Tuple[str, str]]:
    """(async, opentelemetry) -> (class name, file name), read from the tree under test (falls back to the
    pinned table when the constants moved: the correspondence then shows the difference)"""
    try:
        from ariadne_codegen.client_generators import constants as c

        return {(True, False): (c.DEFAULT_ASYNC_BASE_CLIENT_NAME, c.DEFAULT_ASYNC_BASE_CLIENT_PATH.name),
                (True, True): (c.DEFAULT_ASYNC_BASE_CLIENT_OPEN_TELEMETRY_NAME, c.DEFAULT_ASYNC_BASE_CLIENT_OPEN_TELEMETRY_PATH.name),
                (False, False): (c.DEFAULT_BASE_CLIENT_NAME, c.DEFAULT_BASE_CLIENT_PATH.name),
                (False, True): (c.DEFAULT_BASE_CLIENT_OPEN_TELEMETRY_NAME, c.DEFAULT_BASE_CLIENT_OPEN_TELEMETRY_PATH.name)}
    except (ImportError, AttributeError):
        return dict(DEFAULT_CLIENTS)


def wire_config(cfg: Dict[str, Any]) -> Dict[str, Any]:
    async_ = cfg.get("async_client", True)
    otel = cfg.get("opentelemetry_client", False)
    out: Dict[str, Any] = {
        "clientName": cfg.get("client_name", "Client"), "clientFile": cfg.get("client_file_name", "client"),
        "enumsModule": cfg.get("enums_module_name", "enums"), "inputsModule": cfg.get("input_types_module_name", "input_types"),
        "fragmentsModule": cfg.get("fragments_module_name", "fragments"), "async": async_,
        "snake": cfg.get("convert_to_snake_case", True), "allInputs": cfg.get("include_all_inputs", True),
        "allEnums": cfg.get("include_all_enums", True), "customOps": cfg.get("enable_custom_operations", False),
        "filesToInclude": [Path(f).name for f in cfg.get("files_to_include", [])],
        "scalars": [{"name": n, "type": d["type"], "serialize": d.get("serialize"), "parse": d.get("parse"), "import": d.get("import")}
                    for n, d in (cfg.get("scalars") or {}).items()],
        "extractOps": None,
    }
    if cfg.get("base_client_file_path") or cfg.get("base_client_name"):
        out.update({"baseClientName": cfg.get("base_client_name", ""), "baseClientFile": Path(cfg.get("base_client_file_path", "")).name,
                    "defaultBaseClient": False})
    else:
        name, file = default_clients()[(bool(async_), bool(otel))]
        out.update({"baseClientName": name, "baseClientFile": file, "defaultBaseClient": True})
    if EXTRACT_OPS in (cfg.get("plugins") or []):
        out["extractOps"] = (cfg.get("extract_operations") or {}).get("operations_module_name", "operations")
    return out


def lit_of_ast(node: Any) -> Dict[str, Any]:
    from graphql import (BooleanValueNode, EnumValueNode, FloatValueNode, IntValueNode, ListValueNode, NullValueNode, ObjectValueNode,
                         StringValueNode)

    if isinstance(node, IntValueNode):
        return {"k": "int", "v": int(node.value)}
    if isinstance(node, FloatValueNode):
        return {"k": "float", "v": node.value}
    if isinstance(node, StringValueNode):
        return {"k": "str", "v": node.value}
    if isinstance(node, BooleanValueNode):
        return {"k": "bool", "v": bool(node.value)}
    if isinstance(node, NullValueNode):
        return {"k": "null"}
    if isinstance(node, EnumValueNode):
        return {"k": "enum", "v": node.value}
    if isinstance(node, ListValueNode):
        return {"k": "list", "v": [lit_of_ast(v) for v in node.values]}
    if isinstance(node, ObjectValueNode):
        return {"k": "obj", "v": [[f.name.value, lit_of_ast(f.value)] for f in node.fields]}
    return {"k": "null"}


def defs_of_schema(schema: Any) -> List[Dict[str, Any]]:
    """the type map in the vocabulary of Model/InputGen.lean (input fields with their default literals), in `type_map` order"""
    from graphql import GraphQLEnumType, GraphQLInputObjectType, GraphQLScalarType

    out: List[Dict[str, Any]] = []
    for name, t in schema.type_map.items():
        if name.startswith("__"):
            continue
        if isinstance(t, GraphQLEnumType):
            out.append({"kind": "enum", "name": name, "values": list(t.values.keys())})
        elif isinstance(t, GraphQLInputObjectType):
            fs = []
            for fname, f in t.fields.items():
                node = f.ast_node
                fs.append({"name": fname, "type": gqlwire.type_ref(f.type),
                           "default": lit_of_ast(node.default_value) if node is not None and node.default_value is not None else None})
            out.append({"kind": "input", "name": name, "fields": fs})
        elif isinstance(t, GraphQLScalarType):
            out.append({"kind": "scalar", "name": name})
        else:
            out.append({"kind": "composite", "name": name})
    return out


def typeref_of_node(node: Any) -> List[Any]:
    from graphql import ListTypeNode, NonNullTypeNode

    if isinstance(node, NonNullTypeNode):
        return ["nonnull", typeref_of_node(node.type)]
    if isinstance(node, ListTypeNode):
        return ["list", typeref_of_node(node.type)]
    return ["named", node.name.value]


def model_line(case: Dict[str, Any], op: str) -> Dict[str, Any]:
    """(configuration, schema, document) in the driver's wire format; only graphql-core reads the inputs"""
    from graphql import OperationDefinitionNode, build_ast_schema, parse, print_ast

    schema = build_ast_schema(parse(case["sdl"]), assume_valid=True)
    doc_ast = parse(case["queries"])
    doc = gqlwire.document_to_json(doc_ast)
    op_nodes = [d for d in doc_ast.definitions if isinstance(d, OperationDefinitionNode)]
    for o, node in zip(doc["operations"], op_nodes):
        o["vars"] = [{"name": v.variable.name.value, "type": typeref_of_node(v.type)} for v in node.variable_definitions or ()]
        o["text"] = print_ast(node)
    return {"op": op, "config": wire_config(case.get("config") or {}), "schema": gqlwire.schema_to_json(schema),
            "fragments": doc["fragments"], "operations": doc["operations"], "defs": defs_of_schema(schema)}


def run_model(cases: List[Dict[str, Any]], op: str) -> List[Any]:
    lines = []
    for c in cases:
        try:
            lines.append(model_line(c, op))
        except Exception as e:  # the case is not GraphQL at all (hand-written replay input)
            raise common.Infra(f"case {c.get('seed')} cannot be encoded for the driver: {e!r}")
    return run_driver(lines)


def run_driver(lines: List[Dict[str, Any]]) -> List[Any]:
    """common.run_driver splits on str.splitlines(), which also cuts at U+2028 etc. inside echoed strings"""
    import subprocess

    exe = common.LEAN / ".lake/build/bin" / common.driver_name(PROP)
    if not exe.exists():
        raise common.Infra(f"driver {exe} not built")
    out: List[Any] = []
    for i in range(0, len(lines), 2000):
        part = lines[i:i + 2000]
        payload = "".join(json.dumps(l, separators=(",", ":")) + "\n" for l in part).encode()
        p = subprocess.run([str(exe)], input=payload, capture_output=True, timeout=1800)
        if p.returncode != 0:
            raise common.Infra(f"driver exited {p.returncode}: {p.stderr[-300:]!r}")
        got = [json.loads(l) for l in p.stdout.split(b"\n") if l.strip()]
        if len(got) != len(part):
            raise common.Infra(f"driver: {len(part)} lines in, {len(got)} lines out")
        out += got
    for line, o in zip(lines, out):
        if isinstance(o, dict) and "driver_error" in o:
            raise common.Infra(f"driver rejected {json.dumps(line)[:200]}: {o['driver_error']}")
    return out


def triggers_of(cases: List[Dict[str, Any]]) -> List[List[str]]:
    return run_model(cases, "triggers") if cases else []


# --------------------------------------------------------------------------------------------
# package-IR correspondence
# --------------------------------------------------------------------------------------------


def compare_package(obs: Dict[str, Any], model: Dict[str, Any]) -> List[Tuple[str, Any, Any]]:
    """-> [(observation, impl, model)] for every difference between the emitted package and the model's"""
    diffs: List[Tuple[str, Any, Any]] = []
    if obs["gen"] != "ok" or "ok" not in model:
        impl_o = obs["gen"]
        model_o = "ok" if "ok" in model else model["error"]
        if impl_o != model_o:
            diffs.append(("outcome", {"gen": impl_o, "message": obs.get("message", "")[:160]}, {"gen": model_o, "msg": model.get("msg", "")}))
        elif impl_o != "ok":
            # which of two malformed @mixin directives on two FRAGMENT definitions is met first depends on the iteration
            # order of a Python set (the model's enumeration oracle; the driver runs it with the identity): both are the
            # same documented refusal class, the message is not compared then
            mixin_msgs = ("Arguments passed to mixin have to be strings.", "Required arguments (from, import) not found.")
            both_mixin = any(m in obs.get("message", "") for m in mixin_msgs) and model.get("msg") in mixin_msgs
            if model.get("msg") and model["msg"] not in obs.get("message", "") and not both_mixin:
                diffs.append(("refusal-message", obs.get("message", "")[:160], model["msg"]))
            written = obs.get("dir_after_failure")
            if sorted(set(model.get("written", []))) != (written or []) or (written is not None) != bool(model.get("mkdir")):
                diffs.append(("written-before-failure", written, {"written": model.get("written"), "mkdir": model.get("mkdir")}))
        return diffs
    pkg = model["ok"]
    if obs["files"] != pkg["onDisk"]:
        diffs.append(("directory-listing", obs["files"], pkg["onDisk"]))
    if obs["reported_files"] != pkg["reported"]:
        diffs.append(("reported-files", obs["reported_files"], pkg["reported"]))
    for m in pkg["modules"]:
        if m["kind"] not in GENERATED_KINDS:
            continue
        ir = obs["ir"].get(m["file"])
        if ir is None:
            continue  # already reported through the directory listing
        if "syntax_error" in ir:
            diffs.append(("module:" + m["file"], ir, "python"))
            continue
        mi = sorted({(a, b, c) for a, b, c in m["imports"]})
        ii = sorted({(a, b, c) for a, b, c in ir["imports"]})
        if mi != ii:
            diffs.append((f"imports:{m['kind']}", {"file": m["file"], "only_impl": [x for x in ii if x not in mi], "only_model": [x for x in mi if x not in ii]}, None))
        ic = [{"name": c["name"], "bases": c["bases"], "fields": c["fields"]} for c in ir["classes"]]
        if ic != m["classes"]:
            bad = [(a, b) for a, b in zip(ic, m["classes"]) if a != b][:2]
            diffs.append((f"classes:{m['kind']}", {"file": m["file"], "names": [c["name"] for c in ic], "first": bad[0][0] if bad else None},
                          {"names": [c["name"] for c in m["classes"]], "first": bad[0][1] if bad else None}))
        if m["kind"] == "client":
            im = [{"name": f["name"], "params": f["params"]} for f in (ir["classes"][-1]["methods"] if ir["classes"] else [])]
            if im != m["methods"]:
                diffs.append(("client-methods", im, m["methods"]))
        if ir["rebuilds"] != m["rebuilds"]:
            diffs.append((f"rebuilds:{m['kind']}", {"file": m["file"], "calls": ir["rebuilds"]}, m["rebuilds"]))
        if ir["functions"] != m["functions"]:
            diffs.append((f"functions:{m['kind']}", ir["functions"], m["functions"]))
        if ir["all"] != m["all"]:
            diffs.append(("__all__", ir["all"], m["all"]))
    return diffs


# --------------------------------------------------------------------------------------------
# case streams
# --------------------------------------------------------------------------------------------

# features of gen/ops_gen.py that visit the finding regions of the result-type generator
OPS_REGION_FEATURES: Dict[str, Dict[str, float]] = {
    "inlineNoType": {"inline_notype": 0.15},
    "typenameAlias": {"typename_alias": 0.5, "typename": 0.4},
    "dupCompositeKey": {"dup_key": 0.4},
    "droppedSelection": {"inline_iface": 0.4, "spread_iface": 0.3},
    "unpackedAndInherited": {"mixin_and_unpacked": 0.8, "spread_same": 0.6},
    "mroConflict": {"spread_same": 0.7, "nested_spread": 0.7},
    "dirOnFragment": {"dir_frag": 0.4},
    "abstractInMixin": {"abstract_in_mixin": 0.8, "spread_same": 0.6},
}

# (label, share of the budget, keyword arguments of c04_gen.make_case)
STREAMS: List[Tuple[str, float, Dict[str, Any]]] = [
    ("default", 0.34, {}),                                                  # no naming stress: the theorem region, mostly
    ("documented-features", 0.14, {"mixin_p": 0.25, "literal_p": 0.6, "custom_ops_p": 0.3}),
    ("documented-refusals", 0.08, {"mixin_p": 0.3, "malformed_mixin_p": 0.5, "anonymous_p": 0.35, "subscription_p": 0.8}),
    ("naming-stress", 0.22, {"stress_p": 0.3}),                             # every naming defect, every scope
    ("text-findings", 0.04, {"literal_p": 0.8, "quote_p": 0.4, "block_p": 0.3}),
    ("plugin-extract-operations", 0.03, {"extract_ops_p": 1.0}),
    ("custom-operations", 0.05, {"custom_ops_p": 1.0, "stress_p": 0.1}),
]
OPS_REGION_SHARE = 0.10  # split over OPS_REGION_FEATURES


def draw(ctx: Ctx, label: str, n: int, **kw: Any) -> List[Dict[str, Any]]:
    out: List[Dict[str, Any]] = []
    i = 0
    while len(out) < n and i < 6 * n + 30:
        c = c04_gen.make_case(f"{ctx.seed}:{label}:{i}", i, **kw)
        i += 1
        if c:
            c["stream"] = label
            out.append(c)
    return out


def strip(c: Dict[str, Any]) -> Dict[str, Any]:
    """what replays a case"""
    return {k: c[k] for k in ("sdl", "queries", "config", "extra_files") if k in c}


def fingerprint_items() -> List[Tuple[str, Optional[str]]]:
    pk = "ariadne_codegen/client_generators/package.py"
    items: List[Tuple[str, Optional[str]]] = [(pk, f"PackageGenerator.{m}") for m in (
        "__init__", "generate", "add_operation", "_include_exceptions", "_validate_unique_file_names", "_generate_client", "_generate_enums",
        "_generate_input_types", "_generate_result_types", "_generate_fragments", "_copy_files", "_generate_init")]
    items.append((pk, "get_package_generator"))
    items += [("ariadne_codegen/client_generators/init_file.py", "InitFileGenerator.add_import"),
              ("ariadne_codegen/client_generators/init_file.py", "InitFileGenerator.generate")]
    items += [("ariadne_codegen/client_generators/enums.py", f"EnumsGenerator.{m}") for m in (
        "__init__", "generate", "_filter_class_defs", "_parse_enum_definition", "get_generated_public_names")]
    items += [("ariadne_codegen/client_generators/input_types.py", f"InputTypesGenerator.{m}") for m in (
        "__init__", "generate", "_filter_class_defs", "get_used_enums", "get_generated_public_names")]
    items += [("ariadne_codegen/client_generators/result_types.py", f"ResultTypesGenerator.{m}") for m in (
        "__init__", "generate", "_add_enums_scalars_fragments_imports", "get_imports")]
    items += [("ariadne_codegen/client_generators/fragments.py", f"FragmentsGenerator.{m}") for m in ("generate", "_get_model_rebuild_calls")]
    items += [("ariadne_codegen/client_generators/client.py", f"ClientGenerator.{m}") for m in ("__init__", "generate", "add_method", "_add_import")]
    items += [("ariadne_codegen/codegen.py", "model_has_forward_refs"), ("ariadne_codegen/codegen.py", "ClassDefNamesVisitor"),
              ("ariadne_codegen/utils.py", "ast_to_str"), ("ariadne_codegen/utils.py", "process_name"),
              ("ariadne_codegen/client_generators/scalars.py", "generate_scalar_imports"), ("ariadne_codegen/main.py", "client")]
    return items


# --------------------------------------------------------------------------------------------
# evaluation of a batch: real generation + import (forked), model, triggers, oracle, correspondence
# --------------------------------------------------------------------------------------------


def encode(cases: List[Dict[str, Any]]) -> List[Dict[str, Any]]:
    lines = []
    for c in cases:
        try:
            lines.append(model_line(c, "package"))
        except Exception as e:
            raise common.Infra(f"case {c.get('seed')} cannot be encoded for the driver: {e!r}")
    return lines


def observe_all(cases: List[Dict[str, Any]]) -> List[Tuple[str, Any]]:
    runs = engine.pmap_forked(observe_case, [({**strip(c), "want": c.get("want", [])},) for c in cases], timeout=240)
    # a timeout under load is not a finding: once more, alone
    for i, (st, _r) in enumerate(runs):
        if st == "timeout":
            runs[i] = engine.forked(observe_case, {**strip(cases[i]), "want": cases[i].get("want", [])}, timeout=600)
    return runs


def failure_input(c: Dict[str, Any], trig: List[str]) -> Dict[str, Any]:
    return {**strip(c), "triggers": trig, "stream": c.get("stream"), "seed": c.get("seed")}


def evaluate(ctx: Ctx, cases: List[Dict[str, Any]], res: Result, region: str, correspond: bool = True) -> List[Dict[str, Any]]:
    """-> per case {"verdicts", "triggers", "diffs"}; failures / mismatches / counters go to `res`"""
    if not cases:
        return []
    runs = observe_all(cases)
    lines = encode(cases) if correspond else []
    models = run_driver(lines) if correspond else [None] * len(cases)
    trigs = run_driver([{**l, "op": "triggers"} for l in lines]) if correspond else [[] for _ in cases]
    invalid = run_driver([{**l, "op": "valid"} for l in lines]) if correspond else [[] for _ in cases]
    out = []
    for c, (status, r), m, t, inv in zip(cases, runs, models, trigs, invalid):
        if inv:
            # `Valid` (Model/PackageValid.lean, the hypothesis of the theorems) must accept what graphql-core's validate accepts
            res.mismatches.append(Mismatch("Valid-rejects-a-validated-input", failure_input(c, t), "graphql-core validate: no error", inv))
        if status == "exc":
            raise common.Infra(f"observer crashed on case {c.get('seed')}: {str(r)[:400]}")
        verdicts = judge(c, status, r) if status == "ok" else [("generation-does-not-terminate", "no answer within 600 s")]
        res.evaluations += 1
        res.count(f"cases:{region}")
        outcome = r["gen"] if status == "ok" else status
        res.count("outcome:" + outcome)
        if outcome != "ok" and status == "ok":
            res.count("refusal-message:" + r.get("message", "")[:48]) if outcome.startswith("refusal") else None
        for x in t:
            res.count("trigger:" + x)
        res.count("region:supported" if not t else "region:inside-a-finding-region")
        for sig, detail in verdicts:
            trig = rt_assign(t, sig)
            res.failures.append(Failure(sig, trig, failure_input(c, t), detail))
            res.count("oracle-failure:" + sig)
        diffs: List[Tuple[str, Any, Any]] = []
        if correspond and status == "ok":
            diffs = compare_package(r, m)
            for obs, impl, model in diffs:
                res.mismatches.append(Mismatch(obs, failure_input(c, t), impl, model, trigger=(t[0] if t else None)))
            res.count("correspondence:package-compared")
            if not t:
                proved = (m.get("ok") or m).get("proved")
                res.count("theorem-region:Valid+Supported_04+Proved_04 (C04_partial applies)" if proved and not inv else
                          "theorem-region:Supported_04 but outside Proved_04 (correspondence + oracle only)")
                # what the case rests on: a package inside PackageValid.leafNamesOK has its forward references proved
                # (forward_refs_resolve); outside it they hold because the input lies outside the finding region forwardRefDangling
                # (F25); a run that ends in a refusal rests on the totality hypotheses of generate_total_partial (Proved_04)
                if proved and not inv:
                    if "ok" in m:
                        res.count("proved-region:package inside leafNamesOK (forward references of result modules proved)" if m["ok"].get("leafNamesOK") else
                                  "proved-region:package outside leafNamesOK (forward references hold: outside finding region F25)")
                    else:
                        res.count("proved-region:documented refusal (Proved_04: totality of the result-type / fragments generators is a hypothesis)")
                if not proved:
                    res.extra.setdefault("outside_proved_samples", [])
                    if len(res.extra["outside_proved_samples"]) < 5:
                        res.extra["outside_proved_samples"].append({"seed": c.get("seed"), "model": {k: v for k, v in m.items() if k != "ok"}, "wellScoped": (m.get("ok") or {}).get("wellScoped")})
            if "ok" in m:
                ws = m["ok"].get("wellScoped") or []
                res.count("model:well-scoped" if not ws else "model:not-well-scoped")
                for part in ws:
                    res.count("model:violated-part:" + part.split(":", 1)[1])
                # WellScoped (Spec/PyScope.lean) is validated, not verified: outside the finding regions the model's package must
                # be well scoped (theorem generated_wellscoped + Proved_04) and the real package must import
                if not t and ws:
                    res.mismatches.append(Mismatch("well-scoped-outside-finding-regions", failure_input(c, t), "no trigger holds", ws))
                n_classes = sum(len(mod["classes"]) for mod in m["ok"]["modules"])
                if not verdicts and not diffs and n_classes > 3:
                    res.distinct.add(common.stable_hash([c["sdl"], c["queries"], c["config"]]))
            elif not verdicts and not diffs:
                res.distinct.add(common.stable_hash([c["sdl"], c["queries"], c["config"]]))
        if len(res.samples) < 6 and status == "ok" and not verdicts:
            res.sample({"observation": "package", "stream": c.get("stream"), "queries": c["queries"][:400], "config": c["config"],
                        "files": r.get("files"), "outcome": outcome})
        out.append({"verdicts": verdicts, "triggers": t, "diffs": diffs, "outcome": outcome})
    return out


def rt_assign(triggers: List[str], signature: str) -> Optional[str]:
    from . import rt_common

    return rt_common.assign_trigger(PROP, triggers, signature)


# --------------------------------------------------------------------------------------------
# corpus: finding witnesses (open and fixed) and minimised past failures
# --------------------------------------------------------------------------------------------


def corpus_cases() -> List[Tuple[str, Dict[str, Any]]]:
    d = common.CORPUS / PROP
    return [(f.stem, json.loads(f.read_text())) for f in sorted(d.glob("*.json"))] if d.exists() else []


def replay_corpus(ctx: Ctx, res: Result) -> None:
    items = corpus_cases()
    if not items:
        return
    cases = []
    for name, entry in items:
        c = dict(entry["case"])
        c.setdefault("config", {})
        c.setdefault("extra_files", {})
        c["seed"] = "corpus:" + name
        c["stream"] = "corpus"
        cases.append(c)
    sub = Result()
    outs = evaluate(ctx, cases, sub, "corpus")
    findings = {f["id"]: f for f in common.load_findings(PROP)}
    sub_failures = list(sub.failures)
    sub.failures = []
    res.merge(sub)
    by_case: Dict[str, List[Failure]] = {}
    for f in sub_failures:
        by_case.setdefault(f.input.get("seed"), []).append(f)
    for (name, entry), c, o in zip(items, cases, outs):
        fid = entry.get("finding")
        fails = by_case.get(c["seed"], [])
        if fid and fid in findings:
            fd = findings[fid]
            sigs = fd.get("signature") if isinstance(fd.get("signature"), list) else [fd.get("signature")]
            if fd.get("status") == "open":
                hit = [f for f in fails if f.trigger == fd.get("trigger") and f.signature in sigs]
                prev = res.witness_status.get(fid)
                res.witness_status[fid] = "reproduces" if hit or prev == "reproduces" else "gone"
                if entry.get("expect") and not any(f.signature == entry["expect"] for f in fails) and hit:
                    ctx.notes.append(f"corpus {name}: fails with {[f.signature for f in fails]}, recorded {entry['expect']}")
            else:
                res.witness_status[fid] = "reproduces" if fails else "gone"
                for f in fails:  # a repaired defect that fails again is a violation
                    f.trigger = None
        res.failures += fails


# --------------------------------------------------------------------------------------------
# shrinking (structural: drop operations / fragments / configuration keys, keep the failure signature)
# --------------------------------------------------------------------------------------------


def _without_definition(queries: str, index: int) -> Optional[str]:
    from graphql import FragmentDefinitionNode, FragmentSpreadNode, parse, print_ast, visit, Visitor

    doc = parse(queries)
    defs = list(doc.definitions)
    if len(defs) <= 1:
        return None
    del defs[index]
    used: set = set()

    class V(Visitor):
        def enter_fragment_spread(self, node: FragmentSpreadNode, *_: Any) -> None:
            used.add(node.name.value)

    # drop fragments nothing spreads any more (NoUnusedFragments)
    while True:
        used.clear()
        for d in defs:
            visit(d, V())
        keep = [d for d in defs if not isinstance(d, FragmentDefinitionNode) or d.name.value in used]
        if len(keep) == len(defs):
            break
        defs = keep
    if not any(not isinstance(d, FragmentDefinitionNode) for d in defs):
        return None
    return "\n\n".join(print_ast(d) for d in defs) + "\n"


def _prune_document(defs: List[Any]) -> Optional[str]:
    """drop fragments nothing spreads and variables nothing uses (the document must stay valid); None if nothing is left"""
    from graphql import FragmentDefinitionNode, FragmentSpreadNode, OperationDefinitionNode, VariableNode, Visitor, print_ast, visit

    while True:
        spread: set = set()

        class S(Visitor):
            def enter_fragment_spread(self, node: FragmentSpreadNode, *_: Any) -> None:
                spread.add(node.name.value)

        for d in defs:
            visit(d, S())
        keep = [d for d in defs if not isinstance(d, FragmentDefinitionNode) or d.name.value in spread]
        if len(keep) == len(defs):
            break
        defs = keep
    frags = {d.name.value: d for d in defs if isinstance(d, FragmentDefinitionNode)}
    if not any(isinstance(d, OperationDefinitionNode) for d in defs):
        return None

    def used_vars(node: Any, seen: set) -> set:
        out: set = set()

        class V(Visitor):
            def enter_variable(self, n: VariableNode, *_: Any) -> None:
                out.add(n.name.value)

            def enter_fragment_spread(self, n: FragmentSpreadNode, *_: Any) -> None:
                name = n.name.value
                if name in frags and name not in seen:
                    seen.add(name)
                    out.update(used_vars(frags[name].selection_set, seen))

        visit(node, V())
        return out

    for d in defs:
        if isinstance(d, OperationDefinitionNode) and d.variable_definitions:
            uv = used_vars(d.selection_set, set())
            for dv in d.directives or ():
                uv |= used_vars(dv, set())
            d.variable_definitions = tuple(v for v in d.variable_definitions if v.variable.name.value in uv)
    return "\n\n".join(print_ast(d) for d in defs) + "\n"


def _selection_sets(doc: Any) -> List[Any]:
    from graphql import SelectionSetNode, Visitor, visit

    out: List[Any] = []

    class V(Visitor):
        def enter_selection_set(self, node: SelectionSetNode, *_: Any) -> None:
            out.append(node)

    visit(doc, V())
    return out


def _without_selection(queries: str, k: int) -> Optional[str]:
    """the document without its k-th selection (DFS order over all selection sets); None when there is no such selection
    or its selection set would become empty"""
    from graphql import parse

    doc = parse(queries, no_location=True)
    n = 0
    for ss in _selection_sets(doc):
        sels = list(ss.selections)
        if n + len(sels) > k:
            if len(sels) == 1:
                return None
            del sels[k - n]
            ss.selections = tuple(sels)
            return _prune_document(list(doc.definitions))
        n += len(sels)
    return None


def _count_selections(queries: str) -> int:
    from graphql import parse

    return sum(len(ss.selections) for ss in _selection_sets(parse(queries, no_location=True)))


def shrink(case: Dict[str, Any], signature: str, budget: int = 70) -> Dict[str, Any]:
    """structural: drop whole definitions, then single selections (fields / spreads / inline fragments; unused fragments and
    variables go with them), then configuration keys - every candidate must stay valid and keep the failure signature"""
    from graphql import build_schema, parse, validate

    def fails(c: Dict[str, Any]) -> bool:
        status, r = engine.forked(observe_case, strip(c), timeout=240)
        return status == "ok" and any(s == signature for s, _ in judge(c, status, r))

    cur = dict(case)
    try:
        schema = build_schema(cur["sdl"] + c04_gen.MIXIN_SDL)
    except Exception:
        return cur

    def valid(q: str) -> bool:
        try:
            return not validate(schema, parse(q))
        except Exception:
            return False

    progress = True
    while progress and budget > 0:
        progress = False
        try:
            n_defs = len(parse(cur["queries"]).definitions)
        except Exception:
            return cur
        for i in range(n_defs):
            if budget <= 0:
                break
            q = _without_definition(cur["queries"], i)
            if not q or not valid(q):
                continue
            budget -= 1
            cand = {**cur, "queries": q}
            if fails(cand):
                cur = cand
                progress = True
                break
    # single selections, last first (leaves before the selection sets that contain them)
    try:
        k = _count_selections(cur["queries"]) - 1
    except Exception:
        k = -1
    while k >= 0 and budget > 0:
        try:
            q = _without_selection(cur["queries"], k)
        except Exception:
            q = None
        if q and valid(q):
            budget -= 1
            cand = {**cur, "queries": q}
            if fails(cand):
                cur = cand
                k = min(k, _count_selections(cur["queries"])) - 1
                continue
        k -= 1
    for key in list((cur.get("config") or {}).keys()):
        if budget <= 0:
            break
        cfg = {k2: v for k2, v in cur["config"].items() if k2 != key}
        budget -= 1
        cand = {**cur, "config": cfg}
        if fails(cand):
            cur = cand
    return cur


def shrink_unknown(ctx: Ctx, res: Result) -> None:
    """unknown failures only (a violation is about to be reported): replace the input by a smaller one with the same signature
    that still lies outside every finding region with that signature"""
    seen: set = set()
    for f in res.failures:
        if f.trigger is not None or f.signature.startswith("harness-") or f.key() in seen or not isinstance(f.input, dict) or "sdl" not in f.input:
            continue
        seen.add(f.key())
        try:
            small = shrink(f.input, f.signature)
            if small.get("queries") != f.input.get("queries") or small.get("config") != f.input.get("config"):
                t = triggers_of([small])[0]
                if rt_assign(t, f.signature) is None:
                    f.input = {**failure_input(small, t), "shrunk_from": {"queries": f.input.get("queries"), "config": f.input.get("config")}}
        except common.Infra:
            raise
        except Exception as e:  # shrinking is a convenience
            ctx.log(f"shrinking raised {e!r}")


# --------------------------------------------------------------------------------------------
# run / search / replay
# --------------------------------------------------------------------------------------------

RULE = ("seeded type-directed schemas (objects, interfaces incl. interface-implements-interface, unions, enums, recursive inputs with defaults, custom "
        "scalars, custom root names, subscriptions) x operation sets grown from them (aliases, nesting, wrappers, inline / named / nested fragments, "
        "@skip/@include, @mixin, literal arguments), filtered by graphql-core validate with the full rule set, x configurations walking the 2^5 "
        "combinations of snake case / sync / OpenTelemetry / include_all_inputs / include_all_enums, with custom operations, module / class names, a "
        "custom base client, files_to_include and custom scalars (plain / dotted / relative, parse / serialize) drawn; a naming-stress stream renames "
        "operations, variables, fragments, fields, input fields, enum values and types into the pools of the naming defects. Distinct non-trivial = "
        "distinct (schema, document, configuration) with > 3 emitted classes that pass the oracle AND agree with the model.")


def run(ctx: Ctx, st: Optional[LeanStatus]) -> Result:
    res = Result()
    res.rule = RULE
    res.extra["fingerprints"] = common.fingerprints(ctx, fingerprint_items())
    driver_ok = st is not None and st.driver_ok
    if not driver_ok:
        res.mismatches.append(Mismatch("package", {}, "driver not built", None))
        return res
    replay_corpus(ctx, res)
    total = ctx.budget(300, 3000)
    for label, share, kw in STREAMS:
        evaluate(ctx, draw(ctx, label, max(4, int(total * share)), **kw), res, label)
    per = max(3, int(total * OPS_REGION_SHARE / len(OPS_REGION_FEATURES)))
    for name, feats in OPS_REGION_FEATURES.items():
        evaluate(ctx, draw(ctx, "region-" + name, per, features=feats), res, "region:" + name)
    shrink_unknown(ctx, res)
    res.oracle_only += [
        "CPython's grammar and import system, pydantic's class construction (__pydantic_complete__): the real package is imported in a forked "
        "interpreter; Spec/PyScope.WellScoped is the model-side reading, validated against it, not verified",
        "black / isort / autoflake (utils.ast_to_str) are not modelled beyond autoflake's pruning of unused imports (ModuleIR.effectiveImports); the "
        "formatter is a parameter of the model (FmtOracle) and every emitted file is read back with Python's ast after formatting",
        "the four custom-operation modules are compared as files only (their content is C14's model); their import is judged by the oracle",
    ]
    res.assumptions += [
        "the harness derives both vocabularies of the model input (result-type schema and input definitions) from one graphql-core schema "
        "(Valid's conjunct defsMatch checks it on every case)",
        "graphql-core's validate (full rule set + the injected @mixin directive) is the judge of input validity; Spec/Validate.validDoc is its decidable core; "
        "Valid (Model/PackageValid.validB) must accept every generated case: cfgOK (importable custom scalars / base client, non-empty module names), mixinsOK "
        "(@mixin sources are copied files), defsMatch, fragsAcyclic are evaluated by the driver and a rejection is reported as a mismatch",
        "unproved region (Proved_04, evaluated by the driver on every case, counted under proved-region:*): that a run ending in an exception is a documented "
        "refusal (totality of the result-type and fragments generator models: hypotheses ResultTypesTotal / FragmentsTotal of generate_total_partial) - covered "
        "by correspondence and oracle only; for a run that ends in a package nothing is left to evaluation",
    ]
    if ctx.notes:
        res.extra["notes"] = ctx.notes[:20]
    return res


def search(ctx: Ctx) -> Result:
    """the tie broke or a proof obligation no longer checks: look for a concrete failing input with the oracle alone"""
    res = Result()
    total = 1500
    for label, share, kw in STREAMS:
        evaluate(ctx, draw(ctx, "search-" + label, max(4, int(total * share)), **kw), res, "search:" + label,
                 correspond=(common.LEAN / ".lake/build/bin" / common.driver_name(PROP)).exists())
    shrink_unknown(ctx, res)
    return res


def replay(ctx: Ctx, payload: Dict[str, Any]) -> int:
    inp = payload.get("input")
    if not isinstance(inp, dict) or "sdl" not in inp:
        print(json.dumps(payload, indent=1)[:3000])
        return 1
    case = {**strip(inp), "want": []}
    case.setdefault("config", {})
    status, r = engine.forked(observe_case, case, timeout=600)
    verdicts = judge(case, status, r) if status != "timeout" else [("generation-does-not-terminate", "")]
    for sig, detail in verdicts:
        print("FAIL", sig, detail[:300])
    try:
        print("triggers:", triggers_of([case])[0])
    except common.Infra as e:
        print("triggers: not available:", e)
    if status == "ok" and r.get("gen") != "ok":
        print("generation:", r.get("gen"), r.get("message", "")[:300])
    return 1 if verdicts else 0
