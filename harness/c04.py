"""C04 - every valid input generates, and what is generated loads.

Tie (DESIGN.md §3 C04):
  * package-IR correspondence: the package IR read back with Python `ast` from the REALLY emitted files
    (after autoflake / isort / black): per module the imports (as sets), class names in order, bases,
    field / member / parameter names, `model_rebuild()` calls, `__all__`; plus the reported file list
    and the directory listing - against lean Model/Package.lean (`generatePackage`, drv_c04 op
    `package`) for the same (configuration, schema, document);
  * property oracle (independent of the model): generation in a forked child ends in success or in one
    of the documented refusals; a fresh interpreter imports EVERY module of the package; every pydantic
    model class is `__pydantic_complete__`; every name of `__all__` resolves and `__all__` is the sorted
    list of the names `__init__` imports; the returned file list is the directory listing.
Failures inside a finding region (a trigger predicate of Model/PackageTriggers.lean - asked from the
driver, op `triggers` - holds AND the finding lists the failure signature) are known findings;
anything else is a violation.
"""
from __future__ import annotations

import ast
import json
from pathlib import Path
from typing import Any, Dict, List, Optional, Tuple

from . import c04_gen, common, e2e, engine, gqlwire
from .common import Ctx, Failure, LeanStatus, Mismatch, Result

PROP = "C04"

# the four refusals the property documents (statement of C04): anonymous operation, subscription with a
# synchronous client, colliding file names, malformed @mixin arguments
DOCUMENTED = (
    ("refusal:ParsingError", "Query without name."),
    ("refusal:NotSupported", "Operations without name are not supported."),
    ("refusal:NotSupported", "Subscriptions are only available when using async client."),
    ("refusal:ParsingError", "Duplicated file names"),
    ("refusal:ParsingError", "Arguments passed to mixin have to be strings."),
    ("refusal:ParsingError", "Required arguments (from, import) not found."),
)


# --------------------------------------------------------------------------------------------
# child side: generate, read back, import
# --------------------------------------------------------------------------------------------


def module_ir(src: str) -> Dict[str, Any]:
    """what the property can see of one emitted module, read back with `ast`"""
    tree = ast.parse(src)
    imports: List[List[Any]] = []
    classes: List[Dict[str, Any]] = []
    rebuilds: List[str] = []
    functions: List[str] = []
    all_: Optional[List[str]] = None
    for node in tree.body:
        if isinstance(node, ast.ImportFrom):
            for a in node.names:
                imports.append([node.level, node.module or "", a.name])
        elif isinstance(node, ast.Import):
            for a in node.names:
                imports.append([0, "", a.name])
        elif isinstance(node, ast.ClassDef):
            fields: List[str] = []
            methods: List[Dict[str, Any]] = []
            for st in node.body:
                if isinstance(st, ast.AnnAssign) and isinstance(st.target, ast.Name):
                    fields.append(st.target.id)
                elif isinstance(st, ast.Assign) and len(st.targets) == 1 and isinstance(st.targets[0], ast.Name):
                    fields.append(st.targets[0].id)
                elif isinstance(st, (ast.FunctionDef, ast.AsyncFunctionDef)):
                    a = st.args
                    params = [x.arg for x in a.posonlyargs + a.args] + ([a.vararg.arg] if a.vararg else []) + \
                             [x.arg for x in a.kwonlyargs] + ([a.kwarg.arg] if a.kwarg else [])
                    methods.append({"name": st.name, "params": params})
            classes.append({"name": node.name, "bases": [ast.unparse(b) for b in node.bases], "fields": fields, "methods": methods})
        elif isinstance(node, (ast.FunctionDef, ast.AsyncFunctionDef)):
            functions.append(node.name)
        elif isinstance(node, ast.Expr) and isinstance(node.value, ast.Call) and isinstance(node.value.func, ast.Attribute) \
                and node.value.func.attr == "model_rebuild" and isinstance(node.value.func.value, ast.Name):
            rebuilds.append(node.value.func.value.id)
        elif isinstance(node, ast.Assign) and len(node.targets) == 1 and isinstance(node.targets[0], ast.Name) \
                and node.targets[0].id == "__all__" and isinstance(node.value, ast.List):
            all_ = [e.value for e in node.value.elts if isinstance(e, ast.Constant)]
    return {"imports": sorted(imports), "classes": classes, "rebuilds": rebuilds, "functions": functions, "all": all_}


@engine.with_scratch
def observe_case(root: Path, case: Dict[str, Any]) -> Dict[str, Any]:
    """real generation -> directory listing / reported list / module IRs -> import of every module"""
    import importlib

    for name, text in (case.get("extra_files") or {}).items():
        (root / name).write_text(text)
    out = e2e.generate_only(root, case)
    if out["gen"] != "ok":
        pkg_dir = root / (case.get("config") or {}).get("target_package_name", "gen_pkg")
        out["dir_after_failure"] = sorted(p.name for p in pkg_dir.iterdir()) if pkg_dir.exists() else None
        return out
    gen = out.pop("_gen")
    out["files"] = sorted(p.name for p in gen.dir.iterdir())
    out["reported_files"] = gen.files
    sources = {p.name: p.read_text() for p in gen.dir.glob("*.py")}
    if "sources" in case.get("want", []):
        out["sources"] = sources
    irs: Dict[str, Any] = {}
    for name, src in sources.items():
        try:
            irs[name] = module_ir(src)
        except SyntaxError as e:
            irs[name] = {"syntax_error": f"{e.msg} (line {e.lineno})"}
    out["ir"] = irs
    try:
        pkg = engine.import_package(gen)
    except BaseException as e:  # noqa: BLE001
        import traceback

        out["import"] = f"{type(e).__name__}: {str(e)[:300]}"
        out["where"] = traceback.format_exc()[-900:]
        return out
    out["import"] = "ok"
    incomplete: List[str] = []
    for f in sorted(sources):
        mod = f[:-3]
        if mod == "__init__":
            continue
        try:
            info = e2e.class_info(pkg, mod)
        except BaseException as e:  # noqa: BLE001
            incomplete.append(f"{mod}:$error:{type(e).__name__}")
            continue
        incomplete += [f"{mod}.{c}" for c, i in info.items() if not i.get("complete")]
    out["incomplete"] = incomplete
    declared = getattr(pkg, "__all__", None)
    out["all"] = list(declared) if declared is not None else None
    out["unresolved"] = [n for n in (declared or []) if not hasattr(pkg, n)]
    return out


# --------------------------------------------------------------------------------------------
# the oracle (parent side): the property, stated on the observation only
# --------------------------------------------------------------------------------------------


def documented_refusal(gen: str, message: str) -> bool:
    return any(gen == g and m in message for g, m in DOCUMENTED)


def judge(case: Dict[str, Any], status: str, r: Any) -> List[Tuple[str, str]]:
    """-> [(signature, detail)] for everything that contradicts C04 in this case"""
    if status != "ok":
        return [("harness-" + status, str(r)[:300])]
    out: List[Tuple[str, str]] = []
    if r["gen"] != "ok":
        msg = r.get("message", "")
        if r["gen"].startswith("internal:"):
            return [("generation-" + r["gen"], msg[:300])]
        if documented_refusal(r["gen"], msg):
            return []
        return [("valid-input-refused:" + r["gen"].split(":", 1)[1], msg[:300])]
    if sorted(r["reported_files"]) != r["reported_files"] or r["files"] != r["reported_files"]:
        extra = sorted(set(r["files"]) - set(r["reported_files"]))
        missing = sorted(set(r["reported_files"]) - set(r["files"]))
        dup = sorted({f for f in r["reported_files"] if r["reported_files"].count(f) > 1})
        kind = "written-not-reported" if extra else "reported-not-written" if missing else "reported-twice" if dup else "not-sorted"
        out.append(("reported-files-differ:" + kind, f"unreported={extra} unwritten={missing} twice={dup}"))
    for name, ir in sorted(r["ir"].items()):
        if "syntax_error" in ir:
            out.append(("module-not-python", f"{name}: {ir['syntax_error']}"))
    init = r["ir"].get("__init__.py", {})
    if "syntax_error" not in init:
        imported = sorted(n for _, _, n in init.get("imports", []))
        if init.get("all") is None:
            if imported:
                out.append(("all-missing", f"imports {imported[:5]} but no __all__"))
        elif init["all"] != sorted(init["all"]) or sorted(set(init["all"])) != sorted(set(imported)):
            out.append(("all-differs", f"__all__={init['all'][:8]} imported={imported[:8]}"))
    if r["import"] != "ok":
        out.append(("import-failed:" + r["import"].split(":", 1)[0], r["import"][:300]))
        return out
    if r["incomplete"]:
        # which module: the fragments module rebuilds only the top-level class of every fragment (finding F15);
        # an incomplete class anywhere else is a different failure
        frag_mod = (case.get("config") or {}).get("fragments_module_name", "fragments")
        in_frag = [c for c in r["incomplete"] if c.split(".", 1)[0] == frag_mod]
        other = [c for c in r["incomplete"] if c.split(".", 1)[0] != frag_mod]
        if in_frag:
            out.append(("model-incomplete:fragments-module", ", ".join(in_frag[:5])))
        if other:
            out.append(("model-incomplete:other-module", ", ".join(other[:5])))
    if r["unresolved"]:
        out.append(("all-unresolved", ", ".join(r["unresolved"][:5])))
    return out


# --------------------------------------------------------------------------------------------
# the model side: wire encoding of a case, driver calls
# --------------------------------------------------------------------------------------------

EXTRACT_OPS = "ariadne_codegen.contrib.extract_operations.ExtractOperationsPlugin"
DEFAULT_CLIENTS = {(True, False): ("AsyncBaseClient", "async_base_client.py"), (True, True): ("AsyncBaseClientOpenTelemetry", "async_base_client_open_telemetry.py"),
                   (False, False): ("BaseClient", "base_client.py"), (False, True): ("BaseClientOpenTelemetry", "base_client_open_telemetry.py")}
GENERATED_KINDS = ("result", "fragments", "inputs", "enums", "client", "init")


def default_clients() -> Dict[Tuple[bool, bool], Tuple[str, str]]:
    """(async, opentelemetry) -> (class name, file name), read from the tree under test (falls back to the
    pinned table when the constants moved: the correspondence then shows the difference)"""
    try:
        from ariadne_codegen.client_generators import constants as c

        return {(True, False): (c.DEFAULT_ASYNC_BASE_CLIENT_NAME, c.DEFAULT_ASYNC_BASE_CLIENT_PATH.name),
                (True, True): (c.DEFAULT_ASYNC_BASE_CLIENT_OPEN_TELEMETRY_NAME, c.DEFAULT_ASYNC_BASE_CLIENT_OPEN_TELEMETRY_PATH.name),
                (False, False): (c.DEFAULT_BASE_CLIENT_NAME, c.DEFAULT_BASE_CLIENT_PATH.name),
                (False, True): (c.DEFAULT_BASE_CLIENT_OPEN_TELEMETRY_NAME, c.DEFAULT_BASE_CLIENT_OPEN_TELEMETRY_PATH.name)}
    except (ImportError, AttributeError):
        return dict(DEFAULT_CLIENTS)


def wire_config(cfg: Dict[str, Any]) -> Dict[str, Any]:
    async_ = cfg.get("async_client", True)
    otel = cfg.get("opentelemetry_client", False)
    out: Dict[str, Any] = {
        "clientName": cfg.get("client_name", "Client"), "clientFile": cfg.get("client_file_name", "client"),
        "enumsModule": cfg.get("enums_module_name", "enums"), "inputsModule": cfg.get("input_types_module_name", "input_types"),
        "fragmentsModule": cfg.get("fragments_module_name", "fragments"), "async": async_,
        "snake": cfg.get("convert_to_snake_case", True), "allInputs": cfg.get("include_all_inputs", True),
        "allEnums": cfg.get("include_all_enums", True), "customOps": cfg.get("enable_custom_operations", False),
        "filesToInclude": [Path(f).name for f in cfg.get("files_to_include", [])],
        "scalars": [{"name": n, "type": d["type"], "serialize": d.get("serialize"), "parse": d.get("parse"), "import": d.get("import")}
                    for n, d in (cfg.get("scalars") or {}).items()],
        "extractOps": None,
    }
    if cfg.get("base_client_file_path") or cfg.get("base_client_name"):
        out.update({"baseClientName": cfg.get("base_client_name", ""), "baseClientFile": Path(cfg.get("base_client_file_path", "")).name,
                    "defaultBaseClient": False})
    else:
        name, file = default_clients()[(bool(async_), bool(otel))]
        out.update({"baseClientName": name, "baseClientFile": file, "defaultBaseClient": True})
    if EXTRACT_OPS in (cfg.get("plugins") or []):
        out["extractOps"] = (cfg.get("extract_operations") or {}).get("operations_module_name", "operations")
    return out


def lit_of_ast(node: Any) -> Dict[str, Any]:
    from graphql import (BooleanValueNode, EnumValueNode, FloatValueNode, IntValueNode, ListValueNode, NullValueNode, ObjectValueNode,
                         StringValueNode)

    if isinstance(node, IntValueNode):
        return {"k": "int", "v": int(node.value)}
    if isinstance(node, FloatValueNode):
        return {"k": "float", "v": node.value}
    if isinstance(node, StringValueNode):
        return {"k": "str", "v": node.value}
    if isinstance(node, BooleanValueNode):
        return {"k": "bool", "v": bool(node.value)}
    if isinstance(node, NullValueNode):
        return {"k": "null"}
    if isinstance(node, EnumValueNode):
        return {"k": "enum", "v": node.value}
    if isinstance(node, ListValueNode):
        return {"k": "list", "v": [lit_of_ast(v) for v in node.values]}
    if isinstance(node, ObjectValueNode):
        return {"k": "obj", "v": [[f.name.value, lit_of_ast(f.value)] for f in node.fields]}
    return {"k": "null"}


def defs_of_schema(schema: Any) -> List[Dict[str, Any]]:
    """the type map in the vocabulary of Model/InputGen.lean (input fields with their default literals), in `type_map` order"""
    from graphql import GraphQLEnumType, GraphQLInputObjectType, GraphQLScalarType

    out: List[Dict[str, Any]] = []
    for name, t in schema.type_map.items():
        if name.startswith("__"):
            continue
        if isinstance(t, GraphQLEnumType):
            out.append({"kind": "enum", "name": name, "values": list(t.values.keys())})
        elif isinstance(t, GraphQLInputObjectType):
            fs = []
            for fname, f in t.fields.items():
                node = f.ast_node
                fs.append({"name": fname, "type": gqlwire.type_ref(f.type),
                           "default": lit_of_ast(node.default_value) if node is not None and node.default_value is not None else None})
            out.append({"kind": "input", "name": name, "fields": fs})
        elif isinstance(t, GraphQLScalarType):
            out.append({"kind": "scalar", "name": name})
        else:
            out.append({"kind": "composite", "name": name})
    return out


def typeref_of_node(node: Any) -> List[Any]:
    from graphql import ListTypeNode, NonNullTypeNode

    if isinstance(node, NonNullTypeNode):
        return ["nonnull", typeref_of_node(node.type)]
    if isinstance(node, ListTypeNode):
        return ["list", typeref_of_node(node.type)]
    return ["named", node.name.value]


def model_line(case: Dict[str, Any], op: str) -> Dict[str, Any]:
    """(configuration, schema, document) in the driver's wire format; only graphql-core reads the inputs"""
    from graphql import OperationDefinitionNode, build_ast_schema, parse, print_ast

    schema = build_ast_schema(parse(case["sdl"]), assume_valid=True)
    doc_ast = parse(case["queries"])
    doc = gqlwire.document_to_json(doc_ast)
    op_nodes = [d for d in doc_ast.definitions if isinstance(d, OperationDefinitionNode)]
    for o, node in zip(doc["operations"], op_nodes):
        o["vars"] = [{"name": v.variable.name.value, "type": typeref_of_node(v.type)} for v in node.variable_definitions or ()]
        o["text"] = print_ast(node)
    return {"op": op, "config": wire_config(case.get("config") or {}), "schema": gqlwire.schema_to_json(schema),
            "fragments": doc["fragments"], "operations": doc["operations"], "defs": defs_of_schema(schema)}


def run_model(cases: List[Dict[str, Any]], op: str) -> List[Any]:
    lines = []
    for c in cases:
        try:
            lines.append(model_line(c, op))
        except Exception as e:  # the case is not GraphQL at all (hand-written replay input)
            raise common.Infra(f"case {c.get('seed')} cannot be encoded for the driver: {e!r}")
    return run_driver(lines)


def run_driver(lines: List[Dict[str, Any]]) -> List[Any]:
    """common.run_driver splits on str.splitlines(), which also cuts at U+2028 etc. inside echoed strings"""
    import subprocess

    exe = common.LEAN / ".lake/build/bin" / common.driver_name(PROP)
    if not exe.exists():
        raise common.Infra(f"driver {exe} not built")
    out: List[Any] = []
    for i in range(0, len(lines), 2000):
        part = lines[i:i + 2000]
        payload = "".join(json.dumps(l, separators=(",", ":")) + "\n" for l in part).encode()
        p = subprocess.run([str(exe)], input=payload, capture_output=True, timeout=1800)
        if p.returncode != 0:
            raise common.Infra(f"driver exited {p.returncode}: {p.stderr[-300:]!r}")
        got = [json.loads(l) for l in p.stdout.split(b"\n") if l.strip()]
        if len(got) != len(part):
            raise common.Infra(f"driver: {len(part)} lines in, {len(got)} lines out")
        out += got
    for line, o in zip(lines, out):
        if isinstance(o, dict) and "driver_error" in o:
            raise common.Infra(f"driver rejected {json.dumps(line)[:200]}: {o['driver_error']}")
    return out


def triggers_of(cases: List[Dict[str, Any]]) -> List[List[str]]:
    return run_model(cases, "triggers") if cases else []


# --------------------------------------------------------------------------------------------
# package-IR correspondence
# --------------------------------------------------------------------------------------------


def compare_package(obs: Dict[str, Any], model: Dict[str, Any]) -> List[Tuple[str, Any, Any]]:
    """-> [(observation, impl, model)] for every difference between the emitted package and the model's"""
    diffs: List[Tuple[str, Any, Any]] = []
    if obs["gen"] != "ok" or "ok" not in model:
        impl_o = obs["gen"]
        model_o = "ok" if "ok" in model else model["error"]
        if impl_o != model_o:
            diffs.append(("outcome", {"gen": impl_o, "message": obs.get("message", "")[:160]}, {"gen": model_o, "msg": model.get("msg", "")}))
        elif impl_o != "ok":
            if model.get("msg") and model["msg"] not in obs.get("message", ""):
                diffs.append(("refusal-message", obs.get("message", "")[:160], model["msg"]))
            written = obs.get("dir_after_failure")
            if sorted(set(model.get("written", []))) != (written or []) or (written is not None) != bool(model.get("mkdir")):
                diffs.append(("written-before-failure", written, {"written": model.get("written"), "mkdir": model.get("mkdir")}))
        return diffs
    pkg = model["ok"]
    if obs["files"] != pkg["onDisk"]:
        diffs.append(("directory-listing", obs["files"], pkg["onDisk"]))
    if obs["reported_files"] != pkg["reported"]:
        diffs.append(("reported-files", obs["reported_files"], pkg["reported"]))
    for m in pkg["modules"]:
        if m["kind"] not in GENERATED_KINDS:
            continue
        ir = obs["ir"].get(m["file"])
        if ir is None:
            continue  # already reported through the directory listing
        if "syntax_error" in ir:
            diffs.append(("module:" + m["file"], ir, "python"))
            continue
        mi = sorted({(a, b, c) for a, b, c in m["imports"]})
        ii = sorted({(a, b, c) for a, b, c in ir["imports"]})
        if mi != ii:
            diffs.append((f"imports:{m['kind']}", {"file": m["file"], "only_impl": [x for x in ii if x not in mi], "only_model": [x for x in mi if x not in ii]}, None))
        ic = [{"name": c["name"], "bases": c["bases"], "fields": c["fields"]} for c in ir["classes"]]
        if ic != m["classes"]:
            bad = [(a, b) for a, b in zip(ic, m["classes"]) if a != b][:2]
            diffs.append((f"classes:{m['kind']}", {"file": m["file"], "names": [c["name"] for c in ic], "first": bad[0][0] if bad else None},
                          {"names": [c["name"] for c in m["classes"]], "first": bad[0][1] if bad else None}))
        if m["kind"] == "client":
            im = [{"name": f["name"], "params": f["params"]} for f in (ir["classes"][-1]["methods"] if ir["classes"] else [])]
            if im != m["methods"]:
                diffs.append(("client-methods", im, m["methods"]))
        if ir["rebuilds"] != m["rebuilds"]:
            diffs.append((f"rebuilds:{m['kind']}", {"file": m["file"], "calls": ir["rebuilds"]}, m["rebuilds"]))
        if ir["functions"] != m["functions"]:
            diffs.append((f"functions:{m['kind']}", ir["functions"], m["functions"]))
        if ir["all"] != m["all"]:
            diffs.append(("__all__", ir["all"], m["all"]))
    return diffs
