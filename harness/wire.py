"""Wire encoding of JSON values for the Lean drivers (twin of lean/AriadneModel/Driver/Wire.lean).

Objects keep their insertion order:  {"a": 1}  <->  {"o": [["a", 1]]}; everything else is itself.
"""
from typing import Any


def enc(x: Any) -> Any:
    if isinstance(x, dict):
        return {"o": [[str(k), enc(v)] for k, v in x.items()]}
    if isinstance(x, (list, tuple)):
        return [enc(v) for v in x]
    return x


def dec(x: Any) -> Any:
    if isinstance(x, dict):
        assert set(x.keys()) == {"o"}, x
        return {k: dec(v) for k, v in x["o"]}
    if isinstance(x, list):
        return [dec(v) for v in x]
    return x
