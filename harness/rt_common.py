"""Shared by the result-type properties (C01, C05): case generation, the class-IR correspondence
(real ResultTypesGenerator vs lean Model/ResultTypes via drv_c01), trigger evaluation (the Lean
predicates of Model/Triggers01.lean, asked from the driver), and the e2e judgement helpers."""
from __future__ import annotations

import json
import random
from typing import Any, Dict, List, Optional, Tuple

from . import common, e2e, engine, obs_result, wire
from .common import Ctx, Failure, Mismatch, Result
from .gen import ops_gen, schema_gen, values

DRIVER = "C01"  # the same handler is linked into drv_c05

TRIGGER_FEATURES: Dict[str, Dict[str, float]] = {
    "dupCompositeKey": {"dup_key": 0.5},
    "dirOnFragment": {"dir_frag": 0.5},
    "mixinAbstractField": {"abstract_in_mixin": 1.0, "spread_same": 0.6},
    "droppedSelection": {"inline_iface": 0.5, "spread_iface": 0.4},
    "inlineNoType": {"inline_notype": 0.4},
    "typenameAlias": {"typename_alias": 1.0, "typename": 0.5},
    "mixinAndUnpacked": {"mixin_and_unpacked": 1.0, "spread_same": 0.6},
    "condTypename": {"typename_cond": 1.0, "typename": 0.6},
    "objectInAbstract": {"obj_in_abs_inline": 0.7},
}


def make_case(seed: Any, features: Optional[Dict[str, float]] = None, n_ops: int = 3, config: Optional[Dict[str, Any]] = None,
              calls_per_op: int = 2) -> Optional[Dict[str, Any]]:
    """A valid (schema, document) pair + schema-valid variable values; None when the draw is invalid."""
    from graphql import build_schema, parse, validate

    rng = random.Random(f"case:{seed}")
    s = schema_gen.gen_schema(rng, size=rng.randint(1, 3))
    sdl = schema_gen.to_sdl(s)
    try:
        gs = build_schema(sdl)
    except Exception:
        return None
    doc = ops_gen.gen_document(s, rng, n_ops=n_ops, features=features)
    if not doc["operations"]:
        return None
    text = ops_gen.render_document(doc)
    try:
        if validate(gs, parse(text)):
            return None
    except Exception:
        return None
    cfg = dict(config or {})
    cfg.setdefault("convert_to_snake_case", rng.random() < 0.7)
    # custom scalars: unconfigured (-> Any) or configured with a pydantic-native type only (-> that type)
    scalar_str = [t["name"] for t in s["types"] if t["kind"] == "scalar" and rng.random() < 0.5]
    if scalar_str:
        cfg["scalars"] = {n: {"type": "str"} for n in scalar_str}
    calls = []
    for o in doc["operations"]:
        for k in range(calls_per_op):
            calls.append({"op": o["name"], "seed": f"{seed}:{o['name']}:{k}",
                          "vars": {v["name"]: values.input_value(s, v["type"], rng) for v in o["vars"]}})
    return {"seed": seed, "sdl": sdl, "queries": text, "config": cfg, "calls": calls, "snake": cfg["convert_to_snake_case"],
            "features": features or {}, "scalar_str": scalar_str,
            # class-IR correspondence only (no package is built from these): also scalars with a parse function
            "scalars": [({"name": n, "type": "str"} if rng.random() < 0.5 else {"name": n, "type": "datetime.datetime", "parse": ".custom_scalars.parse_" + n.lower()})
                        for n in scalar_str]}


def draw_cases(ctx: Ctx, label: str, n: int, features: Optional[Dict[str, float]] = None, **kw: Any) -> List[Dict[str, Any]]:
    out: List[Dict[str, Any]] = []
    i = 0
    while len(out) < n and i < 4 * n + 20:
        c = make_case(f"{ctx.seed}:{label}:{i}", features, **kw)
        i += 1
        if c:
            out.append(c)
    return out


# --------------------------------------------------------------------------------------------
# hand-written document SHAPES the grown documents never have: a fragment definition shared by several spreads
# (every grown fragment is spread exactly once), diamonds, a fragment both unpacked and reached through a base-class
# fragment, mixins combined with abstract positions (the region of C01_partial_mixabs).  All of them are valid, lie outside
# every finding region and must pass on the unchanged tree.
# --------------------------------------------------------------------------------------------

SHAPE_SDL = ("type Query { me: User node: Node named: Named search: SearchResult nodes: [Node!]! post: Post }\n"
             "interface Node { id: ID! }\ninterface Named { name: String }\n"
             "type User implements Node & Named { id: ID! name: String friends: [User!]! bestFriend: User pet: Node "
             "modelFields: String modelConfig: Int modelDump: String schemaJson: String parseObj: Boolean modelComputedFields: ID "
             "copy: String json: String dict: Int construct: String }\n"
             "type Post implements Node { id: ID! title: String! author: User! }\nunion SearchResult = User | Post\n"
             "interface Entity implements Node { id: ID! createdAt: String }\n"
             "type Org implements Entity & Node { id: ID! createdAt: String title: String }\n"
             "extend type Query { entity: Entity org: Org }\n")

SHAPES: Dict[str, str] = {
    # U is unpacked at the object position `me` and reached again through the base-class fragment F (-> S must be sent)
    "unpacked-and-through-mixin": ("query Q { me { ...U } other: me { ...F } }\n"
                                   "fragment U on Node { id ... on Post { ...S } }\nfragment S on Post { title }\n"
                                   "fragment F on User { name bestFriend { ...U } }"),
    "mixin-shared-by-two-positions": ("query Q { me { ...UF } other: me { friends { ...UF } } }\n"
                                      "query R { node { id ... on User { ...UF } } }\nfragment UF on User { id name }"),
    "three-level-mixins-two-operations": ("query Q { me { ...A } }\nquery R { again: me { ...B } }\n"
                                          "fragment A on User { ...B friends { ...C } }\nfragment B on User { ...C name }\n"
                                          "fragment C on User { id }"),
    "mixins-with-abstract-positions": ("query Q { node { id ... on User { ...UF } ... on Post { title author { ...UG } } } "
                                       "me { ...UF pet { __typename id } } }\n"
                                       "query R { again: node { ... on Post { author { ...UG pet { id } } } } }\n"
                                       "fragment UF on User { name friends { ...UG } }\nfragment UG on User { id }"),
    "interface-fragment-unpacked-at-object": ("query Q { me { ...NF name bestFriend { ...NF } } post { ...NF title } }\n"
                                              "fragment NF on Node { id }"),
    "diamond-of-unpacked-fragments": ("query Q { me { ...N1 ...N2 name } }\nfragment N1 on Node { ...N0 }\n"
                                      "fragment N2 on Named { name }\nfragment N0 on Node { id }"),
    # the same interface reached at several positions of ONE operation with different inline-fragment coverage: every position
    # needs its own typename literals (a position without a fragment on User must still accept a User)
    "same-interface-different-coverage": ("query Q { detailed: node { id ... on User { name } } plain: node { id } "
                                          "posts: node { id ... on Post { title } } me { pet { id } bestFriend { pet { id ... on User { name } } } } "
                                          "last: node { id } }"),
    # camelCase GraphQL names whose snake_case form is an attribute of pydantic.BaseModel (and names that are one as written)
    "names-reserved-after-snake-casing": ("query Q { me { modelFields modelConfig modelDump schemaJson parseObj modelComputedFields "
                                          "copy json dict construct } }"),
}
SHAPES.update({
    # an interface implementing an interface: a fragment on the PARENT interface spread inside a fragment on the CHILD interface
    # (unpacked while the child fragment's class is generated: `is_sub_type(parent, child interface)`), and at an object position
    "parent-interface-fragment-in-child-interface-fragment": (
        "query Q { entity { ...EntityFields } org { ...NodeFields title } }\n"
        "fragment EntityFields on Entity { ...NodeFields createdAt }\nfragment NodeFields on Node { id }"),
    # a fragment without inline fragments of its own (a base class of `QMe`) spreading a fragment that has some (unpacked into it)
    "mixin-spreading-a-fragment-with-inline-fragments": (
        "query Q { me { ...UserCard } }\nfragment UserCard on User { ...NodeInfo name }\n"
        "fragment NodeInfo on Node { id ... on User { friends { id } } ... on Post { title } }"),
})
# shapes that are run with BOTH settings of convert_to_snake_case in every run
SHAPES_BOTH_NAMINGS = {"names-reserved-after-snake-casing"}
SHAPE_CALLS = {"same-interface-different-coverage": 10}


def shape_cases(ctx: Ctx) -> List[Dict[str, Any]]:
    import re

    out: List[Dict[str, Any]] = []
    for i, (name, q) in enumerate(sorted(SHAPES.items())):
        ops = re.findall(r"\b(?:query|mutation)\s+(\w+)", q)
        first = (i + int(str(ctx.seed)[-1:] if str(ctx.seed)[-1:].isdigit() else 0)) % 2 == 0
        for snake in ([True, False] if name in SHAPES_BOTH_NAMINGS else [first]):
            out.append({"seed": f"shape:{name}:{snake}", "sdl": SHAPE_SDL, "queries": q + "\n", "config": {"convert_to_snake_case": snake},
                        "calls": [{"op": o, "seed": f"{ctx.seed}:shape:{name}:{o}:{k}", "vars": {}}
                                  for o in ops for k in range(SHAPE_CALLS.get(name, 4))],
                        "snake": snake, "features": {}, "scalar_str": [], "scalars": [], "shape": name})
    return out


# --------------------------------------------------------------------------------------------
# class-IR correspondence
# --------------------------------------------------------------------------------------------

KEYS = ["classes", "rebuild", "usedEnums", "usedScalars", "publicNames", "marks", "mixinImports"]


def observe_many(cases: List[Dict[str, Any]]) -> List[Tuple[str, Any]]:
    return engine.pmap_forked(obs_result.observe, [({"sdl": c["sdl"], "queries": c["queries"], "snake": c.get("snake", True),
                                                      "scalars": c.get("scalars", [])},) for c in cases], timeout=120)


def class_ir_correspondence(ctx: Ctx, cases: List[Dict[str, Any]], res: Result, region: str) -> None:
    """real ResultTypesGenerator (per operation, then per fragment, ASTs shared as in the package
    generator) vs the Lean model, definition by definition"""
    obs = observe_many(cases)
    lines: List[Dict[str, Any]] = []
    index: List[Tuple[int, int]] = []
    for ci, (st, r) in enumerate(obs):
        if st != "ok":
            res.mismatches.append(Mismatch("resultTypes", {"sdl": cases[ci]["sdl"], "queries": cases[ci]["queries"]},
                                           f"observer: {st} {str(r)[:300]}", None))
            continue
        seen: List[int] = []
        for di, d in enumerate(r["defs"]):
            line = {"op": "resultTypes", **r["env"], "marksIn": list(seen)}
            line["operation" if d["kind"] == "op" else "fragment"] = d["wire"]
            seen += [m for m in d["impl"].get("marks", []) if m > 0 and m not in seen]
            lines.append(line)
            index.append((ci, di))
            if "error" in d["impl"]:
                # the real pipeline aborts at the first definition that raises (main.client propagates the exception);
                # the failed definition may already have inserted `__typename` into shared fragment ASTs, so what the
                # generator would emit for LATER definitions is not a behaviour of ariadne-codegen: not compared
                res.count(f"classIR:{region}:definitions-after-first-error-skipped", len(r["defs"]) - di - 1)
                break
    if not lines:
        return
    outs = common.run_driver(DRIVER, lines)
    for (ci, di), line, o in zip(index, lines, outs):
        d = obs[ci][1]["defs"][di]
        impl = d["impl"]
        res.evaluations += 1
        res.count(f"classIR:{region}:{d['kind']}")
        if "error" in impl or "error" in o:
            same = impl.get("error") == o.get("error")
            res.count("classIR:outcome:" + str(impl.get("error", "ok")))
        else:
            o = dict(o)
            o["marks"] = sorted(m for m in o["marks"] if m not in line["marksIn"])
            diffs = [k for k in KEYS if k in impl and impl[k] != o.get(k)]
            diffs += [k for k in ("mixins", "unpacked") if sorted(impl[k]) != sorted(o[k])]
            same = not diffs
            n_classes = len(impl["classes"])
            res.count("classIR:outcome:ok")
            res.distinct.add(common.stable_hash([cases[ci]["sdl"], d["wire"]])) if n_classes > 1 else None
        if not same:
            res.mismatches.append(Mismatch("resultTypes", {"sdl": cases[ci]["sdl"], "queries": cases[ci]["queries"],
                                                           "definition": d["name"], "snake": cases[ci].get("snake", True)},
                                           {k: impl.get(k) for k in KEYS + ["mixins", "unpacked", "error"] if k in impl},
                                           {k: o.get(k) for k in KEYS + ["mixins", "unpacked", "error"] if k in o}))
    if obs and obs[0][0] == "ok" and len(res.samples) < 4:
        d0 = obs[0][1]["defs"][0]
        res.sample({"observation": "resultTypes", "definition": d0["name"], "queries": cases[0]["queries"][:600],
                    "impl_classes": [c["name"] for c in d0["impl"].get("classes", [])]})


# --------------------------------------------------------------------------------------------
# triggers (Lean predicates, asked from the driver)
# --------------------------------------------------------------------------------------------


def env_and_ops(case: Dict[str, Any]) -> Tuple[Dict[str, Any], List[Dict[str, Any]]]:
    from graphql import build_ast_schema, parse

    from . import gqlwire

    schema = build_ast_schema(parse(case["sdl"]), assume_valid=True)
    doc = gqlwire.document_to_json(parse(case["queries"]))
    env = {"schema": gqlwire.schema_to_json(schema), "fragments": doc["fragments"], "snake": case.get("snake", True),
           "scalars": [{"name": n, "typeName": "str", "parseName": None} for n in case.get("scalar_str", [])]}
    return env, doc["operations"]


def triggers_of(cases: List[Dict[str, Any]]) -> List[List[str]]:
    lines = []
    for c in cases:
        env, ops = env_and_ops(c)
        lines.append({"op": "triggers", **env, "operations": ops})
    return common.run_driver(DRIVER, lines) if lines else []


def assign_trigger(prop: str, triggers: List[str], signature: str) -> Optional[str]:
    """a failure lies in a finding's region only if the finding's trigger holds for the input AND
    the finding lists this failure signature"""
    for f in common.load_findings(prop):
        if f.get("status") != "open" or f.get("trigger") not in triggers:
            continue
        sigs = f.get("signature")
        sigs = sigs if isinstance(sigs, list) else [sigs]
        if signature in sigs:
            return f["trigger"]
    return None


# --------------------------------------------------------------------------------------------
# e2e judgement (C01)
# --------------------------------------------------------------------------------------------


def strip_case(c: Dict[str, Any]) -> Dict[str, Any]:
    return {k: c[k] for k in ("sdl", "queries", "config", "calls", "scalar_str", "null_p") if k in c}


def judge_c01(case: Dict[str, Any], status: str, r: Any) -> List[Tuple[str, str, Dict[str, Any]]]:
    """-> [(signature, detail, extra)] for everything that contradicts C01 in this case"""
    out: List[Tuple[str, str, Dict[str, Any]]] = []
    if status != "ok":
        return [("harness-" + status, str(r)[:300], {})]
    if r["gen"] != "ok":
        return [("generation-failed", f"{r['gen']}: {r.get('message', '')[:200]}", {})]
    if r["import"] != "ok":
        return [("import-failed", r["import"][:300], {})]
    for call in r.get("calls", []):
        resp = call.get("response") or {}
        if call["outcome"] == "no-method":
            out.append(("no-method-for-operation", call["op"], {"op": call["op"]}))
        elif resp.get("errors"):
            out.append(("sent-document-rejected-by-server", str(resp["errors"][0].get("message"))[:200], {"op": call["op"]}))
        elif call["outcome"] != "ok":
            out.append(("conformant-response-rejected", f"{call.get('exception')}: {call.get('message', '')[:300]}",
                        {"op": call["op"], "response": resp.get("data")}))
        else:
            probs = call.get("problems") or []
            if probs:
                out.append((probs[0]["problem"], json.dumps(probs[0])[:300], {"op": call["op"], "response": resp.get("data")}))
            elif "dump" in call and not common.same_json(call["dump"], resp.get("data")):
                out.append(("dump-differs", json.dumps(call["dump"])[:200], {"op": call["op"], "response": resp.get("data")}))
            elif "dump_error" in call:
                out.append(("dump-failed", call["dump_error"], {"op": call["op"]}))
    return out
