#!/usr/bin/env python3
"""tools/seed_matrix_inject.py - writes the table printed by tools/seed_matrix.py between the SEED-MATRIX markers of DESIGN.md."""
import subprocess, sys
from pathlib import Path
V = Path(__file__).resolve().parents[1]
table = subprocess.run([sys.executable, str(V / "tools" / "seed_matrix.py")], capture_output=True, text=True, check=True).stdout
d = (V / "DESIGN.md").read_text()
a, b = "<!-- SEED-MATRIX-BEGIN -->", "<!-- SEED-MATRIX-END -->"
i, j = d.index(a) + len(a), d.index(b)
(V / "DESIGN.md").write_text(d[:i] + "\n" + table + d[j:])
print("injected", table.count("\n") - 2, "rows")
