#!/bin/sh
# tools/seed_recheck.sh <seeded-name> <prop> [more props...]  - re-run checks against an already filed seeded change and
# update the verdicts in seeded/<name>/meta.json (used after a check was strengthened).
name="$1"; shift
here="$(cd "$(dirname "$0")/.." && pwd)"
dir="$here/seeded/$name"
[ -f "$dir/patch.diff" ] || { echo "no such seeded change: $name"; exit 2; }
verdicts=""
for p in "$@"; do
  out="$("$here/tools/with_mutation.sh" "$dir/patch.diff" "$p" 2>&1)"
  if echo "$out" | grep -q "^VIOLATION property=$p"; then
    if echo "$out" | grep "^VIOLATION property=$p" | grep -vq "no-failing-input-found"; then v="VIOLATION(with-input)"; else v="VIOLATION(no-failing-input-found)"; fi
  elif echo "$out" | grep -q "^INFRA"; then v="INFRA"; else v="missed"; fi
  verdicts="$verdicts $p=$v"
done
echo "$name:$verdicts"
python3 - "$dir/meta.json" "$verdicts" <<'PY'
import json,sys
m=json.load(open(sys.argv[1]))
c=m.setdefault("checks",{})
for kv in sys.argv[2].split():
    k,v=kv.split("=",1); c[k]=v
json.dump(m,open(sys.argv[1],"w"),indent=1)
PY
