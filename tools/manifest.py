#!/usr/bin/env python3
"""Assemble /verif/MANIFEST.json from manifest.d/Cxx.json fragments (one per claimed property).

Run by hand (or by whoever adds a check) and commit the result; never run by a check.
Properties without a fragment are listed under not_applicable with the reason given in
manifest.d/not_applicable.json (default: not built yet).
"""
import json
from pathlib import Path

V = Path(__file__).resolve().parents[1]
props = [json.loads(l)["id"] for l in (V / "properties.jsonl").read_text().splitlines() if l.strip()]
na_reasons = {}
na_file = V / "manifest.d" / "not_applicable.json"
if na_file.exists():
    na_reasons = json.loads(na_file.read_text())
checks, engines, na = [], [], []
# only properties the owner has verified (exit 0 on the unchanged tree, evidence valid) are registered
enabled = set(json.loads((V / "manifest.d" / "enabled.json").read_text()))
for p in props:
    f = V / "manifest.d" / f"{p}.json"
    if f.exists() and p in enabled:
        frag = json.loads(f.read_text())
        c = {
            "property_id": p,
            "quick_cmd": f"./check {p} --tier quick",
            "thorough_cmd": f"./check {p} --tier thorough",
            "evidence_file": f"evidence/{p}.json",
            "replay_cmd_template": f"./check {p} --replay {{path}}",
            "engine": frag.get("engine", "lean4-proof+correspondence"),
            "level_claimed": {"category": "proof", "text": frag["level_text"], "design_ref": frag.get("design_ref", f"DESIGN.md §3 {p}")},
            "level_note": frag["level_note"],
            "technique": frag.get("technique", "Lean 4 theorems over a hand-written model, tied to the code by a differential correspondence check and regenerated tables"),
        }
        checks.append(c)
    else:
        na.append({"property_id": p, "reason": na_reasons.get(p, "no check registered yet in this round: the Lean model and correspondence harness for this property are still being built (DESIGN.md Appendix C gives the order); nothing is claimed for it")})
served = [c["property_id"] for c in checks]
manifest = {
    "version": 1,
    "setup_cmd": "./check --setup",
    "hooks": {
        "guard": "ARIADNE_CODEGEN_VERIF",
        "enable": "checks export ARIADNE_CODEGEN_VERIF=1 and call the working tree's functions in-process; no guarded hook exists in /repo so far",
        "baseline_off_cmd": "cd /repo && /venv/bin/python -m pytest -ra -q -p no:cacheprovider --timeout=900 --continue-on-collection-errors",
        "source_commits": json.loads((V / "manifest.d" / "source_commits.json").read_text()) if (V / "manifest.d" / "source_commits.json").exists() else [],
        "add_only": True,
    },
    "engines": [
        {"name": "lean4-proof+correspondence", "path": "lean/ harness/ check", "serves_properties": served,
         "kind_free_text": "Lean 4 model + kernel-checked theorems (lean/AriadneModel), tables regenerated from /repo on every run (harness/tables.py), compiled model drivers compared with the real code over a JSON line protocol, property oracles on the real code for the failing-input search"},
    ],
    "checks": checks,
    "notes": "Every check: regenerate tables from /repo -> lake build the property's theorem module and driver -> audit (#print axioms, forbidden tokens) -> replay finding witnesses -> model/implementation correspondence -> property oracle -> classify against known_findings.json. Exit 2 = infrastructure failure (never a violation).",
    "not_applicable": na,
}
# known_findings.json is assembled from findings.d/*.json (committed; never written by a check)
allf = []
for f in sorted((V / "findings.d").glob("C*.json")):
    allf += json.loads(f.read_text())
(V / "known_findings.json").write_text(json.dumps({
    "_comment": "Assembled by tools/manifest.py from findings.d/*.json and committed by hand; never written at run time. status=open: genuine defect of /repo recorded rather than repaired (a failure counts as this finding only if the input lies in the finding's trigger region AND shows its signature). status=fixed: documents a 'fix:' commit in /repo; suppresses nothing - its witness is replayed on every run and a failure is a VIOLATION again.",
    "findings": allf}, indent=1) + "\n")
(V / "MANIFEST.json").write_text(json.dumps(manifest, indent=1) + "\n")
print(f"{len(checks)} checks, {len(na)} not claimed")
