#!/bin/sh
# Run checks against a MUTATED copy of /repo without touching /repo or /verif's build/evidence:
#   tools/with_mutation.sh <patch.diff> C12 [C11 ...]      (extra env: VERIF_SEED, TIER=quick|thorough)
# Creates a scratch git worktree of /repo + a private copy of lean/, applies the patch, runs the
# checks with VERIF_REPO/VERIF_LEAN/VERIF_OUT pointing there, prints the verdict lines, cleans up.
patch="$(readlink -f "$1")"; shift
here="$(cd "$(dirname "$0")/.." && pwd)"
id="mut-$$"
wt="/tmp/$id-repo"; ln="/tmp/$id-lean"; out="/tmp/$id-out"
git -C /repo worktree add -q --detach "$wt" HEAD || exit 2
trap 'git -C /repo worktree remove --force "$wt" >/dev/null 2>&1; git -C /repo worktree prune; rm -rf "$ln" "$out"' EXIT
git -C "$wt" apply "$patch" || { echo "patch does not apply"; exit 2; }
cp -r "$here/lean" "$ln"
mkdir -p "$out"
rc=0
for p in "$@"; do
  echo "=== $p against $(basename "$patch")"
  (cd "$here" && VERIF_REPO="$wt" VERIF_LEAN="$ln" VERIF_OUT="$out" ./check "$p" --tier "${TIER:-quick}") | grep -v "^\[" | cut -c1-400
  code=$?
  echo "--- exit (of grep pipeline; see lines above)"
  ls "$out/replays" 2>/dev/null | head -3
done
