#!/bin/sh
# Run /repo's pinned suite and compare with /root/.vp/BASELINE.json (stable_pass must all pass).
out=${1:-/tmp/verif-baseline.xml}
cd /repo && /venv/bin/python -m pytest -ra -q -p no:cacheprovider --timeout=900 --continue-on-collection-errors --junitxml=$out >/tmp/verif-baseline.log 2>&1
tail -1 /tmp/verif-baseline.log
python3 - "$out" <<'PY'
import json,sys,xml.etree.ElementTree as ET
base=json.load(open('/root/.vp/BASELINE.json'))
want=set(base['stable_pass'])
got=set()
for tc in ET.parse(sys.argv[1]).getroot().iter('testcase'):
    ok=not any(c.tag in('failure','error','skipped') for c in tc)
    if ok: got.add(f"{tc.get('classname')}::{tc.get('name')}")
missing=want-got
print(f"baseline stable_pass={len(want)} passing_now={len(got)} missing={len(missing)} extra_passing={len(got-want)}")
for m in sorted(missing)[:20]: print("  MISSING", m)
sys.exit(1 if missing else 0)
PY
