#!/usr/bin/env python3
"""tools/seed_prompt.py Cxx <worktree> <outdir> [n]  - the brief handed to a FRESH sub-agent that seeds a breaking change.
The agent gets only the property's text and a scratch worktree; nothing from /verif."""
import json, sys

pid, wt, out = sys.argv[1], sys.argv[2], sys.argv[3]
n = sys.argv[4] if len(sys.argv) > 4 else "2"
rec = next(json.loads(l) for l in open("/verif/properties.jsonl") if json.loads(l)["id"] == pid)
anch = rec["anchors"]
print(f"""You are testing how robust a correctness property of the open-source Python project mirumee/ariadne-codegen is against
plausible code changes. ariadne-codegen is a code generator that turns a GraphQL schema + operations into a typed Python
client package (pydantic models plus a sync/async client).

You have your OWN scratch git worktree of the project at {wt} (already created; work ONLY there; never touch /repo, never
read or list /verif). Python with the project's dependencies is /venv/bin/python (run things with
`cd {wt} && PYTHONPATH={wt} /venv/bin/python ...` so that the worktree's code is what gets imported - check with
`python -c "import ariadne_codegen; print(ariadne_codegen.__file__)"`). There is no network.
The project's test suite: `cd {wt} && /venv/bin/python -m pytest -q -p no:cacheprovider --timeout=900 --continue-on-collection-errors`
(on the unmodified tree: 681 passed, 21 failed, 6 errors - the failures are environment drift and are the same with and
without your change; the set of PASSING tests must not shrink).
Environment quirks: call `ariadne_codegen.main.client(config_dict)` / `main.graphql_schema(config_dict)` or pass the strategy
explicitly - the bare CLI without a strategy argument fails under the installed click. Run each generation in a fresh process.

THE PROPERTY ({pid}: {rec['title']})
Statement: {rec['statement']}
Quantified over: {rec['quantifier']['text']}
Source files involved: {', '.join(anch.get('files', []))}
Mechanisms: {'; '.join(m['name'] + ' (' + m['where'] + ')' for m in anch.get('mechanism', []))}
Observable at: {'; '.join(anch.get('observe_at', []))}

YOUR TASK: produce {n} DIFFERENT, independent changes to the project's source (each one a separate small patch against the
worktree's HEAD) such that, for each change:
  1. the code still compiles/imports and the existing test suite passes exactly as before (same set of passing tests);
  2. the property above is BROKEN by the change: there is a concrete input / configuration / sequence on which the
     statement is now false, while it was true on the unmodified code for that same input;
  3. the breakage needs something SPECIFIC to manifest - an unusual but valid input, a particular combination of
     options, a multi-step sequence, a particular interleaving or fault point, or two cooperating sites that each look fine
     alone. Changes that ordinary use or the simplest example would expose at once are NOT wanted. The change should look
     like something a maintainer could plausibly commit (a refactor with a slip, an "optimisation", a simplification, an
     off-by-one, a condition narrowed or widened, an ordering change), not like sabotage, and must not mention testing.
  4. you provide a DEMONSTRATION: a stand-alone script `demo.py` (run as `cd <tree> && /venv/bin/python demo.py` with the
     tree's root as cwd; it must put the cwd first on sys.path so that the tree's ariadne_codegen is imported; temp files
     only under a tempfile.TemporaryDirectory) that exits 0 on the unmodified tree and exits non-zero (assertion failing,
     with a clear message) on the changed tree, by exercising the property on the specific input. The demo must check the
     PROPERTY (observable behaviour as the statement describes it), not the presence of the changed line.
Before choosing, read the relevant code and check on the UNMODIFIED tree that the property really holds for your demo input
(the unmodified code has known defects; pick inputs on which it behaves correctly).

DELIVER, for change k = 1..{n}, a directory {out}/k/ containing exactly:
  patch.diff  (output of `git -C {wt} diff` for that change alone, applicable to HEAD with `git apply`),
  demo.py,
  meta.json   {{"property": "{pid}", "title": "<short name of the change>", "what_changed": "<2-3 sentences>",
               "needs": "<what specific input/sequence/configuration is needed for it to manifest>",
               "why_tests_pass": "<why the existing suite does not notice>"}}
After saving each patch, reset the worktree (`git -C {wt} checkout -- . && git -C {wt} clean -fdq`) before starting the next,
and verify each saved patch once more from clean: apply, run suite + demo (must fail), un-apply, run demo (must pass).
Leave the worktree clean at the end. Do not create files anywhere else except {out}. Final answer: for each change, 3 lines
(title, what it needs, suite result + demo results on clean/changed tree).""")
