#!/usr/bin/env python3
"""tools/seed_matrix.py  - prints the table 'which check catches which seeded change' from seeded/*/meta.json
(the verdicts are recorded there by tools/seed_verify.sh / tools/seed_recheck.sh)."""
import json
from pathlib import Path

V = Path(__file__).resolve().parents[1]
rows = []
for d in sorted((V / "seeded").iterdir()):
    m = d / "meta.json"
    if not m.exists():
        continue
    meta = json.loads(m.read_text())
    checks = meta.get("checks", {})
    title = meta.get("title") or meta.get("summary", "")
    rows.append((d.name, meta.get("property", "?"), "; ".join(f"{k}: {v}" for k, v in checks.items()), title[:110].replace("|", "/")))
print("| seeded change | breaks | verdict of the checks run against it | what it is |")
print("|---|---|---|---|")
for r in rows:
    print("| " + " | ".join(r) + " |")
