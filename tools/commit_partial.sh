#!/bin/sh
# tools/commit_partial.sh "<message>" <paths...>
# Commit ONLY the given paths while other builders have unfinished edits in the working tree, keeping the committed
# MANIFEST.json / known_findings.json consistent with the committed manifest.d/ and findings.d/ (they are regenerated
# from the INDEX, not from the working tree; the working-tree copies are left as they are).
msg="$1"; shift
here="$(cd "$(dirname "$0")/.." && pwd)"; cd "$here" || exit 2
git add -- "$@" || exit 2
tmp="$(mktemp -d /tmp/idx-XXXXXX)"
git checkout-index -a --prefix="$tmp/" || exit 2
(cd "$tmp" && python3 tools/manifest.py >/dev/null) || { echo "manifest.py failed on the index"; rm -rf "$tmp"; exit 2; }
for f in MANIFEST.json known_findings.json; do
  blob=$(git hash-object -w "$tmp/$f") && git update-index --cacheinfo 100644,"$blob","$f"
done
python3-vt - "$tmp" <<'PY' || { echo "MANIFEST does not validate"; exit 2; }
import json,sys,jsonschema
jsonschema.validate(json.load(open(sys.argv[1]+"/MANIFEST.json")), json.load(open("/root/.vp/MANIFEST.schema.json")))
PY
rm -rf "$tmp"
git commit -qm "$msg" && git log --oneline | head -1
