#!/bin/sh
# tools/verify_head.sh Cxx [Cyy ...]  - run the given checks from a clean checkout of /verif's HEAD (build output copied
# from lean/.lake so that only changed modules are rebuilt): proves that what is COMMITTED is self-consistent while the
# working tree holds unfinished edits of other builders.
here="$(cd "$(dirname "$0")/.." && pwd)"
d="$(mktemp -d /tmp/vhead-XXXXXX)"; rmdir "$d"
git -C "$here" worktree add -q --detach "$d" HEAD || exit 2
trap 'git -C "$here" worktree remove --force "$d" >/dev/null 2>&1; git -C "$here" worktree prune' EXIT
cp -r "$here/lean/.lake" "$d/lean/.lake"
for p in "$@"; do
  (cd "$d" && VERIF_PROCS="${VERIF_PROCS:-6}" ./check "$p" --tier "${TIER:-quick}" 2>&1 | grep -E "^(VIOLATION|INFRA|\[$p +[0-9.]+s\] (OK|lean:))" ; echo "$p exit=$?")
done
