#!/bin/sh
# tools/seed_verify.sh <dir with patch.diff demo.py meta.json> <name> <prop> [more props...]
# Confirms a seeded change independently (suite unchanged, demo passes on /repo and fails on the mutated tree),
# runs the registered checks against it, and files it under /verif/seeded/<name>/ with the verdicts in meta.json.
src="$(readlink -f "$1")"; name="$2"; shift 2
here="$(cd "$(dirname "$0")/.." && pwd)"
wt="/tmp/seedv-$$"
git -C /repo worktree add -q --detach "$wt" HEAD || exit 2
trap 'git -C /repo worktree remove --force "$wt" >/dev/null 2>&1; git -C /repo worktree prune' EXIT
if ! git -C "$wt" apply "$src/patch.diff"; then echo "PATCH DOES NOT APPLY"; exit 2; fi
# 1. existing suite: same passing set as the baseline
(cd "$wt" && /venv/bin/python -m pytest -q -p no:cacheprovider --timeout=900 --continue-on-collection-errors --junitxml=/tmp/seedv-$$.xml >/tmp/seedv-$$.log 2>&1)
suite_line="$(tail -1 /tmp/seedv-$$.log)"
missing="$(python3 - /tmp/seedv-$$.xml "$wt" <<'PY'
import json,sys,xml.etree.ElementTree as ET
want=set(json.load(open('/root/.vp/BASELINE.json'))['stable_pass'])
got=set()
for tc in ET.parse(sys.argv[1]).getroot().iter('testcase'):
    if not any(c.tag in('failure','error','skipped') for c in tc): got.add(f"{tc.get('classname')}::{tc.get('name')}".replace(sys.argv[2], "/repo"))  # ids that embed the checkout path
print(len(want-got))
PY
)"
rm -f /tmp/seedv-$$.xml /tmp/seedv-$$.log
# 2. demo on the unmodified tree and on the mutated tree
(cd /repo && timeout 300 /venv/bin/python "$src/demo.py" >/tmp/seedv-$$.o 2>&1); d0=$?
(cd "$wt" && timeout 300 /venv/bin/python "$src/demo.py" >/tmp/seedv-$$.m 2>&1); d1=$?
demo_msg="$(tail -3 /tmp/seedv-$$.m | tr '\n' ' ' | cut -c1-300)"
rm -f /tmp/seedv-$$.o /tmp/seedv-$$.m
echo "suite: $suite_line (baseline tests missing: $missing)  demo unmodified=$d0 mutated=$d1"
ok=1; [ "$missing" = "0" ] || ok=0; [ "$d0" = "0" ] || ok=0; [ "$d1" != "0" ] || ok=0
# 3. our checks
verdicts=""
for p in "$@"; do
  out="$("$here/tools/with_mutation.sh" "$src/patch.diff" "$p" 2>&1)"
  if echo "$out" | grep -q "^VIOLATION property=$p"; then v="VIOLATION"; if echo "$out" | grep "^VIOLATION property=$p" | grep -vq "no-failing-input-found"; then v="VIOLATION(with-input)"; else v="VIOLATION(no-failing-input-found)"; fi
  elif echo "$out" | grep -q "^INFRA"; then v="INFRA"; else v="missed"; fi
  verdicts="$verdicts $p=$v"
  echo "$out" | grep -E "^(VIOLATION|INFRA)" | head -3
done
echo "confirmed=$ok verdicts:$verdicts"
if [ "$ok" = "1" ]; then
  mkdir -p "$here/seeded/$name"
  cp "$src/patch.diff" "$src/demo.py" "$here/seeded/$name/"
  python3 - "$src/meta.json" "$here/seeded/$name/meta.json" "$suite_line" "$d0" "$d1" "$demo_msg" "$verdicts" <<'PY'
import json,sys
m=json.load(open(sys.argv[1]))
m["confirmed_by_owner"]={"suite":sys.argv[3],"baseline_tests_missing":0,"demo_on_unmodified_exit":int(sys.argv[4]),"demo_on_mutated_exit":int(sys.argv[5]),"demo_on_mutated_output":sys.argv[6],
  "ran":"tools/seed_verify.sh: scratch worktree of /repo + patch; pytest suite vs BASELINE.json stable_pass; demo.py on /repo and on the mutated worktree; tools/with_mutation.sh for the checks"}
m["checks"]={kv.split("=")[0]:kv.split("=",1)[1] for kv in sys.argv[7].split()}
json.dump(m,open(sys.argv[2],"w"),indent=1)
PY
fi
