/-
  Model of `get_data` (identical in the four bundled base clients:
  dependencies/base_client.py, async_base_client.py and the two *_open_telemetry.py twins —
  the 4-way textual identity is checked by harness/c12.py on every run) and of
  `GraphQLClientGraphQLMultiError.from_errors_dicts` / `GraphQLClientGraphQLError.from_dict`
  (dependencies/exceptions.py).

  Python, for reference:

      if not response.is_success: raise GraphQLClientHttpError(status_code, response)
      try: response_json = response.json()
      except ValueError: raise GraphQLClientInvalidResponseError(response)
      if (not isinstance(response_json, dict)) or ("data" not in response_json and "errors" not in response_json):
          raise GraphQLClientInvalidResponseError(response)
      data = response_json.get("data"); errors = response_json.get("errors")
      if errors: raise GraphQLClientGraphQLMultiError.from_errors_dicts(errors_dicts=errors, data=data)
      return data
-/
import AriadneModel.Model.Json

namespace Ariadne.GetData
open Ariadne

/-- What `get_data` sees of an `httpx.Response`: the status code and the decoded body
    (`none` = `response.json()` raised `ValueError`: not JSON / not decodable). -/
structure HttpResp where
  status : Nat
  body : Option J
  deriving Repr

/-- `GraphQLClientGraphQLError` as built by `from_dict`. -/
structure GqlErr where
  message : J
  locations : J
  path : J
  extensions : J
  original : J
  deriving Repr

inductive Outcome where
  | http (status : Nat)                      -- GraphQLClientHttpError(status_code, response)
  | invalid                                  -- GraphQLClientInvalidResponseError(response)
  | multi (errs : List GqlErr) (data : J)    -- GraphQLClientGraphQLMultiError(errors, data)
  | data (d : J)                             -- returned value
  | internal (exc : String)                  -- any other exception escaping (KeyError/TypeError)
  deriving Repr

/-- `httpx.Response.is_success`. -/
def isSuccess (status : Nat) : Bool := 200 ≤ status && status ≤ 299

/-- `GraphQLClientGraphQLError.from_dict(error)`: `error["message"]`, `error.get(...)`. -/
def fromDict : J → Except String GqlErr
  | .obj kvs =>
    match J.lookup "message" kvs with
    | some m => .ok { message := m, locations := J.getD "locations" kvs, path := J.getD "path" kvs,
                      extensions := J.getD "extensions" kvs, original := .obj kvs }
    | none => .error "KeyError"
  | _ => .error "TypeError"      -- str/int/None/list are not subscriptable by "message"

/-- the list comprehension `[from_dict(e) for e in errors_dicts]` (first failure escapes). -/
def fromDicts : List J → Except String (List GqlErr)
  | [] => .ok []
  | e :: es =>
    match fromDict e with
    | .error x => .error x
    | .ok g =>
      match fromDicts es with
      | .error x => .error x
      | .ok gs => .ok (g :: gs)

/-- `from_errors_dicts(errors_dicts=errors, data=data)` for a *truthy* `errors`. -/
def fromErrorsDicts (errors data : J) : Outcome :=
  match errors with
  | .arr es =>
    match fromDicts es with
    | .ok gs => .multi gs data
    | .error x => .internal x
  -- truthy non-lists: iterating a str/dict yields strings (`"c"["message"]` → TypeError),
  -- numbers/True are not iterable (TypeError)
  | _ => .internal "TypeError"

def getData (r : HttpResp) : Outcome :=
  if !isSuccess r.status then .http r.status
  else
    match r.body with
    | none => .invalid
    | some (.obj kvs) =>
      if !(J.hasKey "data" kvs) && !(J.hasKey "errors" kvs) then .invalid
      else
        let data := J.getD "data" kvs
        let errors := J.getD "errors" kvs
        if errors.truthy then fromErrorsDicts errors data else .data data
    | some _ => .invalid

/-! ### `response.json()` as `get_data` sees it (C12, decoding glue)

    `try: response_json = response.json()  except ValueError: raise GraphQLClientInvalidResponseError`
    Only `ValueError` (JSONDecodeError, UnicodeDecodeError, the int-digit limit) is caught; anything
    else `json()` raises (CPython: `RecursionError` for deeply nested bodies) escapes unchanged.
    The status test comes first: for a non-2xx response `json()` is never called. -/

inductive JsonCall where
  | value (j : J)                 -- json() returned
  | valueError                    -- json() raised a ValueError
  | raises (exc : String)         -- json() raised something else
  deriving Repr

def JsonCall.body : JsonCall → Option J
  | .value j => some j
  | _ => none

def getDataCall (status : Nat) (jc : JsonCall) : Outcome :=
  if !isSuccess status then .http status
  else
    match jc with
    | .raises x => .internal x
    | jc => getData ⟨status, jc.body⟩

/-! ### The exception objects (dependencies/exceptions.py): attributes and `str()`

      class GraphQLClientHttpError:            __init__(status_code, response); __str__ = f"HTTP status code: {self.status_code}"
      class GraphQLClientInvalidResponseError: __init__(response);              __str__ = "Invalid response format."
      class GraphQLClientGraphQLError:         __init__(message, locations=None, path=None, extensions=None, original=None)
                                               __str__ = self.message          # not a str -> TypeError: __str__ returned non-string
      class GraphQLClientGraphQLMultiError:    __init__(errors, data=None);    __str__ = "; ".join(str(e) for e in self.errors)

    `R` is whatever stands for the `httpx.Response` object (identity is what is carried). -/

inductive Exc (R : Type) where
  | http (statusCode : Nat) (response : R)
  | invalid (response : R)
  | gql (e : GqlErr)
  | multi (errors : List GqlErr) (data : J)
  deriving Repr

/-- `str(e)` of one GraphQL error: the message object itself must be a `str` -/
def GqlErr.str (g : GqlErr) : Except String String :=
  match g.message with
  | .str s => .ok s
  | _ => .error "TypeError"

/-- `[str(e) for e in errors]`, first failure escapes -/
def strAll : List GqlErr → Except String (List String)
  | [] => .ok []
  | g :: gs =>
    match g.str with
    | .error x => .error x
    | .ok s =>
      match strAll gs with
      | .error x => .error x
      | .ok ss => .ok (s :: ss)

def httpPrefix : String := "HTTP status code: "
def invalidText : String := "Invalid response format."
def multiSep : String := "; "

def Exc.str {R : Type} : Exc R → Except String String
  | .http s _ => .ok (httpPrefix ++ toString s)
  | .invalid _ => .ok invalidText
  | .gql g => g.str
  | .multi es _ =>
    match strAll es with
    | .ok ss => .ok (multiSep.intercalate ss)
    | .error x => .error x

/-- the exception object behind an outcome of `get_data(response)`; `none` for a returned value and
    for the undocumented escapes (`.internal`) -/
def excOf {R : Type} (response : R) : Outcome → Option (Exc R)
  | .http s => some (.http s response)
  | .invalid => some (.invalid response)
  | .multi gs d => some (.multi gs d)
  | .data _ => none
  | .internal _ => none

end Ariadne.GetData
