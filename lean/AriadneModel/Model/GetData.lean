/-
  Model of `get_data` (identical in the four bundled base clients:
  dependencies/base_client.py, async_base_client.py and the two *_open_telemetry.py twins —
  the 4-way textual identity is checked by harness/c12.py on every run) and of
  `GraphQLClientGraphQLMultiError.from_errors_dicts` / `GraphQLClientGraphQLError.from_dict`
  (dependencies/exceptions.py).

  Python, for reference:

      if not response.is_success: raise GraphQLClientHttpError(status_code, response)
      try: response_json = response.json()
      except ValueError: raise GraphQLClientInvalidResponseError(response)
      if (not isinstance(response_json, dict)) or ("data" not in response_json and "errors" not in response_json):
          raise GraphQLClientInvalidResponseError(response)
      data = response_json.get("data"); errors = response_json.get("errors")
      if errors: raise GraphQLClientGraphQLMultiError.from_errors_dicts(errors_dicts=errors, data=data)
      return data
-/
import AriadneModel.Model.Json

namespace Ariadne.GetData
open Ariadne

/-- What `get_data` sees of an `httpx.Response`: the status code and the decoded body
    (`none` = `response.json()` raised `ValueError`: not JSON / not decodable). -/
structure HttpResp where
  status : Nat
  body : Option J
  deriving Repr

/-- `GraphQLClientGraphQLError` as built by `from_dict`. -/
structure GqlErr where
  message : J
  locations : J
  path : J
  extensions : J
  original : J
  deriving Repr

inductive Outcome where
  | http (status : Nat)                      -- GraphQLClientHttpError(status_code, response)
  | invalid                                  -- GraphQLClientInvalidResponseError(response)
  | multi (errs : List GqlErr) (data : J)    -- GraphQLClientGraphQLMultiError(errors, data)
  | data (d : J)                             -- returned value
  | internal (exc : String)                  -- any other exception escaping (KeyError/TypeError)
  deriving Repr

/-- `httpx.Response.is_success`. -/
def isSuccess (status : Nat) : Bool := 200 ≤ status && status ≤ 299

/-- `GraphQLClientGraphQLError.from_dict(error)`: `error["message"]`, `error.get(...)`. -/
def fromDict : J → Except String GqlErr
  | .obj kvs =>
    match J.lookup "message" kvs with
    | some m => .ok { message := m, locations := J.getD "locations" kvs, path := J.getD "path" kvs,
                      extensions := J.getD "extensions" kvs, original := .obj kvs }
    | none => .error "KeyError"
  | _ => .error "TypeError"      -- str/int/None/list are not subscriptable by "message"

/-- the list comprehension `[from_dict(e) for e in errors_dicts]` (first failure escapes). -/
def fromDicts : List J → Except String (List GqlErr)
  | [] => .ok []
  | e :: es =>
    match fromDict e with
    | .error x => .error x
    | .ok g =>
      match fromDicts es with
      | .error x => .error x
      | .ok gs => .ok (g :: gs)

/-- `from_errors_dicts(errors_dicts=errors, data=data)` for a *truthy* `errors`. -/
def fromErrorsDicts (errors data : J) : Outcome :=
  match errors with
  | .arr es =>
    match fromDicts es with
    | .ok gs => .multi gs data
    | .error x => .internal x
  -- truthy non-lists: iterating a str/dict yields strings (`"c"["message"]` → TypeError),
  -- numbers/True are not iterable (TypeError)
  | _ => .internal "TypeError"

def getData (r : HttpResp) : Outcome :=
  if !isSuccess r.status then .http r.status
  else
    match r.body with
    | none => .invalid
    | some (.obj kvs) =>
      if !(J.hasKey "data" kvs) && !(J.hasKey "errors" kvs) then .invalid
      else
        let data := J.getD "data" kvs
        let errors := J.getD "errors" kvs
        if errors.truthy then fromErrorsDicts errors data else .data data
    | some _ => .invalid

end Ariadne.GetData
